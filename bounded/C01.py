"""C01 bounded stand-in / CPython cross-check: numeric curve data survives
write -> read within the printed precision.

The REAL `LASFile.write` and `lasio.read` are run over a sampled product of
(shape x values x writer options x engine).  The oracle never calls lasio: the
expected result is the input itself (curve count, order, mnemonics, row count, the
float64 samples), the tolerance is half a unit of the last digit of `fmt % x`
(CPython's formatting operator, i.e. the assumed theory T-fmt) evaluated in exact
rational arithmetic, plus one ulp for the decimal->binary rounding of the reader.

A small reference formatter (spacer + rjust) and the stdlib `textwrap` are used
ONLY to (a) keep every generated input inside the *supported* domain (fields stay
separated by whitespace; no field wider than data_width in wrap mode) and (b)
compute the failure class from the input alone (physical-line layout of the
expected data section, hyphen-in-every-line, ...).  They are not part of the oracle.
"""
import os
import sys

sys.path.insert(0, os.path.dirname(os.path.abspath(__file__)))
from common import Run, main

import hashlib
import io
import json
import math
import multiprocessing
import random
import re
import textwrap
from fractions import Fraction

import numpy as np
import lasio

# ----------------------------------------------------------------------------------
# axes
# ----------------------------------------------------------------------------------
FMTS = ["%.5f", "%.2f", "%.0f", "%g", "%.3e", "%.10g", "%.17g", "%12.4f", "%.4E", "%+.3f"]
# column_fmt recipes (resolved against the curve count into {col: fmt})
CFMTS = ["none", "idx3f", "idx1f_last8e", "c1g_c2f0", "cycle"]
LNFS = [None, -1, 8, 12, 20, 30]
SPACERS = [" ", "  ", "", "\t", "   "]
LHS = [" ", "", "   ", "\t"]
WIDTHS = [26, 40, 79, 80, 200, 1000]
DSHS = ["~ASCII", "~A", "~Ascii Log Data"]
NULLS = [-9999.25, -999.25, -999]
NAMES = ["short", "real", "long"]
NANPATS = ["none", "one", "firstrow", "lastcol", "allnonindex", "checker", "random"]
IDXPATS = ["regular", "regular", "descending", "ladder", "nullvalue", "negative", "constant"]
COLREG = ["ordinary", "ordinary", "wide", "tiny", "huge", "integer"]
NROWS_Q = [1, 2, 3, 5, 25]
VERSIONS = [1.2, 2.0]

AXES = {
    "wrap": [False, True], "version": VERSIONS, "nc": list(range(1, 41)), "nr": NROWS_Q,
    "fmt": FMTS, "cfmt": CFMTS, "lnf": LNFS, "spacer": SPACERS, "lhs": LHS, "dw": WIDTHS,
    "mh": [False, True], "dsh": DSHS, "null": NULLS, "names": NAMES, "nanpat": NANPATS, "idxpat": IDXPATS,
}
AXIS_ORDER = sorted(AXES)

REAL_NAMES = ["GR", "RHOB", "NPHI", "DT", "CALI", "SP", "ILD", "ILM", "SFLU", "PEF", "DRHO", "TENS", "RT", "RXO", "VSH", "PHIE"]

MAGS = [1e-300, 1e-100, 1e-30, 1e-10, 1e-7, 1e-5, 1e-4, 1e-3, 0.01, 0.1, 1.0, 10.0, 100.0, 1e3, 1e4, 1e5,
        1e6, 1e7, 1e10, 1e15, 1e16, 1e20, 1e100, 1e300]
MANT = [1.0, 1.5, 2.5, 3.141592653589793, 9.999999999, 1.2345678901234567, 7.0, 4.9999995, 0.5]
SPECIAL = [0.0, -0.0, 5e-324, 2.2250738585072014e-308, 1.7976931348623157e308, 0.125, 0.5, 2.5, 1.0 / 3.0,
           123456.789, 99999.999995, 0.000005, 9999.25, 999.25, 0.005, 1.005, 2.675]
SMALL = [0.0, 1.0, 2.5, -1.5, 0.125, 7.0, 3.25]

NUM_RE = re.compile(r"^([+-]?)(\d*)(?:\.(\d*))?(?:[eE]([+-]?\d+))?$")
SNIFF_LINES = 21          # number of physical data lines the reader inspects (classification only)


# ----------------------------------------------------------------------------------
# reference formatting (domain filter + classification only)
# ----------------------------------------------------------------------------------
def resolve_cfmt(recipe, nc):
    if recipe == "none":
        return {}
    if recipe == "idx3f":
        return {0: "%.3f"}
    if recipe == "idx1f_last8e":
        return {0: "%.1f", nc - 1: "%.8e"}
    if recipe == "c1g_c2f0":
        return {1: "%g", 2: "%.0f"}
    if recipe == "cycle":
        return {j: FMTS[j % len(FMTS)] for j in range(nc)}
    raise ValueError(recipe)


def col_fmt(opts, j):
    return opts["column_fmt"].get(str(j), opts["fmt"])


def ref_token(x, fmt, nulltext):
    if x is None or (isinstance(x, float) and math.isnan(x)):
        return nulltext
    return fmt % x


def auto_width(fmt):
    """the documented 'automatic' width for len_numeric_field=None (classification only; the
    domain filter only relies on it being >= 10)"""
    l = 10
    while len(fmt % math.pi) > l - 1:
        l += 1
    return l


def ref_field(tok, j, opts):
    l = opts["len_numeric_field"]
    if l is None:
        l = auto_width(opts["fmt"])
    sp = opts["lhs_spacer"] if j == 0 else opts["spacer"]
    return sp + (tok.rjust(l) if l != -1 else tok)


def token_supported(tok, j, opts):
    """is this printed value inside the supported domain at column j under opts?"""
    l = opts["len_numeric_field"]
    if not NUM_RE.match(tok.strip()) or tok.strip() in ("", "+", "-"):
        return False
    if j > 0 and opts["spacer"] == "":
        # separation from the previous field only through the padding
        if l == -1:
            return False
        if len(tok) >= (10 if l is None else l):
            return False
    if opts["wrap"]:
        pad = 0 if l in (None, -1) else l
        if l is None:
            pad = 10
        sp = opts["lhs_spacer"] if j == 0 else opts["spacer"]
        if len(sp) + max(len(tok), pad) > opts["data_width"]:
            return False
    return True


def spec_supported(opts):
    if opts["spacer"] == "" and opts["len_numeric_field"] == -1:
        return False
    return True


def ref_lines(inp):
    """expected physical lines of the data section (reference formatter + stdlib textwrap)"""
    opts = inp["opts"]
    nulltext = str(inp["null"])
    tw = textwrap.TextWrapper(width=opts["data_width"])
    out = []
    rows_multi = False
    for row in inp["data"]:
        s = "".join(ref_field(ref_token(x, col_fmt(opts, j), nulltext), j, opts) for j, x in enumerate(row))
        if opts["wrap"]:
            ls = tw.wrap(s)
            if len(ls) > 1:
                rows_multi = True
            out += ls
        else:
            out.append(s)
    return out, rows_multi


def klass_of(inp, engine):
    opts = inp["opts"]
    nr, nc = len(inp["data"]), len(inp["data"][0])
    lines, rows_multi = ref_lines(inp)
    window = lines[:SNIFF_LINES]
    counts = set(len(l.split()) for l in window)
    if not opts["wrap"]:
        layout = "row-per-line"
    elif not rows_multi:
        layout = "one-line-rows"
    elif len(counts) == 1:
        layout = "uniform-multi"
    else:
        layout = "ragged"
    hyph = int(all("-" in l for l in window))
    win = "all" if len(lines) <= SNIFF_LINES else "part"
    # the 21 physical lines after the first 22: what a second inspection that continues from where the first
    # one stopped would see (it happens when every inspected line holds a hyphen)
    tailw = lines[SNIFF_LINES + 1:2 * SNIFF_LINES + 1]
    tcounts = set(len(l.split()) for l in tailw)
    if not hyph:
        tail = "na"
    elif not tailw:
        tail = "none"
    elif len(tcounts) > 1:
        tail = "ragged"
    else:
        tail = "eq" if tcounts == {nc} else "uniform-wrong"
    shape = ("r1" if nr == 1 else "rN") + ("c1" if nc == 1 else "cN")
    sp = opts["spacer"]
    sep = "pad" if sp == "" else ("tab" if "\t" in sp else "sp")
    lhs = opts["lhs_spacer"]
    lhsk = "none" if lhs == "" else ("tab" if "\t" in lhs else "sp")
    fmts = set(col_fmt(opts, j) for j in range(nc))
    conv = "+".join(sorted(set(f[-1] for f in fmts)))
    flag = int(any(f.startswith("%+") for f in fmts))
    toks = [t for l in lines for t in l.split()]
    longtok = int(any(len(t) > 25 for t in toks))
    expo = int(any(("e" in t or "E" in t) for t in toks))
    l = opts["len_numeric_field"]
    lnf = "auto" if l is None else ("off" if l == -1 else "fixed")
    dsh = {"~ASCII": "ASCII", "~A": "A"}.get(opts["data_section_header"], "long")
    null = "dflt" if inp["null"] == -9999.25 else "alt"
    return ("engine=%s;wrap=%d;layout=%s;shape=%s;hyph=%d;win=%s;tail=%s;sep=%s;lhs=%s;lnf=%s;conv=%s;flag=%d;expo=%d;long=%d;"
            "mh=%d;ver=%s;dsh=%s;null=%s" % (engine, int(opts["wrap"]), layout, shape, hyph, win, tail, sep, lhsk, lnf, conv,
                                             flag, expo, longtok, int(opts["mnemonics_header"]), opts["version"], dsh, null))


# ----------------------------------------------------------------------------------
# the oracle
# ----------------------------------------------------------------------------------
def half_unit(tok):
    """half a unit of the last digit printed, as an exact rational"""
    m = NUM_RE.match(tok.strip())
    frac = m.group(3) or ""
    exp = int(m.group(4)) if m.group(4) else 0
    return Fraction(10) ** (exp - len(frac)) / 2


def build_las(inp):
    las = lasio.LASFile()
    las.well["NULL"].value = inp["null"]
    data = inp["data"]
    for j, name in enumerate(inp["names"]):
        col = np.array([np.nan if row[j] is None else row[j] for row in data], dtype=float)
        las.append_curve(name, col, unit=inp["units"][j], descr=inp["descrs"][j])
    return las


def write_kwargs(opts):
    kw = dict(version=2 if opts["version"] == 2.0 else 1.2, wrap=opts["wrap"], fmt=opts["fmt"],
              column_fmt={int(k): v for k, v in opts["column_fmt"].items()},
              len_numeric_field=opts["len_numeric_field"], lhs_spacer=opts["lhs_spacer"], spacer=opts["spacer"],
              data_width=opts["data_width"], data_section_header=opts["data_section_header"],
              mnemonics_header=opts["mnemonics_header"])
    return kw


def data_excerpt(text):
    i = text.rfind("\n~A")
    return text[i + 1:i + 1 + 330]


def check_read(text, engine, inp):
    """clauses of the statement on read(text, engine) against the input; list of (clause, detail)"""
    opts = inp["opts"]
    data = inp["data"]
    nr, nc = len(data), len(data[0])
    try:
        las2 = lasio.read(text, engine=engine)
    except Exception as e:
        return [("read-does-not-raise", "%r | %s" % (e, data_excerpt(text)))]
    if len(las2.curves) != nc:
        return [("same-number-of-curves", "wrote %d read %d | %s" % (nc, len(las2.curves), data_excerpt(text)))]
    got = [c.mnemonic for c in las2.curves]
    if got != inp["names"]:
        return [("same-mnemonics-in-order", "wrote %r read %r" % (inp["names"], got))]
    lens = [len(c.data) for c in las2.curves]
    if any(n != nr for n in lens):
        return [("same-number-of-rows", "wrote %d rows, read lengths %r | %s" % (nr, sorted(set(lens)), data_excerpt(text)))]
    bad = {}
    nulltext = str(inp["null"])
    for j in range(nc):
        arr = las2.curves[j].data
        fmt = col_fmt(opts, j)
        for i in range(nr):
            x = data[i][j]
            try:
                r = float(arr[i])
            except Exception:
                r = None
            if x is None:
                if r is None or not math.isnan(r):
                    bad.setdefault("nan-comes-back-nan", "cell (%d,%d): NaN written as %s read %r" % (i, j, nulltext, arr[i]))
                continue
            tok = fmt % x
            if r is None or math.isnan(r):
                cl = "index-never-nulled" if j == 0 else "finite-within-half-unit-of-last-digit"
                bad.setdefault(cl, "cell (%d,%d): x=%r printed %r read %r" % (i, j, x, tok, arr[i]))
                continue
            if math.isinf(r):
                bad.setdefault("finite-within-half-unit-of-last-digit", "cell (%d,%d): x=%r printed %r read %r" % (i, j, x, tok, r))
                continue
            tol = half_unit(tok) + Fraction(math.ulp(max(abs(x), abs(r))))
            if abs(Fraction(r) - Fraction(x)) > tol:
                bad.setdefault("finite-within-half-unit-of-last-digit",
                               "cell (%d,%d): x=%r printed %r read %r tol %s" % (i, j, x, tok, r, float(tol)))
    return sorted(bad.items())


def execute(inp, engines=("numpy", "normal")):
    """write once with the real writer, read with each engine; {engine: [(clause, detail)]}"""
    try:
        las = build_las(inp)
        buf = io.StringIO()
        las.write(buf, **write_kwargs(inp["opts"]))
        text = buf.getvalue()
    except Exception as e:
        return {eng: [("write-does-not-raise", repr(e))] for eng in engines}
    return {eng: check_read(text, eng, inp) for eng in engines}


# ----------------------------------------------------------------------------------
# generation
# ----------------------------------------------------------------------------------
def draw_value(rng, regime):
    if regime == "integer":
        return float(rng.choice([0, 1, 2, 7, 10, 99, 100, 1000, 12345, -3, -250]))
    if rng.random() < 0.12:
        v = rng.choice(SPECIAL)
        return -v if rng.random() < 0.3 else v
    if regime == "ordinary":
        mag = rng.choice([1e-3, 0.01, 0.1, 1.0, 10.0, 100.0, 1e3, 1e4])
    elif regime == "tiny":
        mag = rng.choice([1e-300, 1e-100, 1e-30, 1e-10, 1e-7, 1e-5])
    elif regime == "huge":
        mag = rng.choice([1e6, 1e7, 1e10, 1e15, 1e16, 1e20, 1e100, 1e300])
    else:
        mag = rng.choice(MAGS)
    v = rng.choice(MANT) * mag
    if rng.random() < 0.5:
        v = v * (1 + rng.random() * 1e-3)
    if rng.random() < 0.3:
        v = -v
    return v


def value_ok(x, j, opts, nullv):
    """finite sample inside the domain: printable as a supported field, its printed text is a finite
    number, and (outside the index) the printed text does not denote the NULL marker"""
    if not math.isfinite(x):
        return False
    tok = col_fmt(opts, j) % x
    if not token_supported(tok, j, opts):
        return False
    try:
        back = float(tok)
    except ValueError:
        return False
    if not math.isfinite(back):
        return False
    if j > 0 and back == float(nullv):
        return False
    return True


def pick(rng, regime, j, opts, nullv):
    for _ in range(12):
        v = draw_value(rng, regime)
        if value_ok(v, j, opts, nullv):
            return v
    for _ in range(6):
        v = draw_value(rng, "ordinary")
        if value_ok(v, j, opts, nullv):
            return v
    cands = [v for v in SMALL if value_ok(v, j, opts, nullv)]
    if cands:
        return rng.choice(cands)
    return None


def make_names(scheme, nc):
    names = ["DEPT"]
    for j in range(1, nc):
        if scheme == "short":
            names.append("C%d" % j)
        elif scheme == "real":
            k = j - 1
            names.append(REAL_NAMES[k % len(REAL_NAMES)] + ("" if k < len(REAL_NAMES) else str(k // len(REAL_NAMES))))
        else:
            names.append("LONG_MNEMONIC_NUMBER_%02d" % j)
    return names


def make_input(spec, vseed):
    """spec: dict over AXES -> full JSON-serialisable input, or None when no supported input exists"""
    rng = random.Random(vseed)
    nc, nr = spec["nc"], spec["nr"]
    cf = resolve_cfmt(spec["cfmt"], nc)
    opts = {
        "version": spec["version"], "wrap": spec["wrap"], "fmt": spec["fmt"],
        "column_fmt": {str(k): v for k, v in cf.items()},
        "len_numeric_field": spec["lnf"], "spacer": spec["spacer"], "lhs_spacer": spec["lhs"],
        "data_width": spec["dw"], "mnemonics_header": spec["mh"], "data_section_header": spec["dsh"],
    }
    if not spec_supported(opts):
        return None
    nullv = spec["null"]
    nulltext = str(nullv)
    data = [[None] * nc for _ in range(nr)]
    # index column
    pat = spec["idxpat"]
    idx = []
    if pat in ("regular", "descending", "negative"):
        start = rng.choice([0.0, 0.5, 100.0, 1670.0, 2500.25, 10000.5])
        step = rng.choice([0.1, 0.125, 0.1524, 0.5, 1.0])
        if pat == "descending":
            step = -step
        if pat == "negative":
            start = -start - 5.0
        idx = [start + i * step for i in range(nr)]
    elif pat == "constant":
        idx = [rng.choice([0.0, 12.5, 300.0])] * nr
    elif pat == "nullvalue":
        idx = [float(nullv) + i * 0.5 for i in range(nr)]
    else:
        idx = [None] * nr
    for i in range(nr):
        v = idx[i]
        if v is None or not value_ok(v, 0, opts, nullv):
            v = pick(rng, "wide" if pat == "ladder" else "ordinary", 0, opts, nullv)
            if v is None:
                return None
        data[i][0] = v
    # other columns
    for j in range(1, nc):
        regime = rng.choice(COLREG)
        for i in range(nr):
            v = pick(rng, regime, j, opts, nullv)
            if v is None:
                return None
            data[i][j] = v
    # NaN placement (only where the NULL text is itself a supported field)
    np_ = spec["nanpat"]
    if nc > 1 and np_ != "none":
        cells = []
        if np_ == "one":
            cells = [(rng.randrange(nr), rng.randrange(1, nc))]
        elif np_ == "firstrow":
            cells = [(0, j) for j in range(1, nc)]
        elif np_ == "lastcol":
            cells = [(i, nc - 1) for i in range(nr)]
        elif np_ == "allnonindex":
            cells = [(i, j) for i in range(nr) for j in range(1, nc)]
        elif np_ == "checker":
            cells = [(i, j) for i in range(nr) for j in range(1, nc) if (i + j) % 2 == 0]
        elif np_ == "random":
            cells = [(i, j) for i in range(nr) for j in range(1, nc) if rng.random() < 0.3]
        for (i, j) in cells:
            if token_supported(nulltext, j, opts):
                data[i][j] = None
    names = make_names(spec["names"], nc)
    units = [rng.choice(["M", "FT", "M"])] + [rng.choice(["", "GAPI", "G/CM3", "V/V", "OHMM"]) for _ in range(1, nc)]
    descrs = ["depth"] + [rng.choice(["", "curve %d" % j]) for j in range(1, nc)]
    return {"opts": opts, "null": nullv, "names": names, "units": units, "descrs": descrs, "data": data}


def nontrivial(inp):
    """>= 2 curves and (a NaN is present or some finite non-index sample is not reproduced exactly by its
    printed text, i.e. the precision clause is exercised with a real rounding)"""
    nc = len(inp["data"][0])
    if nc < 2:
        return False
    opts = inp["opts"]
    for row in inp["data"]:
        for j in range(1, nc):
            x = row[j]
            if x is None:
                return True
            if float(col_fmt(opts, j) % x) != x:
                return True
    return False


def case_key(inp, engine):
    return hashlib.sha1((engine + json.dumps(inp, sort_keys=True)).encode()).hexdigest()[:20]


def digest(inp):
    return hashlib.sha1(json.dumps(inp, sort_keys=True).encode()).hexdigest()


COMPACT_ABOVE = 120     # cells; larger failing inputs are stored as (generator spec, value seed, digest)


def compact(inp, spec, vseed):
    """explicit input when small; otherwise a reference to the deterministic generator plus a digest of the
    generated input, so that a replay can tell 'regenerated the identical file' from 'generator was edited'"""
    nr, nc = len(inp["data"]), len(inp["data"][0])
    if nr * nc <= COMPACT_ABOVE:
        return dict(inp)
    return {"gen": {"spec": spec, "vseed": vseed}, "sha1": digest(inp), "opts": inp["opts"], "null": inp["null"],
            "shape": [nr, nc]}


def expand(cinp):
    if "gen" not in cinp:
        return cinp
    inp = make_input(cinp["gen"]["spec"], cinp["gen"]["vseed"])
    if inp is None or digest(inp) != cinp["sha1"]:
        raise RuntimeError("C01: the input generator no longer reproduces the recorded input (digest mismatch)")
    return inp


# ----------------------------------------------------------------------------------
# work units
# ----------------------------------------------------------------------------------
def run_specs(job):
    """worker: job = list of (spec, vseed, tries); returns list of per-spec results"""
    out = []
    for spec, vseed, tries in job:
        inp = None
        used = vseed
        for t in range(tries):
            used = vseed + 7919 * t
            inp = make_input(spec, used)
            if inp is not None:
                break
        if inp is None:
            out.append({"spec": spec, "rejected": True})
            continue
        res = execute(inp)
        nt = nontrivial(inp)
        fails = []
        for eng in ("numpy", "normal"):
            if res[eng]:
                kl = klass_of(inp, eng)
                for clause, detail in res[eng]:
                    fails.append((clause, kl, eng, detail))
        out.append({"spec": spec, "rejected": False, "nt": nt,
                    "keys": [case_key(inp, e) for e in ("numpy", "normal")],
                    "fails": fails, "inp": compact(inp, spec, used) if fails else None,
                    "size": len(inp["data"]) * len(inp["data"][0]),
                    "sample": {"opts": inp["opts"], "shape": [len(inp["data"]), len(inp["data"][0])],
                               "first_row": inp["data"][0][:4]}})
    return out


def random_spec(rng, fixed=None, nrows=NROWS_Q):
    spec = {}
    for a in AXIS_ORDER:
        vals = nrows if a == "nr" else AXES[a]
        spec[a] = rng.choice(vals)
    # bias towards the defaults so that each axis is also varied against an otherwise ordinary file
    if rng.random() < 0.35:
        for a, v in (("lnf", None), ("spacer", " "), ("lhs", " "), ("dw", 79), ("dsh", "~ASCII"), ("cfmt", "none")):
            if rng.random() < 0.6:
                spec[a] = v
    if fixed:
        spec.update(fixed)
    return spec


# configurations of the sweep over every curve count 1..40 in wrap mode:
# (fmt, cfmt, lnf, spacer, lhs, dw)  -> fields per physical line in brackets
SWEEP_WRAP = [
    ("%.5f", "none", None, " ", " ", 79),      # defaults [7]
    ("%.5f", "none", None, " ", " ", 40),      # [3]
    ("%.2f", "none", 20, " ", " ", 79),        # [3]
    ("%.3e", "none", 12, "  ", "", 200),       # [14]
    ("%.2f", "none", -1, " ", " ", 79),        # variable width
    ("%g", "idx3f", None, "", " ", 80),        # padding-separated [8]
    ("%.0f", "none", 8, "\t", " ", 26),        # tab [2]
    ("%.10g", "cycle", 30, " ", "   ", 200),   # [6]
    ("%.5f", "none", None, " ", " ", 26),      # [2]
    ("%.4E", "none", None, "   ", "", 1000),   # one line per row
    ("%12.4f", "idx1f_last8e", -1, "  ", "\t", 79),
    ("%+.3f", "c1g_c2f0", 12, " ", " ", 40),   # [3]
]


def build_specs(tier, seed):
    rng = random.Random(1000003 * seed + 17)
    specs = []
    quick = tier == "quick"
    # A. wrap sweep: every curve count x row counts, so that every multiple of fields-per-line is hit
    cfgs = SWEEP_WRAP[:6] if quick else SWEEP_WRAP
    for ci, (fmt, cfmt, lnf, sp, lhs, dw) in enumerate(cfgs):
        for nc in range(1, 41):
            for nr in ((1, 3) if quick else (1, 2, 3, 8)):
                for ver in ((VERSIONS[(nc + nr + ci) % 2],) if quick else VERSIONS):
                    for mh in ((bool((nc + ci) % 2),) if quick else (False, True)):
                        spec = random_spec(rng, {"wrap": True, "fmt": fmt, "cfmt": cfmt, "lnf": lnf, "spacer": sp, "lhs": lhs,
                                                 "dw": dw, "nc": nc, "nr": nr, "version": ver, "mh": mh,
                                                 "idxpat": "regular" if ci % 2 == 0 else rng.choice(IDXPATS)})
                        specs.append(("sweep-wrap", spec))
    # B. unwrapped sweep of shapes under default options (both engines see every r x c)
    for nc in range(1, 41):
        for nr in ((1, 2, 25) if quick else (1, 2, 3, 5, 21, 22, 25)):
            for ver in ((VERSIONS[(nc + nr) % 2],) if quick else VERSIONS):
                spec = random_spec(rng, {"wrap": False, "fmt": "%.5f", "cfmt": "none", "lnf": None, "spacer": " ", "lhs": " ",
                                         "dw": 79, "nc": nc, "nr": nr, "version": ver, "dsh": "~ASCII", "mh": False})
                specs.append(("sweep-unwrapped", spec))
    # C. sampled product
    n = 2600 if quick else 100000
    nrows = NROWS_Q if quick else NROWS_Q + [8, 21, 22, 40]
    for _ in range(n):
        specs.append(("sampled", random_spec(rng, nrows=nrows)))
    return specs


def pairs_of(spec):
    items = [(a, json.dumps(spec[a])) for a in AXIS_ORDER]
    return [(items[i], items[j]) for i in range(len(items)) for j in range(i + 1, len(items))]


def chunked(lst, n):
    return [lst[i:i + n] for i in range(0, len(lst), n)]


def build_run(tier, seed):
    quick = tier == "quick"
    run = Run(
        "C01",
        "a case is one written file read with one engine; it is non-trivial when it has >= 2 curves and either "
        "contains a NaN or some finite non-index sample is not reproduced exactly by its printed text (the format "
        "really rounds); distinct = distinct sha1 of (engine, options, mnemonics, data)",
        "LASFile(curves 1..40, rows 1..40, float64 ladder 5e-324..1.8e308 +/-, NaN at non-index positions, NULL in %r) x "
        "write(version 1.2/2.0, wrap, fmt in %r, column_fmt recipes %r, len_numeric_field in %r, spacer in %r, lhs_spacer in %r, "
        "data_width in %r, mnemonics_header, data_section_header in %r) x read(engine numpy/normal), restricted to "
        "supported combinations" % (NULLS, FMTS, CFMTS, LNFS, SPACERS, LHS, WIDTHS, DSHS),
        "sweeps: every curve count 1..40 x row counts under %d wrap configurations and the default unwrapped one; "
        "plus a seeded sample of the full product topped up to pairwise coverage of all axis-value pairs"
        % (6 if quick else len(SWEEP_WRAP)))
    nproc = 4 if quick else 16
    if os.environ.get("VERIF_WORKERS"):
        nproc = max(1, min(nproc, int(os.environ["VERIF_WORKERS"])))
    specs = build_specs(tier, seed)
    jobs = []
    base = 104729 * seed + 11
    for i, (part, spec) in enumerate(specs):
        jobs.append((spec, base + i * 31, 3))
    ctx = multiprocessing.get_context("fork")
    rejected = 0
    covered = set()
    parts = {}
    pending = []      # failures, reported at the end smallest input first (so the kept examples are minimal)

    def absorb(results, part_names):
        nonlocal rejected
        for res, part in zip(results, part_names):
            if res["rejected"]:
                rejected += 1
                continue
            parts[part] = parts.get(part, 0) + 1
            covered.update(pairs_of(res["spec"]))
            for k in res["keys"]:
                run.case(k, nontrivial=res["nt"], sample=res["sample"] if (res["nt"] and part == "sampled") else None)
            for clause, kl, eng, detail in res["fails"]:
                inp = dict(res["inp"])
                inp["engine"] = eng
                pending.append((res["size"], len(pending), clause, kl, inp, detail))

    with ctx.Pool(nproc) as pool:
        ch = chunked(list(range(len(jobs))), 40)
        for idxs, results in zip(ch, pool.imap(run_specs, [[jobs[i] for i in c] for c in ch])):
            absorb(results, [specs[i][0] for i in idxs])
        # pairwise top-up: every pair of axis values that has a supported input is executed at least once
        allpairs = set()
        for i, a in enumerate(AXIS_ORDER):
            for b in AXIS_ORDER[i + 1:]:
                for u in AXES[a]:
                    for v in AXES[b]:
                        allpairs.add(((a, json.dumps(u)), (b, json.dumps(v))))
        rng = random.Random(seed * 7 + 3)
        unsat = []
        for rnd in range(3):
            missing = sorted(allpairs - covered)
            if not missing:
                break
            tj = []
            for (a, u), (b, v) in missing:
                spec = random_spec(rng, {a: json.loads(u), b: json.loads(v)})
                if rnd > 0:   # make the rest of the file ordinary so that only the pair itself can be unsupported
                    for ax, dv in (("lnf", None), ("spacer", " "), ("dw", 200), ("fmt", "%.5f"), ("cfmt", "none")):
                        if ax not in (a, b):
                            spec[ax] = dv
                tj.append((spec, base + 977 * (len(jobs) + len(tj)) + rnd, 6))
            ch = chunked(tj, 40)
            for c, results in zip(ch, pool.imap(run_specs, ch)):
                absorb(results, ["pairwise-topup"] * len(c))
        unsat = sorted(allpairs - covered)
    for size, order, clause, kl, inp, detail in sorted(pending, key=lambda t: t[:2]):
        run.fail(clause, kl, inp, detail)
    run.notes.append("executed files per part: %r; specs without a supported input (rejected): %d" % (parts, rejected))
    run.notes.append("pairwise coverage: %d of %d axis-value pairs executed; not executed (no supported input found, "
                     "e.g. len_numeric_field=-1 with an empty spacer): %d %s"
                     % (len(allpairs) - len(unsat), len(allpairs), len(unsat),
                        sorted(set("%s=%s&%s=%s" % (a, u, b, v) for (a, u), (b, v) in unsat))[:12]))
    run.notes.append("left out on purpose: '%d'-style integer formats (truncate, so the half-unit clause cannot hold by "
                     "CPython semantics); non-blank spacers; finite non-index samples whose printed text equals the NULL "
                     "marker (cannot be told from a null by construction of the format); samples whose printed text "
                     "overflows to inf; empty spacer unless every later field is shorter than len_numeric_field (10 when "
                     "None); in wrap mode fields wider than data_width; duplicate/blank/lower-case mnemonics (C13/C12); inf.")
    run.notes.append("tolerance = half unit of the last printed digit (of CPython's fmt % x, trailing zeros stripped by %g "
                     "count as not printed, which only widens it) + 1 ulp for the reader's decimal->binary rounding; exact "
                     "rational comparison.  The 1.2 line-length limit (256) is not enforced: lasio only warns.")
    run.exhaustive = False
    return run


def replay_one(entry):
    inp = dict(entry["input"])
    engine = inp.pop("engine")
    inp = expand(inp)
    res = execute(inp, engines=(engine,))[engine]
    for clause, detail in res:
        if clause == entry["clause"]:
            return True, detail
    return False, "clause %s holds on this input now (other failures: %r)" % (entry["clause"], res)


if __name__ == "__main__":
    main("C01", build_run, replay_one)
