"""C02 bounded stand-in / CPython cross-check: the default fast (numpy) engine and
the pure-Python (normal) engine read the same curves from every file whose data
section is made of blank/tab separated plain decimal numbers, one depth step per
line - for every layout the statement lists.

Every generated file is described by a small JSON `spec` (token matrix, body
layout of ~A, sections before/after ~A, line ends, final newline, channel); the
text is rendered from it deterministically.  For each file the REAL lasio.read is
run twice (default engine; engine='normal') and three things are compared:

  * engine against engine: shape, NaN positions, bit patterns + dtype, header sections
  * each read against GROUND TRUTH built from the generator's own token matrix:
    cell (i, j) must be bit-identical to float(token_ij), NaN iff j != 0 and
    float(token_ij) == NULL.  (An index cell equal to NULL is accepted either way:
    that is C06's subject.)

The env-guarded hook `LASFile._verif_engine_trace` tells whether the fast path
really produced the data ('numpy') or silently fell back
('normal-after-numpy-failure'); the two are counted separately and only the
former counts as a non-trivial engine comparison.
"""
import sys
import os
sys.path.insert(0, os.path.dirname(os.path.abspath(__file__)))
from common import Run, main

import hashlib
import itertools
import multiprocessing
import random
import re
import shutil
import struct
import tempfile

import numpy as np
import lasio

# ----------------------------------------------------------------------------
# token pools: "plain decimal numbers" (integers, fixed, exponent, signed, '.5', '5.')
# Deliberately absent (outside the statement's domain or another property's
# subject): inf/nan words, hex, underscores (C08), comma decimal marks, 'd'
# exponents, run-on numbers, quoted strings, text columns.
PLAIN = ["0", "7", "42", "-17", "1000", "123456", "12.50", "-0.001", "3.14159", "100.0", "0.5",
         "-2.75", "1e5", "1.5E-3", "-2.5e+10", "6.02E23", "1E05", "-1.0e-7", "2.5E+00", "0.0", "8.25e2"]
EXOTIC = {
    "plus": ["+3", "+2.5", "+1e3", "+.5", "+0", "+12."],
    "dotlead": [".5", "-.5", ".125", ".5e1", "-.75E-2"],
    "dottrail": ["5.", "-5.", "12.", "5.e-1", "-100.E2"],
    "negzero": ["-0", "-0.0", "-0.0e0", "-.0"],
    "extreme": ["1e300", "1e-300", "1.7976931348623157e308", "5e-324", "2.2250738585072014e-308",
                "123456789012345678901", "0.1234567890123456789012", "-9007199254740993", "0.30000000000000004"],
    "null": None,      # filled per file from the NULL spellings
    "nearnull": None,  # values next to NULL that must NOT become NaN
}
NULLS = {
    "-999.25": (["-999.25", "-999.2500", "-9.9925E2", "-999.25e0"], ["-999.26", "-999.2499", "999.25", "-999.250001"]),
    "-9999": (["-9999", "-9999.0", "-9.999e3", "-9999."], ["-9998", "9999", "-9999.5", "-99990"]),
}
SPELLS = ["plain", "plus", "dotlead", "dottrail", "negzero", "extreme", "null", "nearnull", "mixed"]

COMMENTS = ["#", "# comment", "# 1 2 3", "#1.5\t2.5", "# ~not a title", "#-- depth step --"]
BLANKS_WS = [" ", "   ", "\t", " \t "]

SECTION_BODY = {
    "P": ("~Parameter", ["PA .M      1.5 : parameter a", "PB .       text value : parameter b"]),
    "O": ("~Other", ["some free text 1 2 3", "second line of notes"]),
    "X": ("~Tool_info", ["TA .M      2.5 : tool a", "TB .       7 : tool b"]),
}
A_TITLES = ["~A", "~ASCII", "~Ascii log data", "~A  DEPT   C1", "~ASCII Log Data Section"]


# ----------------------------------------------------------------------------
# rendering

def normalise(spec):
    """a file whose last physical line is the empty string and which has no final
    newline IS the file without that line and with a final newline; make the spec
    say so, so that the class is computed from what the text really is."""
    while not spec["post"] and not spec["fnl"] and spec["lines"][-1] == ["b", ""]:
        spec["lines"].pop()
        spec["fnl"] = True
    return spec


def render_lines(spec):
    """-> (physical lines without line ends, index of the ~A title line)"""
    ncol = len(spec["tokens"][0])
    L = ["~Version ---------------------", "VERS.   %s : CWLS LOG ASCII STANDARD" % spec.get("vers", "2.0"),
         "WRAP.   NO : ONE LINE PER DEPTH STEP"] + (["DLM.   %s : COLUMN DELIMITER" % spec["dlm"]] if spec.get("dlm") else []) + [
         "~Well ------------------------", "STRT.M   1.0 : START", "STOP.M   2.0 : STOP", "STEP.M   1.0 : STEP",
         "NULL.   %s : NULL VALUE" % spec["null"], "WELL.   W1 : WELL",
         "~Curves ----------------------", "DEPT.M     : depth"]
    for j in range(1, ncol):
        L.append("C%d  .U%d    : curve %d" % (j, j, j))
    for s in spec["pre"]:
        t, body = SECTION_BODY[s]
        L.append(t)
        L += body
    a_index = len(L)
    L.append(spec["a_title"])
    for ln in spec["lines"]:
        if ln[0] == "d":
            _, i, lead, seps, trail = ln
            toks = spec["tokens"][i]
            s = lead + toks[0]
            for j in range(1, ncol):
                s += seps[(j - 1) % len(seps)] + toks[j]
            L.append(s + trail)
        else:
            L.append(ln[1])
    for s in spec["post"]:
        t, body = SECTION_BODY[s]
        L.append(t)
        L += body
    return L, a_index


def render(spec):
    L, _ = render_lines(spec)
    text = spec["eol"].join(L)
    if spec["fnl"]:
        text += spec["eol"]
    return text


def tok_class(t, null):
    if float(t) == float(null):
        return "null"
    if t in NULLS[null][1]:
        return "nearnull"
    if t in EXOTIC["extreme"]:
        return "extreme"
    if t[0] == "+":
        return "plus"
    mant = re.split("[eE]", t.lstrip("+-"))[0]
    if mant.startswith("."):
        return "dotlead"
    if mant.endswith("."):
        return "dottrail"
    if t[0] == "-" and float(t) == 0:
        return "negzero"
    return "plain"


def spell_of(spec):
    """spelling class of the file computed from the tokens that are really in it"""
    cl = set(tok_class(t, spec["null"]) for row in spec["tokens"] for t in row) - {"plain"}
    if not cl:
        return "plain"
    return cl.pop() if len(cl) == 1 else "mixed"


def hyphen_census_balanced(spec):
    """A property of the text alone: walk the lines after the ~A title the way a column sniffer limited to 21
    lines would (comment lines skipped, stop at the section's last line or after the 21st line) and say whether
    the number of walked lines containing '-' equals the number of walked non-comment lines.  Files of this class
    make lasio sniff the data section a second time (hyphen substitutions dropped); it is a class of its own
    because that second sniff is a separate piece of code (C07's subject) with its own defects."""
    L, t = render_lines(spec)
    nlines = len(L)          # physical lines of the file (the final newline does not add one)
    nxt = [k for k in range(t + 1, nlines) if L[k].strip().startswith("~")]
    end = nxt[0] - 1 if nxt else nlines
    h = cnt = 0
    for i, line in enumerate(L[t + 1:]):
        line_no = t + 1 + i
        sl = line.strip()
        if "-" in sl:
            h += 1
        if sl.startswith("#"):
            continue
        cnt += 1
        if line_no == end or i >= 20:
            break
    return h == cnt


def klass_of(spec, clause=""):
    """class of the input, computed from the input alone.  Structural axes always; the value-level axes
    (spelling, tabs, padding) are added for the clauses that look at values, so that a value-level defect never
    shares a class with a line-arithmetic one and the structural classes stay few."""
    lines = spec["lines"]
    nrow = len(spec["tokens"])
    ncol = len(spec["tokens"][0])
    last = lines[-1]
    if last[0] == "d":
        tail = "data"
    elif last[0] == "c":
        tail = "comment"
    else:
        tail = "blank" if last[1] == "" else "wsblank"
    # the run of trailing non-data lines is the tail; non-data lines before the last data line are gaps
    k = len(lines)
    while k > 0 and lines[k - 1][0] != "d":
        k -= 1
    gb = any(l[0] == "b" for l in lines[:k])
    gc = any(l[0] == "c" for l in lines[:k])
    gaps = ("b" if gb else "") + ("c" if gc else "") or "none"
    first_data = next(i for i, l in enumerate(lines) if l[0] == "d")
    kl = "A=%s;tail=%s;rows=%s;cols=%s;gaps=%s;eol=%s;fnl=%s;chan=%s;resniff=%d;big=%d;late=%d" % (
        "last" if not spec["post"] else "before-" + spec["post"][0],
        tail, "1" if nrow == 1 else "n", "1" if ncol == 1 else "n", gaps,
        "lf" if spec["eol"] == "\n" else "crlf", ("%d" % spec["fnl"]) if not spec["post"] else "-", spec["chan"],
        int(hyphen_census_balanced(spec)), int(len(lines) > 21), int(first_data >= 21))
    if spec.get("dlm"):
        kl += ";dlm=%s" % spec["dlm"]
    if "values" in clause or "nan" in clause:
        dl = [l for l in lines if l[0] == "d"]
        tab = any("\t" in sp for l in dl for sp in l[3]) or any("\t" in l[2] or "\t" in l[4] for l in dl)
        pad = any(l[2] != "" or l[4] != "" for l in dl) or any(sp != " " for l in dl for sp in l[3])
        kl += ";spell=%s;tab=%d;pad=%d" % (spell_of(spec), int(tab), int(pad))
    return kl


# ----------------------------------------------------------------------------
# oracle

def bits(x):
    return struct.pack(">d", x).hex()


def expected_cells(spec):
    """ground truth per column: list of ('nan',) / ('f', bits) / ('any', bits) cells"""
    nullv = float(spec["null"])
    nrow = len(spec["tokens"])
    ncol = len(spec["tokens"][0])
    cols = []
    for j in range(ncol):
        col = []
        for i in range(nrow):
            v = float(spec["tokens"][i][j])
            if v == nullv:
                col.append(("nan",) if j != 0 else ("any", bits(v)))
            else:
                col.append(("f", bits(v)))
        cols.append(col)
    return cols


def observed(las):
    """per curve: (dtype string, [cell]) with cell 'nan' or the 64 bit pattern (or repr for non-floats)"""
    out = []
    for cu in las.curves:
        a = np.asarray(cu.data)
        if a.dtype == np.float64 and a.ndim == 1:
            cells = ["nan" if v != v else bits(v) for v in a.tolist()]
        else:
            cells = ["%s:%r" % (type(v).__name__, v) for v in a.ravel().tolist()]
        out.append((a.dtype.str + ("" if a.ndim == 1 else ";ndim=%d" % a.ndim), cells))
    return out


def headers(las):
    out = []
    for name, sec in las.sections.items():
        if isinstance(sec, str):
            out.append((name, "str", sec))
        else:
            items = []
            for it in list(sec):
                items.append((it.original_mnemonic, it.mnemonic, it.unit, repr(it.value), it.descr))
            out.append((name, type(sec).__name__, items))
    return out


def shape_of(obs):
    return (len(obs), [len(c[1]) for c in obs])


def unbits(c):
    if c == "nan" or ":" in c:
        return c
    return repr(struct.unpack(">d", bytes.fromhex(c))[0])


def compare_truth(who, obs, exp, nrow, ncol):
    if shape_of(obs) != (ncol, [nrow] * ncol):
        return [("%s-read-shape-equals-file" % who,
                 "file has %d rows x %d columns; read gave %d curves of lengths %r" % (nrow, ncol, len(obs), shape_of(obs)[1]))]
    for j in range(ncol):
        dt, cells = obs[j]
        for i in range(nrow):
            e = exp[j][i]
            got = cells[i]
            if e[0] == "nan":
                ok = got == "nan"
            elif e[0] == "any":
                ok = got == "nan" or got == e[1]
            else:
                ok = got == e[1]
            if not ok or dt != "<f8":
                return [("%s-read-values-equal-file" % who,
                         "row %d col %d dtype %s: expected %s got %s" % (i, j, dt, "nan" if e[0] == "nan" else unbits(e[1]), unbits(got)))]
    return []


def compare_engines(o1, o2, h1, h2):
    fails = []
    if shape_of(o1) != shape_of(o2):
        fails.append(("engines-agree-shape", "default %r normal %r" % (shape_of(o1), shape_of(o2))))
    else:
        nanbad = valbad = None
        for j, ((d1, c1), (d2, c2)) in enumerate(zip(o1, o2)):
            if d1 != d2 and valbad is None:
                valbad = "col %d dtype default %s normal %s" % (j, d1, d2)
            for i, (a, b) in enumerate(zip(c1, c2)):
                if (a == "nan") != (b == "nan"):
                    nanbad = nanbad or "row %d col %d default %s normal %s" % (i, j, unbits(a), unbits(b))
                elif a != b:
                    valbad = valbad or "row %d col %d default %s normal %s" % (i, j, unbits(a), unbits(b))
        if nanbad:
            fails.append(("engines-agree-nan-positions", nanbad))
        if valbad:
            fails.append(("engines-agree-values", valbad))
    if h1 != h2:
        d = next((("default %r normal %r" % (a, b)) for a, b in itertools.zip_longest(h1, h2) if a != b), "")
        fails.append(("engines-agree-headers", d))
    return fails


_TMP = {"dir": None, "n": 0}


def do_read(spec, text, **kw):
    if spec["chan"] == "file":
        _TMP["n"] += 1
        p = os.path.join(_TMP["dir"], "c%d_%d.las" % (os.getpid(), _TMP["n"]))
        with open(p, "wb") as f:
            f.write(text.encode("ascii"))
        try:
            return lasio.read(p, **kw)
        finally:
            os.unlink(p)
    return lasio.read(text, **kw)


def run_case(spec):
    """-> dict(key, klass (structural), trace, fails=[(clause, klass for that clause, detail)], nrow, ncol)"""
    text = render(spec)
    nrow = len(spec["tokens"])
    ncol = len(spec["tokens"][0])
    exp = expected_cells(spec)
    fails = []
    res = {}
    traces = {}
    for who, kw in (("default", {}), ("normal", {"engine": "normal"})):
        try:
            las = do_read(spec, text, **kw)
        except Exception as e:
            msg = str(e).strip().splitlines()
            fails.append(("%s-read-succeeds" % who, "%s: %s" % (type(e).__name__, msg[-1][:300] if msg else "")))
            traces[who] = None
            continue
        traces[who] = list(getattr(las, "_verif_engine_trace", None) or ["no-trace-hook"])
        res[who] = (observed(las), headers(las))
        fails += compare_truth(who, res[who][0], exp, nrow, ncol)
    if len(res) == 2:
        fails += compare_engines(res["default"][0], res["normal"][0], res["default"][1], res["normal"][1])
    key = hashlib.sha1((spec["chan"] + "|" + text).encode("ascii")).hexdigest()
    fails = [(clause, klass_of(spec, clause), detail) for clause, detail in fails]
    return {"key": key, "klass": klass_of(spec), "trace": traces, "fails": fails, "nrow": nrow, "ncol": ncol, "tlen": len(text)}


# ----------------------------------------------------------------------------
# generation

def make_tokens(rng, nrow, ncol, spell, null):
    nullsp, nearsp = NULLS[null]
    pool = {"plain": PLAIN}
    for k, v in EXOTIC.items():
        pool[k] = v
    pool["null"] = nullsp
    pool["nearnull"] = nearsp
    toks = []
    for i in range(nrow):
        row = []
        for j in range(ncol):
            u = rng.random()
            if spell == "plain" or u < 0.45:
                w = rng.random()
                if w < 0.5:
                    t = rng.choice(PLAIN)
                elif w < 0.65:
                    t = "%d" % rng.randint(-99999, 99999)
                elif w < 0.85:
                    t = "%.*f" % (rng.randint(1, 6), rng.uniform(-5000, 5000))
                else:
                    t = ("%.*" + rng.choice("eE")) % (rng.randint(0, 8), rng.uniform(-1, 1) * 10.0 ** rng.randint(-30, 30))
            elif spell == "mixed":
                t = rng.choice(pool[rng.choice(SPELLS[:-1])])
            else:
                t = rng.choice(pool[spell])
            row.append(t)
        toks.append(row)
    if spell not in ("null", "mixed"):
        # no NULL-equal sample by accident (spell=null is the class for that)
        nv = float(null)
        toks = [[("1.25" if float(t) == nv else t) for t in r] for r in toks]
    return toks


def grid_tokens(nrow, ncol, null, salt):
    """deterministic plain tokens for the grid; on odd salts one NULL-equal sample in the last row's last
    (non-index) column -> returns (tokens, spell)"""
    toks = [[PLAIN[(salt * 5 + i * 7 + j * 3) % len(PLAIN)] for j in range(ncol)] for i in range(nrow)]
    if salt % 2 and ncol >= 2:
        toks[nrow - 1][ncol - 1] = NULLS[null][0][(salt // 2) % len(NULLS[null][0])]
        return toks, "null"
    return toks, "plain"


def data_line(rng, i, ncol, style):
    if style == "simple":
        return ["d", i, "", [" "], ""]
    if style == "tabruns":
        # a file that declares DLM TAB: columns separated by runs of one or more tabs, nothing else on the line
        return ["d", i, "", [rng.choice(["\t", "\t", "\t\t", "\t\t\t"]) for _ in range(max(1, min(ncol - 1, 4)))], ""]
    seps_pool = {"spaces": [" ", "  ", "     "], "tabs": ["\t"], "mix": [" ", "\t", "  ", " \t", "\t\t", "\t "]}[style]
    seps = [rng.choice(seps_pool) for _ in range(max(1, min(ncol - 1, 4)))]
    lead = rng.choice(["", "", " ", "   ", "\t"] if style != "tabs" else ["", "", "\t"])
    trail = rng.choice(["", "", " ", "  ", "\t"] if style != "tabs" else ["", "", "\t"])
    return ["d", i, lead, seps, trail]


def gap_line(rng, kind):
    if kind == "b":
        return ["b", ""]
    if kind == "w":
        return ["b", rng.choice(BLANKS_WS)]
    return ["c", rng.choice(COMMENTS)]     # '#' always in the first column (see notes)


def grid_specs(tier):
    """complete product over the small structural axes, plain spellings, simple layout"""
    rng = random.Random(12345)
    if tier == "quick":
        dims = [(r, c) for r in (1, 2, 3) for c in (1, 2, 3)]
        posts = [[], ["P"], ["O"], ["X"], ["P", "O"]]
        tails = ["data", "b", "c"]
        inter = ["none", "b", "c"]
    else:
        dims = [(r, c) for r in (1, 2, 3, 4) for c in (1, 2, 3, 4)]
        posts = [[], ["P"], ["O"], ["X"], ["P", "O"], ["O", "X"], ["X", "P", "O"]]
        tails = ["data", "b", "c", "w", "bb", "cb", "bc"]
        inter = ["none", "b", "c", "w", "bc"]
    salt = 0
    for (r, c), post, tail, it, eol, fnl, chan in itertools.product(
            dims, posts, tails, inter, ("\n", "\r\n"), (True, False), ("str", "file")):
        salt += 1
        toks, spell = grid_tokens(r, c, "-999.25", salt)
        lines = []
        for i in range(r):
            if it != "none" and ((r >= 2 and i == 1) or (r == 1 and i == 0)):
                for k in it:
                    lines.append(gap_line(rng, k))
            lines.append(["d", i, "", [" "], ""])
        if tail != "data":
            for k in tail:
                lines.append(gap_line(rng, k))
        spec = {"tokens": toks, "lines": lines, "null": "-999.25", "pre": [] if "P" in post else ["P"], "post": post,
                "a_title": A_TITLES[salt % 2], "eol": eol, "fnl": fnl, "chan": chan, "spell": spell, "vers": "2.0", "src": "grid"}
        yield normalise(spec)


def random_spec(rng, tier):
    big = tier != "quick"
    u = rng.random()
    if u < 0.15:
        r = 1
    elif u < 0.9:
        r = rng.randint(2, 6)
    else:
        r = rng.randint(7, 45 if big else 26)
    u = rng.random()
    if u < 0.15:
        c = 1
    elif u < 0.9:
        c = rng.randint(2, 6)
    else:
        c = rng.randint(7, 30 if big else 12)
    null = rng.choice(list(NULLS))
    spell = rng.choice(SPELLS)
    toks = make_tokens(rng, r, c, spell, null)
    style = rng.choice(["simple", "spaces", "tabs", "mix", "tabruns"])
    dens = rng.choice([0.0, 0.0, 0.15, 0.5, 1.0])
    lines = []
    uniform_tabs = None
    if style == "tabruns" and rng.random() < 0.5:
        # every data line carries the SAME tab padding (doubled separators, a leading and/or trailing tab)
        uniform_tabs = (rng.choice(["", "\t"]), [rng.choice(["\t", "\t\t"]) for _ in range(max(1, min(c - 1, 4)))], rng.choice(["", "\t"]))
    for i in range(r):
        while dens and rng.random() < dens * 0.7:
            lines.append(gap_line(rng, rng.choice("bwcc")))
        if uniform_tabs is not None:
            lines.append(["d", i, uniform_tabs[0], list(uniform_tabs[1]), uniform_tabs[2]])
        else:
            lines.append(data_line(rng, i, c, style))
    tailk = rng.choice(["", "", "b", "c", "w", "bb", "cb", "bc", "ccc", "wb"])
    for k in tailk:
        lines.append(gap_line(rng, k))
    post = rng.choice([[], [], ["P"], ["O"], ["X"], ["P", "O"], ["O", "P"], ["X", "O"], ["O", "X", "P"], ["P", "X"]])
    pre = [s for s in rng.choice([[], ["P"], ["O"], ["P", "O"], ["X"], ["O", "P", "X"]]) if s not in post]
    spec = {"tokens": toks, "lines": lines, "null": null, "pre": pre, "post": post, "a_title": rng.choice(A_TITLES),
            "eol": rng.choice(["\n", "\r\n"]), "fnl": rng.random() < 0.6, "chan": rng.choice(["str", "str", "file"]),
            "spell": spell, "vers": rng.choice(["2.0", "2.0", "1.2"]), "src": "random"}
    if style == "tabruns":
        spec["dlm"] = "TAB"
    return normalise(spec)


def edge_specs(tier="thorough"):
    """hand-listed corner files named in the statement: 1x1, single row, single column, each with
    every tail, line end, final newline and ~A placement; all exotic spellings in one row / one column"""
    rng = random.Random(777)
    quick = tier == "quick"
    dims = ((1, 1), (1, 4), (4, 1), (22, 1), (25, 3)) if quick else ((1, 1), (1, 4), (4, 1), (1, 2), (2, 1), (21, 2), (22, 1), (25, 3))
    for (r, c) in dims:
        for spell in SPELLS:
            for post in ([], ["P"], ["O"], ["X"]):
                for tail in ("", "b", "c"):
                    for eol, fnl in (("\n", True), ("\r\n", False), ("\n", False), ("\r\n", True))[:2 if quick else 4]:
                        toks = make_tokens(rng, r, c, spell, "-999.25")
                        lines = [["d", i, "", [" "], ""] for i in range(r)] + [gap_line(rng, k) for k in tail]
                        yield normalise({"tokens": toks, "lines": lines, "null": "-999.25", "pre": [], "post": post,
                                         "a_title": "~ASCII", "eol": eol, "fnl": fnl, "chan": "str", "spell": spell,
                                         "vers": "2.0", "src": "edge"})


    # files in which every sniffed line holds a '-' (the second-sniff class), also longer than the 21 sniffed lines
    for (r, c) in ((3, 2), (21, 3), (22, 2), (30, 1)):
        for post in ([], ["O"], ["P"]):
            for tail in ("", "b", "c", "bc"):
                for eol, fnl in (("\n", True), ("\r\n", False)):
                    toks = [["-%d.%d" % (i + 1, j) for j in range(c)] for i in range(r)]
                    lines = [["d", i, "", [" "], ""] for i in range(r)] + [gap_line(rng, k) for k in tail]
                    yield normalise({"tokens": toks, "lines": lines, "null": "-999.25", "pre": [], "post": post,
                                     "a_title": "~A", "eol": eol, "fnl": fnl, "chan": "str", "spell": "plain",
                                     "vers": "2.0", "src": "edge"})

    # long runs of blank/comment lines before the first data line (the first data line is, or is not, among the
    # first 21 body lines)
    for lead in ("b" * 20, "b" * 21, "c" * 25, "bc" * 11, "w" * 22, "cb" * 10):
        for (r, c) in ((2, 2), (1, 3), (3, 1)):
            for post in ([], ["P"]):
                for tail in ("", "b"):
                    toks = make_tokens(rng, r, c, "plain", "-999.25")
                    lines = [gap_line(rng, k) for k in lead] + [["d", i, "", [" "], ""] for i in range(r)] + [gap_line(rng, k) for k in tail]
                    yield normalise({"tokens": toks, "lines": lines, "null": "-999.25", "pre": [], "post": post,
                                     "a_title": "~A", "eol": "\n", "fnl": True, "chan": "str", "spell": "plain",
                                     "vers": "2.0", "src": "edge"})


# ----------------------------------------------------------------------------

def _init_worker(tmpdir):
    _TMP["dir"] = tmpdir
    import logging
    logging.disable(logging.CRITICAL)


MAX_KEEP = 1     # inputs kept per clause|klass (the smallest text); every failure is still counted
CHUNK = 250


def _work(task):
    """task = ("list", [spec...]) or ("random", tier, seed, chunk_index, n).  Returns one compact record per case:
    (key, nrow, ncol, trace_default, trace_normal, klass, [(clause, klass_for_clause)...], kept) where `kept` is None or
    {"spec":..., "details": {clause: detail}}; it is set for the smallest failing text per clause|klass of this chunk
    and for a few sample candidates."""
    try:
        if task[0] == "list":
            specs = task[1]
        else:
            _, tier, seed, idx, n = task
            rng = random.Random("C02/%d/%d" % (seed, idx))
            specs = [random_spec(rng, tier) for _ in range(n)]
        out = []
        details = []
        best = {}
        nsample = 0
        for pos, spec in enumerate(specs):
            res = run_case(spec)
            for clause, kl, _ in res["fails"]:
                k = clause + "|" + kl
                if k not in best or res["tlen"] < best[k][0]:
                    best[k] = (res["tlen"], pos)
            details.append({clause: d for clause, _, d in res["fails"]})
            out.append([res["key"], res["nrow"], res["ncol"], res["trace"]["default"], res["trace"]["normal"], res["klass"],
                        [(clause, kl) for clause, kl, _ in res["fails"]], None])
            if spec["src"] == "random" and nsample < 2 and res["nrow"] <= 3 and res["ncol"] <= 3 and res["trace"]["default"] == ["numpy"]:
                nsample += 1
                out[-1][7] = {"spec": spec, "details": details[-1], "sample": True}
        for tlen, pos in best.values():
            if out[pos][7] is None:
                out[pos][7] = {"spec": specs[pos], "details": details[pos]}
        return out
    except Exception:   # a crash of the harness itself, not of lasio: make it loud
        import traceback
        return [{"harness_crash": traceback.format_exc()}]


def build_run(tier, seed):
    quick = tier == "quick"
    nrandom = 6000 if quick else 150000
    nproc = int(os.environ.get("VERIF_WORKERS") or 0) or min(4 if quick else 16, os.cpu_count() or 1)
    run = Run("C02",
              "a case is one generated file text on one channel (distinct by sha1 of channel+text); it is non-trivial when "
              "the trace hook shows that the default read's data section was really produced by the numpy engine "
              "(trace == ['numpy']) and the second read by the normal engine; comparisons after a silent fall-back are "
              "checked too but not counted",
              "LAS 1.2/2.0 unwrapped files, ~C declaring exactly the data columns, data = blank/tab separated plain decimal "
              "numbers; rows x columns x spellings x separators/padding x blank/comment lines x ~A placement x LF/CRLF x "
              "final newline x {text passed as str, file on disk}",
              "grid: rows,cols <= %d complete over tail/gap/placement/eol/final-newline/channel; edge list; %d seeded random files "
              "(rows <= %d, cols <= %d)" % (3 if quick else 4, nrandom, 26 if quick else 45, 12 if quick else 30))
    listed = list(grid_specs(tier)) + list(edge_specs(tier))
    tasks = [("list", listed[i:i + CHUNK]) for i in range(0, len(listed), CHUNK)]
    tasks += [("random", tier, seed, idx, min(CHUNK, nrandom - idx * CHUNK)) for idx in range((nrandom + CHUNK - 1) // CHUNK)]
    del listed
    tmpdir = tempfile.mkdtemp(prefix="c02_", dir=os.environ.get("VERIF_SCRATCH", "/var/tmp"))
    st = {"fast": 0, "fallback": 0, "other": 0, "fails_fast": 0, "fails_fb": 0, "dups": 0}
    fb_shapes = {}
    seen = set()
    kept_len = {}

    def absorb(rec):
        key, nrow, ncol, td, tn, klass, fails, kept = rec
        if key in seen:
            st["dups"] += 1
            return          # the same text on the same channel generated twice: counted once
        seen.add(key)
        fast = td == ["numpy"]
        if fast:
            st["fast"] += 1
        elif td == ["normal-after-numpy-failure"]:
            st["fallback"] += 1
            kp = klass.split(";")
            k = "%sx%s;%s;%s;%s" % ("1" if nrow == 1 else "n", "1" if ncol == 1 else "n",
                                    "A=last" if kp[0] == "A=last" else "A=inner",
                                    kp[1] if kp[1] == "tail=data" else "tail=nondata", kp[4] if kp[4] == "gaps=none" else "gaps=some")
            fb_shapes[k] = fb_shapes.get(k, 0) + 1
        else:
            st["other"] += 1
        if fails:
            st["fails_fast" if fast else "fails_fb"] += 1
        sample = None
        if kept is not None and kept.get("sample") and len(run.samples) < 6:
            sample = {"klass": klass, "trace_default": td, "trace_normal": tn, "failing_clauses": [c for c, _ in fails],
                      "text": render(kept["spec"])}
        run.case(key, nontrivial=fast and tn == ["normal"], sample=sample, n=2)
        for clause, kl in fails:
            k = "%s|%s" % (clause, kl)
            run.counts[k] = run.counts.get(k, 0) + 1
            if kept is None:
                continue
            text = render(kept["spec"])
            if k in kept_len and kept_len[k] <= len(text):
                continue    # a smaller (or earlier, equally small) input of this class is already kept
            kept_len[k] = len(text)
            inp = {"spec": kept["spec"]}
            if len(text) < 700:
                inp["text"] = text
            run.failures[k] = [{"clause": clause, "klass": kl, "input": inp,
                                "detail": ("trace(default)=%r: %s" % (td, kept["details"][clause]))[:600]}]

    try:
        if nproc > 1:
            ctx = multiprocessing.get_context("fork")
            pool = ctx.Pool(nproc, initializer=_init_worker, initargs=(tmpdir,))
            try:
                chunks = pool.imap(_work, tasks)     # imap keeps task order: the result is deterministic
                for chunk in chunks:
                    for rec in chunk:
                        if isinstance(rec, dict):
                            raise RuntimeError("harness crashed:\n%s" % (rec["harness_crash"],))
                        absorb(rec)
            finally:
                pool.terminate()
                pool.join()
        else:
            _init_worker(tmpdir)
            for t in tasks:
                for rec in _work(t):
                    if isinstance(rec, dict):
                        raise RuntimeError("harness crashed:\n%s" % (rec["harness_crash"],))
                    absorb(rec)
    finally:
        shutil.rmtree(tmpdir, ignore_errors=True)
    run.notes.append("files compared: %d; the numpy engine really produced the data of the default read in %d of them; "
                     "the default read silently fell back to the normal engine in %d; the default read raised (or no trace hook) in %d"
                     % (len(seen), st["fast"], st["fallback"], st["other"]))
    run.notes.append("files with at least one failing clause: %d among fast-path comparisons, %d among fall-back/raised"
                     % (st["fails_fast"], st["fails_fb"]))
    run.notes.append("fall-backs by rows x cols;placement;tail;gaps: %r" % (dict(sorted(fb_shapes.items())),))
    run.notes.append("evaluations counts two reads per file (default engine, engine='normal'); %d generated duplicates of an "
                     "identical text+channel were dropped from all counts" % st["dups"])
    run.notes.append("one input (the smallest text) is kept per clause|klass; failure_counts has the number of failing files per clause|klass")
    run.notes.append("left out on purpose: ~C always declares exactly the data columns (column binding with d != c is C07); "
                     "no NULL-equal sample is REQUIRED to stay un-replaced in the index column (either accepted, C06); "
                     "lowercase/indented section titles (C05); '#' not in the first column of a comment line; tokens with '_', "
                     "inf/nan words, comma marks, run-on numbers, text columns; wrapped files and non-default null_policy/dtypes "
                     "(the fast engine is not selected there); header sections are compared engine against engine only "
                     "(their parsing is C03-C05)")
    run.notes.append("klass axes: A placement (last / kind of the section that follows), kind of the last line of the ~A body, "
                     "rows 1/n, cols 1/n, blank(b)/comment(c) lines before the last data line, line end, final newline (only when ~A "
                     "is last), channel, resniff (hyphen census of the sniffed lines balanced -> lasio sniffs the section twice), "
                     "big (more than 21 body lines), late (no data line among the first 21 body lines); spelling/tab/padding axes are appended for the value clauses only")
    run.notes.append("workers=%d" % nproc)
    return run


def replay_one(entry):
    spec = normalise(entry["input"]["spec"])
    tmpdir = tempfile.mkdtemp(prefix="c02_", dir=os.environ.get("VERIF_SCRATCH", "/var/tmp"))
    try:
        _init_worker(tmpdir)
        res = run_case(spec)
    finally:
        shutil.rmtree(tmpdir, ignore_errors=True)
    for clause, _, detail in res["fails"]:
        if clause == entry["clause"]:
            return True, "trace(default)=%r: %s" % (res["trace"]["default"], detail)
    return False, "clause %s holds on this input now (trace %r; other failures: %r)" % (entry["clause"], res["trace"], res["fails"])


if __name__ == "__main__":
    main("C02", build_run, replay_one)
