"""C03 bounded stand-in / CPython cross-check: header metadata survives write -> read.

LASFile objects are built in memory (SectionItems / HeaderItem / CurveItem) from
item lists over the conformant alphabet of the statement, written with the real
writer as version 1.2 and 2.0, read back with the real reader under
mnemonic_case preserve / upper / lower, and compared per section with the item
lists the file was built from (the oracle is the input itself, no second call
into lasio): original mnemonic (mapped by str.upper / str.lower), unit, value
(numerically when both sides are numbers), description, order, ~Other text.

Permitted differences (the statement's list, nothing else):
  * STRT/STOP/STEP values are not compared (refreshed from the data);
  * STRT/STOP/STEP and index-curve units may be the original or the aligned one
    (index-curve unit if it has one, else STRT's);
  * an empty value on an item that has a unit may come back as 0 (accepted in
    every section);
  * VERS: value must equal the version asked for, its description is not compared
    (write(version=...) is documented to install its own VERS line).

Two families of cases:
  sweep - one section varies over all item lists of length 0..L from a pool, each
          item in turn made the widest of its section (long unit, long value, long
          number, long mnemonic, long description, empty value with long unit,
          empty unit with long value); the other sections are fixed;  exhaustive
          for the stated pool/L.
  rand  - every section drawn at random (seeded) field by field from the alphabets,
          mandatory items at random positions, random ~Other text.
"""
import sys
import os
sys.path.insert(0, os.path.dirname(os.path.abspath(__file__)))
from common import Run, main

import hashlib
import io
import itertools
import json
import multiprocessing
import random
import re

import numpy as np
import lasio
from lasio import HeaderItem, CurveItem, SectionItems, LASFile

SECTIONS = ("Version", "Well", "Curves", "Parameter")
CASES = ("preserve", "upper", "lower")
CASEF = {"preserve": (lambda s: s), "upper": str.upper, "lower": str.lower}
TABLE12 = ("STRT", "STOP", "STEP", "NULL", "strt", "stop", "step", "null")   # LAS 1.2 ~W: value:descr lines
SSS = ("STRT", "STOP", "STEP")

# ---------------------------------------------------------------- alphabet
LONGU = "LONGUNIT/LONGUNIT_LONGUNIT(LONGUNIT)LONGUNIT-LONGU"            # 50, no period
LONGV = "long value with (punct) [x] \"q\" it's ; and more words to be the widest"
LONGD = "long description, with (paren) [br] \"q\" and enough words to be the widest one"
LONGM = "VERYLONGMNEMONIC_0123456789_ABCDEFGH"
LONGNUM = -1234567890.12345
LONGINT = 123456789012345678

POOL = [
    ("A", "M", 1, "d"),
    ("A", "", "text", "Some description"),
    ("a", "GAPI", "", "lower-case twin"),
    ("", "", "v", "blank mnemonic"),
    ("", "K", "", ""),
    ("GR", "ohm.m", 35.5, "a.b.c ends."),
    ("B 2", "us/ft", "1000 psi", "1 LEADING NUMBER"),
    ("Rt-1", "K(M)", "(br) [b] \"q\" it's", "with (paren) [br] \"q\" x..y"),
    ("X_Y", "", "", ""),
    ("LONGMNEMONIC_X", "1/2IN", -999.25, "a;b,c/d x=1 50% #5 ~t"),
]
POOL_QUICK = [POOL[i] for i in (0, 1, 2, 3, 4, 5, 7)]
POOL_WELL_EXTRA = [
    ("NULL", "", -9999, "second null"),           # duplicate of the mandatory NULL
    ("Null", "", "mixed", "mixed-case special"),
    ("null", "M", "", "lower-case special"),
]
MODES = ("long_unit", "long_value", "long_num", "long_mnem", "long_descr", "ev_unit", "eu_long_value")

R_MNEMS = ["A", "A", "a", "B", "GR", "", "", "B 2", "Rt-1", "X_Y", "Dé", "LONGMNEMONIC_X", "Q", "UWI", "API", "x1", LONGM]
R_MNEMS_WELL = R_MNEMS + ["NULL", "Null", "null", "Strt"]
R_UNITS = ["", "", "", "M", "FT", "GAPI", "ohm.m", "K(M)", "us/ft", "1/2IN", "%", "degC", "m3/m3", "g/cm3", "µs", LONGU]
R_VALUES = ["", "", "", 0, 1, -1, 7, 12345678, 35.5, -999.25, 1e-05, 2.0, 0.0, "text", "two words", "v  w", "1000 psi",
            "(bracketed)", "[b]", "\"quoted\"", "it's", "a;b,c/d", "x=1", "50%", "a.b", "1.2.3", "-", "--", "07", "0012345",
            "2019-01-01", "12 Jan 2019", "#5", "x~y", "see..below", "N/A", "YES", LONGV, LONGNUM, LONGINT]
R_DESCRS = ["", "", "d", "Some description", "with (paren) [br] \"q\"", "1 LEADING NUMBER", "a.b.c", "ends.", "x..y",
            "a;b,c/d x=1 50% #5 ~t", "it's", "12", LONGD]
R_OTHER = ["", "", "single line", "two\nlines", "with: colon . and ~ inside", "a\n\nb", "# looks like a comment\ntext",
           "A.M 1 : looks like an item", "x" * 90]

NUMRE = re.compile(r"[+-]?(\d+\.?\d*|\.\d+)([eE][+-]?\d+)?")


def numval(x):
    """independent numeric reading of a header value; None when it is not a number"""
    if isinstance(x, bool):
        return None
    if isinstance(x, (int, float, np.integer, np.floating)):
        return float(x)
    if isinstance(x, str) and NUMRE.fullmatch(x):
        return float(x)
    return None


# ---------------------------------------------------------------- domain guard
def conformant_item(section, it):
    m, u, v, d = it
    sv = str(v)
    if not (isinstance(m, str) and isinstance(u, str) and isinstance(d, str) and isinstance(v, (str, int, float)) and not isinstance(v, bool)):
        return False
    for f in (m, u, sv, d):
        if "\n" in f or "\r" in f or "\t" in f or f != f.strip():
            return False
    if "." in m or ":" in m or m[:1] in ("~", "#"):
        return False
    if re.search(r"\s", u) or ".." in u or ":" in u or NUMRE.fullmatch(u) or re.fullmatch(r"[0-9.+\-eE]+", u):
        return False
    if u and (u[0] == "." or u[-1] == "." or (u[0] == "[" and u[-1] == "]") or (u[0] == "(" and u[-1] == ")")):
        return False
    if ":" in sv or ":" in d:
        return False
    if isinstance(v, float) and not np.isfinite(v):
        return False
    if isinstance(v, int) and abs(v) >= 2 ** 62:
        return False
    if isinstance(v, str) and (re.search(r"\d,\d", v) or re.search(r"\d_\d", v) or v.lower() in ("nan", "inf", "-inf", "+inf", "infinity")):
        return False          # left out: text the reader documents as a number in another notation
    if section == "Curves" and ".." in sv:
        return False
    if m == "" and ("." in u or "." in sv or "." in d):
        return False          # blank mnemonics only on lines with no further period
    return True


def conformant_spec(spec):
    if spec.get("build", "append") not in ("append", "ctor"):
        return False
    for s in SECTIONS:
        for it in spec[s]:
            if not conformant_item(s, tuple(it)):
                return False
    vm = [it[0] for it in spec["Version"]]
    wm = [it[0] for it in spec["Well"]]
    if vm.count("VERS") != 1 or vm.count("WRAP") != 1:
        return False
    if any(wm.count(x) != 1 for x in SSS):
        return False
    # names that steer the reader are kept to their home section, once (C05/C12 territory otherwise)
    for s in SECTIONS:
        for it in spec[s]:
            up = it[0].upper()
            if up in ("VERS", "WRAP", "DLM") and (s != "Version" or it[0] != up):
                return False
            if up in ("STRT", "STOP", "STEP", "NULL") and s != "Well":
                return False
    if [x.upper() for x in vm].count("DLM") > 1:
        return False
    for ln in spec["Other"].split("\n") if spec["Other"] else []:
        if ln != ln.strip() or ln.startswith("~") or "\r" in ln:
            return False
    if spec["Other"].endswith("\n") or spec["Other"].startswith("\n"):
        return False
    return True


# ---------------------------------------------------------------- build / run / compare
def build_las(spec):
    """spec["build"]: "append" (default; items added with SectionItems.append, as the reader and LASFile.append_curve do,
    so duplicated mnemonics carry session suffixes) or "ctor" (SectionItems(list))"""
    las = LASFile()
    ctor = spec.get("build", "append") == "ctor"

    def section(items):
        if ctor:
            return SectionItems(items)
        s = SectionItems()
        for it in items:
            s.append(it)
        return s

    las.sections["Version"] = section([HeaderItem(*it) for it in spec["Version"]])
    las.sections["Well"] = section([HeaderItem(*it) for it in spec["Well"]])
    las.sections["Curves"] = section([CurveItem(*it, data=np.array([1.0, 2.0, 3.0]) + 10.0 * j) for j, it in enumerate(spec["Curves"])])
    las.sections["Parameter"] = section([HeaderItem(*it) for it in spec["Parameter"]])
    las.sections["Other"] = spec["Other"]
    return las


def aligned_unit(spec):
    cu = spec["Curves"][0][1] if spec["Curves"] else ""
    if cu:
        return cu
    return [it for it in spec["Well"] if it[0] == "STRT"][0][1]


def compare_section(spec, sec, version, case, got):
    """first violated clause of the statement in this section, or None"""
    exp = [tuple(it) for it in spec[sec]]
    cf = CASEF[case]
    if len(got) != len(exp):
        return ("same-items-same-order", "wrote %d items, read %d: %r" % (len(exp), len(got), [g[0] for g in got]))
    em = [cf(e[0]) for e in exp]
    gm = [g[0] for g in got]
    if em != gm:
        if sorted(em) == sorted(gm):
            return ("same-items-same-order", "mnemonics wrote %r read %r" % (em, gm))
        for e, g in zip(em, gm):
            if e != g:
                if case != "preserve" and isinstance(g, str) and e.upper() == g.upper():
                    return ("mnemonic-case-mapped", "expected %r got %r" % (e, g))
                return ("same-original-mnemonic", "wrote %r read %r (all: %r)" % (e, g, gm))
    al = aligned_unit(spec)
    for i, (e, g) in enumerate(zip(exp, got)):
        m, u, v, d = e
        gmn, gu, gv, gd = g
        units = {u}
        if (sec == "Well" and m in SSS) or (sec == "Curves" and i == 0):
            units.add(al)
        if not (isinstance(gu, str) and gu in units):
            return ("same-unit", "item #%d %r: wrote unit %r read %r (value read %r, descr read %r)" % (i, m, u, gu, gv, gd))
        if sec == "Well" and m in SSS:
            pass                                           # refreshed from the data
        elif sec == "Version" and m == "VERS":
            if numval(gv) != float(version):
                return ("same-value", "VERS read back as %r after write(version=%r)" % (gv, version))
        else:
            ok = False
            en, gn = numval(v), numval(gv)
            if en is not None:
                ok = gn is not None and gn == en
            else:
                ok = isinstance(gv, str) and gv == v
            if not ok and v == "" and any(units) and gn == 0.0:
                ok = True                                  # empty value on an item with a unit written as 0
            if not ok:
                return ("same-value", "item #%d %r: wrote value %r read %r (unit read %r, descr read %r)" % (i, m, v, gv, gu, gd))
        if not (sec == "Version" and m == "VERS"):
            if not (isinstance(gd, str) and gd == d):
                return ("same-description", "item #%d %r: wrote descr %r read %r (value read %r)" % (i, m, d, gd, gv))
    return None


def write_text(spec, version):
    las = build_las(spec)
    buf = io.StringIO()
    las.write(buf, version=version)
    return buf.getvalue()


def check(spec, version, cases=CASES):
    """-> list of (clause, section, case, detail); at most one per (section, case)"""
    out = []
    try:
        text = write_text(spec, version)
    except Exception as e:
        return [("write-succeeds", "-", "-", repr(e))]
    for case in cases:
        try:
            las2 = lasio.read(text, mnemonic_case=case)
        except Exception as e:
            out.append(("read-back-succeeds", "-", case, repr(e)[:300]))
            continue
        for sec in SECTIONS:
            s2 = las2.sections.get(sec)
            if s2 is None:
                out.append(("same-items-same-order", sec, case, "section missing after read"))
                continue
            got = [(it.original_mnemonic, it.unit, it.value, it.descr) for it in list.__iter__(s2)]
            bad = compare_section(spec, sec, version, case, got)
            if bad:
                out.append((bad[0], sec, case, bad[1]))
        if las2.sections.get("Other") != spec["Other"]:
            out.append(("same-other-text", "Other", case, "wrote %r read %r" % (spec["Other"], las2.sections.get("Other"))))
    return out


# ---------------------------------------------------------------- klass (from the input alone)
def rhs_text(sec, version, it, ncurves):
    m, u, v, d = it
    if sec == "Well" and m in SSS:
        return "1.00000" if ncurves else "None"
    if sec == "Well" and version == 1.2 and m not in TABLE12:
        return d
    return str(v)


def section_flags(spec, sec, version, case):
    items = [tuple(it) for it in spec[sec]]
    nc = len(spec["Curves"])
    al = aligned_unit(spec)

    def unit_of(it):
        return al if (sec == "Well" and it[0] in SSS) else it[1]

    evu = "none"
    if sec in ("Well", "Parameter"):
        widths = [len(unit_of(it)) + 1 + len(rhs_text(sec, version, it, nc)) for it in items]
        for it in items:
            value_is_rhs = not (sec == "Well" and version == 1.2 and it[0] not in TABLE12)
            if it[1] and it[2] == "" and value_is_rhs and not (sec == "Well" and it[0] in SSS):
                if evu == "none":
                    evu = "present"
                if len(it[1]) + 1 >= max(widths):
                    evu = "widest"
    dup = 0
    mix = 0
    if sec == "Well" and version == 1.2:
        names = [it[0] for it in items]
        dup = int(any(names.count(n) > 1 for n in TABLE12))
        if case in ("upper", "lower"):
            mix = int(any((it[0] in TABLE12) != (CASEF[case](it[0]) in TABLE12) for it in items))
    blank = int(any(it[0] == "" for it in items))
    names = [it[0] for it in items]
    dupl = int(len(set(names)) != len(names))
    return "evu=%s;dupspecial12=%d;mixspecial12=%d;blank=%d;dup=%d" % (evu, dup, mix, blank, dupl)


def klass_of(meta, spec, version, sec, case):
    if sec in SECTIONS:
        fl = section_flags(spec, sec, version, case)
    else:
        # write/read raised or ~Other differs: flags of all sections, strongest wins
        fls = [section_flags(spec, s, version, case if case in CASES else "preserve") for s in SECTIONS]
        evu = "widest" if any("evu=widest" in f for f in fls) else ("present" if any("evu=present" in f for f in fls) else "none")
        fl = "evu=%s;dupspecial12=%d;mixspecial12=%d;blank=%d;dup=%d" % (
            evu, int(any("dupspecial12=1" in f for f in fls)), int(any("mixspecial12=1" in f for f in fls)),
            int(any("blank=1" in f for f in fls)), int(any("dup=1" in f for f in fls)))
        if sec == "Other":
            o = spec["Other"]
            fl += ";other=%s" % ("empty" if o == "" else "blankline" if "\n\n" in o else "multi" if "\n" in o else "single")
    k = "build=%s;sec=%s;v=%s;case=%s;%s" % (spec.get("build", "append"), sec, version, case, fl)
    if meta["kind"] == "sweep":
        k += ";widen=%s" % (meta.get("mode", "none") if meta["swept"] == sec else "other-section")
    else:
        k += ";widen=rand"
    return k


# ---------------------------------------------------------------- generation
BASE = {
    "Version": [("VERS", "", 2.0, "version"), ("WRAP", "", "NO", "One line per depth step")],
    "Well": [("STRT", "M", 1.0, "start"), ("STOP", "M", 3.0, "stop"), ("STEP", "M", 1.0, "step"), ("NULL", "", -999.25, "null value")],
    "Curves": [("DEPT", "M", "", "depth"), ("GR", "GAPI", "", "gamma")],
    "Parameter": [("BHT", "degC", 35.5, "bottom hole temperature")],
    "Other": "other text",
}


def target_kind(sec, it):
    if it[0] == "":
        return "blank"
    if (sec == "Well" and it[0] in ("STRT", "STOP", "STEP", "NULL")) or (sec == "Version" and it[0] in ("VERS", "WRAP", "DLM")):
        return it[0]
    if sec == "Well" and it[0].upper() in ("STRT", "STOP", "STEP", "NULL"):
        return "special-spelling"
    return "plain"


def widen(sec, it, mode):
    """the item made the widest of its section in the given way; None when the mode does not apply"""
    m, u, v, d = it
    special = (sec == "Well" and m in ("STRT", "STOP", "STEP", "NULL")) or (sec == "Version" and m in ("VERS", "WRAP", "DLM"))
    if sec == "Version" and m == "VERS":
        return None                                   # replaced by write(version=...)
    if special and mode == "long_mnem":
        return None
    if (sec == "Well" and m in SSS) or (sec == "Version" and m in ("WRAP", "DLM")):
        if mode in ("long_value", "long_num", "ev_unit", "eu_long_value"):
            return None                               # value refreshed / value steers the reader
    if mode == "long_unit":
        return (m, LONGU, v, d)
    if mode == "long_value":
        return (m, u, LONGV, d)
    if mode == "long_num":
        return (m, u, LONGINT if m == "" else LONGNUM, d)
    if mode == "long_mnem":
        return (LONGM, u, v, d)
    if mode == "long_descr":
        return (m, u, v, LONGD)
    if mode == "ev_unit":
        return (m, LONGU, "", d)
    if mode == "eu_long_value":
        return (m, "", LONGV, d)
    raise ValueError(mode)


def sweep_bounds(tier):
    """(max number of pool items per swept section, largest n for which the mandatory items are widened too)"""
    if tier == "quick":
        return {"Version": 1, "Well": 2, "Curves": 2, "Parameter": 2}, 1
    return {"Version": 2, "Well": 3, "Curves": 3, "Parameter": 3}, 2


def sweep_cases(tier):
    """(meta, spec) for the per-section sweeps"""
    Ls, fixed_upto = sweep_bounds(tier)
    for sec in SECTIONS:
        pool = (POOL_QUICK if tier == "quick" else POOL) + (POOL_WELL_EXTRA if sec == "Well" else [])
        fixed = list(BASE[sec]) if sec in ("Version", "Well") else []
        for n in range(0, Ls[sec] + 1):
            if n <= 2:
                lists = list(itertools.product(pool, repeat=n))           # every ordered list
            else:
                lists = []                                                # every multiset, in pool order and reversed
                for c in itertools.combinations_with_replacement(pool, n):
                    lists.append(c)
                    if tuple(reversed(c)) != c:
                        lists.append(tuple(reversed(c)))
            for extras in lists:
                items = fixed + list(extras)
                if sec == "Well" and tier != "quick" and n <= 1:
                    layouts = [items, list(extras) + fixed]          # mandatory items last as well
                else:
                    layouts = [items]
                for lay in layouts:
                    variants = [({"mode": "none", "pos": -1, "target": "-"}, lay)]
                    for pos in range(len(lay)):
                        if n > fixed_upto and tuple(lay[pos]) in fixed:
                            continue                     # mandatory items are widened next to <= fixed_upto extras only
                        for mode in MODES:
                            w = widen(sec, lay[pos], mode)
                            if w is None or w == lay[pos]:
                                continue
                            variants.append(({"mode": mode, "pos": pos, "target": target_kind(sec, lay[pos])}, lay[:pos] + [w] + lay[pos + 1:]))
                    for vm, lst in variants:
                        spec = {s: [list(x) for x in BASE[s]] for s in SECTIONS}
                        spec["Other"] = BASE["Other"]
                        spec[sec] = [list(x) for x in lst]
                        if sec == "Well":
                            spec["Curves"] = [["DEPT", "", "", "depth"], ["GR", "GAPI", "", "gamma"]]   # STRT's unit governs
                        if not conformant_spec(spec):
                            continue
                        meta = {"kind": "sweep", "swept": sec}
                        meta.update(vm)
                        yield meta, spec


def rand_item(rng, sec):
    for _ in range(50):
        it = (rng.choice(R_MNEMS_WELL if sec == "Well" else R_MNEMS), rng.choice(R_UNITS), rng.choice(R_VALUES), rng.choice(R_DESCRS))
        if it[0].upper() in ("NULL", "STRT") and sec != "Well":
            continue
        if it[0] in SSS:
            continue
        if conformant_item(sec, it):
            return it
    return ("A", "", "", "")


def rand_spec(rng):
    spec = {}
    for sec in SECTIONS:
        n = rng.choice([0, 1, 1, 2, 2, 3, 3, 4, 5])
        items = [rand_item(rng, sec) for _ in range(n)]
        if sec in ("Version", "Well"):
            fixed = list(BASE[sec])
            if sec == "Well":
                u = rng.choice(["M", "FT", "", "m", LONGU])
                fixed = [("STRT", u, 1.0, rng.choice(R_DESCRS)), ("STOP", rng.choice([u, u, "FT"]), 3.0, "stop"),
                         ("STEP", u, 1.0, "step")]
                if rng.random() < 0.8:
                    fixed.append(("NULL", rng.choice(["", "", "M"]), rng.choice([-999.25, -9999, "", LONGNUM]), rng.choice(R_DESCRS)))
            elif rng.random() < 0.3:
                fixed.append(("DLM", "", "SPACE", "delimiter"))
            for f in fixed:                           # mandatory items at random positions, relative order kept or not
                items.insert(rng.randrange(len(items) + 1), f)
        spec[sec] = [list(x) for x in items]
    spec["Other"] = rng.choice(R_OTHER)
    spec["build"] = rng.choice(["append", "append", "ctor"])
    return spec


def rand_cases(n, seed):
    rng = random.Random(1000003 * seed + 17)
    made = 0
    while made < n:
        spec = rand_spec(rng)
        if not conformant_spec(spec):
            continue
        made += 1
        yield {"kind": "rand"}, spec


# ---------------------------------------------------------------- execution
def nontrivial(spec, version):
    nc = len(spec["Curves"])
    for sec in SECTIONS:
        w = set(len(it[1]) + len(rhs_text(sec, version, tuple(it), nc)) for it in spec[sec])
        if len(spec[sec]) >= 2 and len(w) >= 2:
            return True
    return False


def run_chunk(chunk):
    res = []
    for meta, spec in chunk:
        for version in (1.2, 2.0):
            key = hashlib.sha1(json.dumps([spec, version], sort_keys=True).encode()).hexdigest()[:20]
            try:
                fails = check(spec, version)
            except Exception as e:                     # a crash of the oracle itself must be visible, not swallowed
                fails = [("harness-error", "-", "-", repr(e))]
            out = []
            for clause, sec, case, detail in fails:
                out.append((clause, klass_of(meta, spec, version, sec, case),
                            {"spec": spec, "version": version, "case": case, "section": sec, "meta": meta}, detail))
            res.append((key, nontrivial(spec, version), meta["kind"], out))
    return res


def chunks(it, size):
    buf = []
    for x in it:
        buf.append(x)
        if len(buf) >= size:
            yield buf
            buf = []
    if buf:
        yield buf


def build_run(tier, seed):
    quick = tier == "quick"
    Ls, fixed_upto = sweep_bounds(tier)
    nrand = 1000 if quick else 20000
    run = Run("C03",
              "a case = (item lists of the four sections + ~Other text, version); each is written once and read back with "
              "mnemonic_case preserve/upper/lower (3 evaluations); non-trivial when some section holds >= 2 items whose "
              "len(unit)+len(text between unit and colon) differ, so that the padding of one line depends on another item",
              "in-memory LASFile objects over the conformant alphabet x {1.2, 2.0} x {preserve, upper, lower}",
              "sweep: every ordered list of 0..min(n,2) pool items and, for 3 items, every multiset in pool order and reversed, per section "
              "(n = %s; pool %d, ~Well %d; ~Version/~Well lists follow the mandatory items) x each item in turn widened in %d ways (mandatory items only next to <= %d pool items); "
              "rand: %d seeded whole-file draws with 0..5 extra items per section, both ways of building a section"
              % (json.dumps(Ls, sort_keys=True), len(POOL_QUICK if quick else POOL), len(POOL_QUICK if quick else POOL) + len(POOL_WELL_EXTRA),
                 len(MODES), fixed_upto, nrand))
    procs = 4 if quick else 16
    gen = itertools.chain(sweep_cases(tier), rand_cases(nrand, seed))
    nsweep = 0
    with multiprocessing.Pool(procs) as pool:
        for res in pool.imap(run_chunk, chunks(gen, 100)):
            for key, nt, kind, fails in res:
                if kind == "sweep":
                    nsweep += 1
                run.case(key, nontrivial=nt, n=3)
                for clause, klass, inp, detail in fails:
                    run.fail(clause, klass, inp, detail)
    # a few samples written out
    for meta, spec in itertools.islice(rand_cases(3, seed), 3):
        run.samples.append({"kind": "rand", "spec": spec})
    run.exhaustive = False     # the sweep is complete for its pool, the rand part is a sample
    run.notes += [
        "sweep part (%d written files) enumerates its stated space completely; rand part is a seeded sample" % nsweep,
        "left out (domain doubtful or other property's territory): fields with leading/trailing blanks, tabs, newlines; "
        "mnemonics starting with '~' or '#'; units containing ':'; text values like '1,5' / '1_000' / 'nan' / 'inf' that the reader "
        "documents as numbers; integers beyond int64; None values; VERS/WRAP/DLM outside ~Version or duplicated or re-spelled, "
        "STRT/STOP/STEP duplicated, STRT/STOP/STEP/NULL outside ~Well (they steer the reader: C05/C12); ~Other lines with "
        "outer blanks or starting with '~', ~Other text with a leading/trailing newline",
        "VERS: only value == requested version is demanded, its description is not compared (write(version=) installs its own line)",
        "an empty value on an item with a unit is accepted as '' or 0 in every section; STRT/STOP/STEP values never compared; "
        "STRT/STOP/STEP and first-curve units accepted as original or aligned",
        "wrap is left to the file's WRAP item (NO); data are 3 rows per curve and are not checked here (C01)",
    ]
    return run


def replay_one(entry):
    inp = entry["input"]
    spec = inp["spec"]
    if not conformant_spec(spec):
        return False, "input is outside the statement's domain (conformance guard)"
    case = inp.get("case")
    cases = (case,) if case in CASES else CASES
    fails = check(spec, float(inp["version"]), cases)
    for clause, sec, c, detail in fails:
        if clause == entry["clause"] and sec == inp.get("section", sec):
            return True, "[%s, case=%s] %s" % (sec, c, detail)
    return False, "clause %s holds on this input now (other failures: %r)" % (entry["clause"], fails)


if __name__ == "__main__":
    main("C03", build_run, replay_one)
