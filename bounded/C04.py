"""C04 bounded decision procedure: header line grammar, parsing inverts formatting.

There is no deductive core for C04 (regex capture semantics), so this harness is
the check.  A reference FORMATTER lays a line out from (mnemonic, unit, value,
descr) and six padding strings

    main layout :  p0 M p1 "." U p2 V p3 ":" p4 D p5
    no period   :  p0 M p1 ":" p4 V p5

and the real `lasio.reader.read_header_line(line, section_name=...)` must give
back exactly the four fields the line was built from.  Nothing of lasio is used by
the oracle; the expected result is the tuple the formatter started with.

Domain (= the conformance conditions of the statement, read narrowly; function
`domain()` is the single gate every case passes through, whatever produced it):

  M  non-empty, no '.', no ':', no tab, no leading/trailing blank (inner blanks ok)
  U  empty, or without whitespace, not made of digits/dots only, not starting or
     ending with '.' or ':' (interior dots/colons only), no '..'
     - special form `digits + one blank + suffix` (suffix a non-empty U)
  V  stripped, no tab; without ':' except
     - outside ~Parameter any colons (last colon separates),
     - inside ~Parameter only clock-time colons HH:MM[:SS] (with/without a date)
     in ~Curves no '..'
  D  stripped, no tab; without ':' except inside ~Parameter, and then the separating
     colon has a blank on both sides (p3 ends with ' ', p4 starts with ' ')
  p2 non-empty when V is non-empty (LAS: the first blank after the dot ends the unit)
  a time-like value directly followed by ':' and two digits (p3 = p4 = '' and D
     starting with two digits) is left out: that line is ambiguous on its face.
  no-period form: M p1 ':' p4 V, no '.' before the first ':'; result (M, '', V, '');
     V may hold '.' and ':' as in the documented examples (`HOLE DIA :85.7`,
     `TIME :14:00:32`), in ~Curves again no '..'.

Left out on purpose (not in the statement): lines with no colon at all, units
starting/ending with '.' or ':', mnemonics with '.', units of digits/dots only
unless followed by `blank + suffix`, tz-offset colons inside ~Parameter, tabs
inside fields.

Tiers: quick = finite sweeps (each a full product, see `bound`), 4 processes;
thorough = larger sweeps + hypothesis + seeded sampling over the full character
classes, 14 processes.  Failures are classified from the input alone (klass_of).
"""
import itertools
import os
import re
import sys
from array import array

sys.path.insert(0, os.path.dirname(os.path.abspath(__file__)))
from common import Run, main

import lasio
from lasio.reader import read_header_line

# --------------------------------------------------------------------------- layout

SECS = ["Version", "Well", "Curves", "Parameter", "custom", "none"]
SECNAME = {"Version": "Version", "Well": "Well", "Curves": "Curves", "Parameter": "Parameter",
           "custom": "~Tool", "none": None}
PADK = ["n", "b", "B", "t", "x"]
PAD = {"n": "", "b": " ", "B": "    ", "t": "\t", "x": " \t "}

CLAUSE = {
    "main": "layout-parses-to-fields",
    "lastcolon": "last-colon-separates-outside-parameter",
    "ptime": "parameter-time-colons-not-separators",
    "pdesc": "parameter-descr-may-contain-colons",
    "noperiod": "line-without-period-is-name-value",
    "numunit": "numeric-unit-keeps-suffix",
}


def fmt_main(M, U, V, D, p):
    return p[0] + M + p[1] + "." + U + p[2] + V + p[3] + ":" + p[4] + D + p[5]


def fmt_noperiod(M, V, p):
    return p[0] + M + p[1] + ":" + p[4] + V + p[5]


# --------------------------------------------------------------------------- domain

_DIGDOT = re.compile(r"[0-9.]+\Z")
_NUMUNIT = re.compile(r"([0-9]+) (\S+)\Z")
_PADRE = re.compile(r"[ \t]*\Z")
_DATE = r"(?:\d{1,2}[-/][A-Za-z0-9]{2,3}[-/]\d{2,4}|\d{4}-\d{2}-\d{2})"
_TIME = r"(?:[01][0-9]|2[0-3]):[0-5][0-9](?::[0-5][0-9])?"
_TIMELIKE = re.compile(r"(?:%s[ T])?%s(?: %s)?\Z" % (_DATE, _TIME, _DATE))
_TIMETAIL = re.compile(r"[0-9][0-9]:[0-9][0-9]\Z")
_TWODIG = re.compile(r"[0-9][0-9]")


def text_ok(s):
    """printable, no tab/newline, nothing that strip() would remove at the ends"""
    return s == s.strip() and s.isprintable()


def unit_ok(U):
    if U == "":
        return True
    if not text_ok(U) or " " in U or any(c.isspace() for c in U):
        return False
    if _DIGDOT.match(U):
        return False
    if U[0] in ".:" or U[-1] in ".:" or ".." in U:
        return False
    return True


def timelike(V):
    return _TIMELIKE.match(V) is not None


def domain_base(kind, M, U, V, D, p):
    """section-independent part of the gate: None (outside) or a tuple of facts for domain_sec"""
    if not M or not text_ok(M) or "." in M or ":" in M:
        return None
    if not text_ok(V) or not text_ok(D):
        return None
    for x in p:
        if not _PADRE.match(x):
            return None
    if kind == "noperiod":
        if U != "" or D != "" or p[2] != "" or p[3] != "":
            return None
        return ("noperiod", ".." in V)
    if V != "" and p[2] == "":
        return None
    vcolon, dcolon = ":" in V, ":" in D
    m = _NUMUNIT.match(U)
    if m is not None:
        if not unit_ok(m.group(2)) or vcolon or dcolon:
            return None
        return ("numunit", ".." in V)
    if not unit_ok(U):
        return None
    if p[3] == "" and p[4] == "" and _TIMETAIL.search(V) and _TWODIG.match(D):
        return None
    return ("std", ".." in V, vcolon, vcolon and timelike(V), dcolon,
            dcolon and p[3].endswith(" ") and p[4].startswith(" "))


def domain_sec(b, sec):
    """form name when the case is inside the statement's domain for this section kind, else None"""
    k = b[0]
    if sec == "Curves" and b[1]:
        return None                      # C03: ~Curves values without '..'
    if k == "noperiod":
        return k
    if k == "numunit":
        return k
    _, _, vcolon, vtime, dcolon, dpads = b
    if sec == "Parameter":
        if vcolon and not vtime:
            return None
        if dcolon and not dpads:
            return None
        return "ptime" if vcolon else ("pdesc" if dcolon else "main")
    if dcolon:
        return None
    return "lastcolon" if vcolon else "main"


def domain(kind, M, U, V, D, p, sec):
    b = domain_base(kind, M, U, V, D, p)
    return None if b is None else domain_sec(b, sec)


# --------------------------------------------------------------------------- classification (from the input alone)

def padkind(x):
    if x == "":
        return "n"
    if x == " ":
        return "b"
    if set(x) == {" "}:
        return "B"
    if set(x) == {"\t"}:
        return "t"
    return "x"


def ushape(U):
    if U == "":
        return "empty"
    f = ["numblank"] if _NUMUNIT.match(U) else []
    f += [n for n, c in (("dot", "."), ("colon", ":")) if c in U]
    if f and f[0] == "numblank":
        return "+".join(f)
    if U[0].isdigit():
        f.append("dlead")
    return "+".join(f) or "plain"


def vshape(V):
    if V == "":
        return "empty"
    f = []
    if ":" in V:
        f.append("time" if timelike(V) else "colon")
    if ".." in V:
        f.append("ddot")
    elif "." in V:
        f.append("dot")
    if re.search(r"(?:^| )[0-9][0-9]\Z|(?:^| )(?:hh|HH)\Z", V):
        f.append("tail2")          # ends in a blank-separated two-digit / hh token
    return "+".join(f) or "plain"


def dshape(D):
    if D == "":
        return "empty"
    f = []
    if ":" in D:
        f.append("colon")
    if ".." in D:
        f.append("ddot")
    if re.match(r"[0-9][0-9]|mm|MM", D):
        f.append("lead2")          # begins with two digits / mm
    return "+".join(f) or "plain"


def klass_of(form, M, U, V, D, p, sec):
    return "form=%s;sec=%s;m=%s;u=%s;v=%s;d=%s;p234=%s%s%s" % (
        form, sec, "innerblank" if " " in M else "plain", ushape(U), vshape(V), dshape(D),
        padkind(p[2]), padkind(p[3]), padkind(p[4]))


_PLAIN = re.compile(r"[A-Za-z0-9]+\Z")


def nontrivial(M, U, V, D, p):
    """anything but the textbook line `M.U V : D` with four alphanumeric fields and single blanks"""
    return not (_PLAIN.match(M) and _PLAIN.match(U) and _PLAIN.match(V) and _PLAIN.match(D)
                and all(x in ("", " ") for x in p) and not U.isdigit())


# --------------------------------------------------------------------------- one evaluation

def check_line(kind, M, U, V, D, p, sec):
    """-> None if outside the domain, else (form, line, ok, detail)"""
    form = domain(kind, M, U, V, D, p, sec)
    if form is None:
        return None
    if form == "noperiod":
        line = fmt_noperiod(M, V, p)
        exp = {"name": M, "unit": "", "value": V, "descr": ""}
    else:
        line = fmt_main(M, U, V, D, p)
        exp = {"name": M, "unit": U, "value": V, "descr": D}
    try:
        got = read_header_line(line, section_name=SECNAME[sec])
    except Exception as e:
        return form, line, False, "line %r section %r raised %r" % (line, SECNAME[sec], e)
    if got == exp:
        return form, line, True, ""
    return form, line, False, "line %r section %r: expected %r got %r" % (line, SECNAME[sec], exp, got)


def as_input(kind, M, U, V, D, p, sec):
    return {"kind": kind, "M": M, "U": U, "V": V, "D": D, "pads": list(p), "sec": sec}


class Acc:
    """per-task accumulator (picklable result)"""

    def __init__(self):
        self.n = 0
        self.hashes = array("q")
        self.fails = {}      # (clause, klass) -> [count, [(len, line, input, detail)]]
        self.sample = None
        self.byform = {}

    def run_case(self, kind, M, U, V, D, p, secs):
        b = domain_base(kind, M, U, V, D, p)
        if b is None:
            return
        if b[0] == "noperiod":
            line = fmt_noperiod(M, V, p)
            exp = {"name": M, "unit": "", "value": V, "descr": ""}
        else:
            line = fmt_main(M, U, V, D, p)
            exp = {"name": M, "unit": U, "value": V, "descr": D}
        nt = nontrivial(M, U, V, D, p)
        for sec in secs:
            form = domain_sec(b, sec)
            if form is None:
                continue
            try:
                got = read_header_line(line, section_name=SECNAME[sec])
                ok = got == exp
                detail = "" if ok else "line %r section %r: expected %r got %r" % (line, SECNAME[sec], exp, got)
            except Exception as e:
                ok, detail = False, "line %r section %r raised %r" % (line, SECNAME[sec], e)
            self.n += 1
            self.byform[form] = self.byform.get(form, 0) + 1
            if nt:
                self.hashes.append(hash((sec, line)))
                if self.sample is None and form != "main":
                    self.sample = {"section": sec, "line": line, "expected": [M, U, V, D]}
            if not ok:
                self.add_fail(CLAUSE[form], klass_of(form, M, U, V, D, p, sec), len(line), line,
                              as_input(kind, M, U, V, D, p, sec), detail)

    def add_fail(self, clause, klass, ln, line, inp, detail):
        ent = self.fails.setdefault((clause, klass), [0, []])
        ent[0] += 1
        ent[1].append((ln, line, inp, detail))
        if len(ent[1]) > 6:
            ent[1].sort(key=lambda t: (t[0], t[1]))
            del ent[1][3:]

    def pack(self):
        for ent in self.fails.values():
            ent[1].sort(key=lambda t: (t[0], t[1]))
            del ent[1][3:]
        return (self.n, self.hashes.tobytes(), self.fails, self.sample, self.byform)


# --------------------------------------------------------------------------- enumerated spaces

def strings(alpha, maxlen):
    out = [""]
    for L in range(1, maxlen + 1):
        out += ["".join(t) for t in itertools.product(alpha, repeat=L)]
    return out


# pad tuples used where fields are enumerated: tightest, single blanks, tabs, mixed, many, and two skewed ones
def few_pads(V, big):
    t = "" if V == "" else " "
    out = [
        ("", "", t, "", "", ""),
        ("", "", t, " ", "", ""),
        ("", "", t, "", " ", ""),
        (" ", " ", " ", " ", " ", " "),
        ("\t", "\t", "\t", "\t", "\t", "\t"),
        (" \t ", " \t ", " \t ", " \t ", " \t ", " \t "),
    ]
    if big:
        out += [
            ("    ", "    ", "    ", "    ", "    ", "    "),
            ("", " ", " ", "", "\t", ""),
            ("", "", "\t", "\t", "", " "),
        ]
    return out


M_REP = ["A", "A B", "É1", "a-('\""]
M_ALPHA = ["A", "m", "1", "-", "é", "(", "'"]
U_ALPHA = ["a", "1", ".", ":", "/"]
V_ALPHA = ["a", "1", ".", ":", " "]
D_ALPHA = ["a", "1", ".", ":", " "]


def m_all():
    out = list(M_ALPHA) + [a + b for a in M_ALPHA for b in M_ALPHA] + [a + " " + b for a in M_ALPHA for b in M_ALPHA]
    return out + ["A  B c", "HOLE DIA", "Глуб", "N°[1]", "\"Q\"", "1 2"]


def m_some():
    return list(M_ALPHA) + ["A B", "1 2", "HOLE DIA", "Глуб", "N°[1]", "\"Q\"", "A  B c", "m'", "-("]


U_EXTRA = ["hh:mm", "kg/m3", "метер", "[m]", "(ft)", "%", "0.1IN", "a.b:c", "1/2\"", "ohm.m", "US/F"]


def u_all(maxlen=3):
    return [u for u in strings(U_ALPHA, maxlen) if unit_ok(u)] + U_EXTRA


def u_some():
    """units <= 2 over the alphabet, the 3-letter ones with an interior '.' or ':', and the realistic ones"""
    return [u for u in strings(U_ALPHA, 3) if unit_ok(u) and (len(u) <= 2 or (u[1] in ".:" and u[0] in "a1" and u[2] in "a1"))] + U_EXTRA


def v_all(big):
    base = [v for v in strings(V_ALPHA + (["-"] if big else []), 2) if v == v.strip()]
    toks = ["a", "1", ":", ".", "11"] if big else ["a", ":", "11"]
    three = [a + " " + b for a in toks for b in toks]
    return base + three + ["a..b", "1.5", "-999.25", "(RT)", "'q' \"r\"", "üß", "x hh"]


def d_all(big):
    base = [d for d in strings(D_ALPHA, 2) if d == d.strip()]
    more = ["a b", "11 a", "30 d", "mm", "a: b", "a : b", "x..y"]
    if big:
        more += ["1 1", "MM x", "a 12:30", "[d] {e}", "été 'q'", "1  DEPTH"]
    return base + more


# field tuples for the padding-exhaustive sweep
FA = [
    ("A", "m", "v", "d"),
    ("A B", "", "", ""),
    ("A", "a.b:c", "1", "d e"),
    ("A1", "a", "", "11 d"),
    ("A", "a:b", "13", "30"),
    ("A", "a", "x:y", "d"),
    ("A", "", "12:30", "d"),
    ("A", "hh:mm", "23:15 23-JAN-2001", "Time Logger: At Bottom"),
    ("A", "a:b", "x", "c: 11"),
    ("A", "1000 lbf", "5", "d"),
    # thorough only
    ("É", "m/s", "v.w", ""),
    ("A", "", "v", ""),
    ("A", "", "", "a: b"),
    ("A", "1000 lbf", "", "(RT)"),
]
FA_QUICK = 10

HOURS = ["%02d" % h for h in range(24)]
DATEFORMS = [("", ""), ("23-JAN-2001 ", ""), ("", " 23-JAN-2001"), ("2012-09-16T", ""), ("16/09/12 ", ""), ("", " 2012-09-16")]
NUM_DIGITS = ["1000", "1", "07", "25"]
NUM_SUFFIX = ["lbf", "kg/m3", "a.b", "a:b", "м", "1b", "%"]


def tasks_for(tier):
    """list of (sweep, part) ; every sweep is cut along its outermost axis"""
    big = tier != "quick"
    T = []
    T += [("A", i) for i in range(len(FA) if big else FA_QUICK)]
    T += [("B1", i) for i in range(len(u_all() if big else u_some()))]
    T += [("B2", i) for i in range(len(m_all()))]
    T += [("T", i) for i in range(24)]
    T += [("N", i) for i in range(len(m_all() if big else m_some()))]
    T += [("U", i) for i in range(len(NUM_DIGITS) if big else 2)]
    if big:
        T += [("B3", i) for i in range(len(u_some()))]
    return T


def run_task(args):
    sweep, part, tier = args
    big = tier != "quick"
    acc = Acc()
    pk = [PAD[k] for k in PADK]
    if sweep == "A":
        # 14 field tuples under every one of the 5^6 paddings
        M, U, V, D = FA[part]
        for p in itertools.product(pk, repeat=6):
            acc.run_case("main", M, U, V, D, p, SECS)
    elif sweep == "B1":
        # unit x value x descr, every string of the small alphabets
        U = (u_all() if big else u_some())[part]
        ds = d_all(big)
        for V in v_all(big):
            pads = few_pads(V, big)
            for D in ds:
                for p in pads:
                    acc.run_case("main", "A", U, V, D, p, SECS)
    elif sweep == "B3":
        # thorough only: the same triple under every choice of p2,p3,p4
        U = u_some()[part]
        ds = d_all(False)
        for V in v_all(False):
            for D in ds:
                for p2, p3, p4 in itertools.product(pk, repeat=3):
                    acc.run_case("main", "A", U, V, D, ("", "", p2, p3, p4, ""), ("Curves", "Parameter", "none"))
    elif sweep == "B2":
        # mnemonic x unit
        M = m_all()[part]
        for U in u_all():
            for V in (["", "v", "a 11"] if big else ["", "v"]):
                pads = few_pads(V, big)
                if not big:
                    pads = pads[:1] + pads[3:]
                for D in (["", "11 d"] if big else ["d"]):
                    for p in pads:
                        acc.run_case("main", M, U, V, D, p, SECS)
    elif sweep == "T":
        # clock times, all 24 hours, with and without dates; colon-free and colon-bearing descriptions
        h = HOURS[part]
        mins = ["00", "30", "59"] if big else ["00", "59"]
        secs = ["", "00", "59"] if big else ["", "59"]
        dates = DATEFORMS if big else DATEFORMS[:3]
        pk2 = [PAD[k] for k in (("b", "B", "t", "x") if big else ("b", "t", "x"))]
        pk34 = pk if big else [PAD[k] for k in ("n", "b", "t", "x")]
        for mi in mins:
            for s in secs:
                t = h + ":" + mi + (":" + s if s else "")
                for a, b in dates:
                    V = a + t + b
                    for U in ("", "hh:mm"):
                        for D in (("", "d", "a: b c", "30 x", "at 12:30: z") if big else ("", "d", "a: b c", "30 x")):
                            for p2 in pk2:
                                for p3 in pk34:
                                    for p4 in pk34:
                                        acc.run_case("main", "TIML", U, V, D, ("", "", p2, p3, p4, ""), SECS)
    elif sweep == "N":
        # lines without a period: NAME : VALUE
        M = (m_all() if big else m_some())[part]
        vs = v_all(big) + ["14:00:32", "85.7", "12/11/2010", "Scorpio E1"]
        pk05 = [PAD[k] for k in ("n", "x")]
        for V in vs:
            for p0 in pk05:
                for p5 in pk05:
                    for p1 in pk:
                        for p4 in pk:
                            acc.run_case("noperiod", M, "", V, "", (p0, p1, "", "", p4, p5), SECS)
    elif sweep == "U":
        # digits + one blank + suffix
        dg = NUM_DIGITS[part]
        for sfx in (NUM_SUFFIX if big else NUM_SUFFIX[:5]):
            U = dg + " " + sfx
            for M in (M_REP if big else M_REP[:2]):
                for V in (["", "v", "5", "1.5", "a b", "lbf"] if big else ["", "v", "1.5", "a b"]):
                    for D in (["", "d", "(RT)", "11 x"] if big else ["", "(RT)", "11 x"]):
                        for p1 in pk[:2]:
                            for p2, p3, p4 in itertools.product(pk, repeat=3):
                                acc.run_case("main", M, U, V, D, ("", p1, p2, p3, p4, " "), SECS)
    elif sweep == "E2E":
        e2e_task(acc, part, tier)
    elif sweep == "HYP":
        hyp_task(acc, part, tier)
    elif sweep == "RND":
        rnd_task(acc, part, tier)
    else:
        raise ValueError(sweep)
    return (sweep, part) + acc.pack()


# --------------------------------------------------------------------------- end to end through lasio.read

E2E_SECS = ["Version", "Well", "Curves", "Parameter", "custom"]
_STRICTNUM = re.compile(r"[+-]?(?:\d+\.?\d*|\.\d+)(?:[eE][+-]?\d+)?\Z")
RESERVED = {"VERS", "WRAP", "DLM", "STRT", "STOP", "STEP", "NULL", "DEPT", "API", "UWI", "UNKNOWN"}


def e2e_text(lines, version):
    t = ["~Version", "VERS. %s : v" % version, "WRAP. NO : w", lines["Version"],
         "~Well", "STRT.M 1 : s", "STOP.M 2 : s", "STEP.M 1 : s", "NULL. -999.25 : n", lines["Well"],
         "~Curves", "DEPT.M : depth", lines["Curves"],
         "~Parameter", lines["Parameter"],
         "~Tool", lines["custom"],
         "~ASCII", "1 10", "2 20"]
    return "\n".join(x for x in t if x is not None) + "\n"


def e2e_domain(form, M, U, V, D, sec, version):
    """extra conditions that only matter on the way through read(): comments, titles,
    bracket stripping, number conversion, the names that steer the reader"""
    if M[0] in "#~" or M.upper() in RESERVED:
        return False
    if len(U) >= 2 and ((U[0] == "[" and U[-1] == "]") or (U[0] == "(" and U[-1] == ")")):
        return False
    for x in (V, D):
        if re.search(r"\d[,_]\d", x) or x.lower().lstrip("+-") in ("nan", "inf", "infinity"):
            return False
        if not x.isascii() and any(c.isdigit() for c in x):
            return False
    if version == "1.2" and sec == "Well" and form == "noperiod":
        return False
    return True


def num_equal(got, exp):
    if isinstance(got, str):
        return got == exp
    if _STRICTNUM.match(exp):
        try:
            return float(got) == float(exp)
        except Exception:
            return False
    return False


def e2e_case(kind, M, U, V, D, p, version):
    """-> list of (sec, form, ok, detail) for the sections where the case is in the domain"""
    lines, forms = {}, {}
    for sec in E2E_SECS:
        form = domain(kind, M, U, V, D, p, sec)
        if form is not None and e2e_domain(form, M, U, V, D, sec, version):
            forms[sec] = form
            lines[sec] = fmt_noperiod(M, V, p) if form == "noperiod" else fmt_main(M, U, V, D, p)
        else:
            lines[sec] = None
    if not forms:
        return []
    if lines["Curves"] is None:
        lines["Curves"] = "X.M : filler"
    text = e2e_text(lines, version)
    out = []
    try:
        las = lasio.read(text, mnemonic_case="preserve")
    except Exception as e:
        return [(sec, forms[sec], False, "read() raised %r on %r" % (e, text)) for sec in forms]
    key = {"Version": "Version", "Well": "Well", "Curves": "Curves", "Parameter": "Parameter", "custom": "Tool"}
    base = {"Version": 2, "Well": 4, "Curves": 1, "Parameter": 0, "custom": 0}
    for sec, form in forms.items():
        try:
            items = list(list.__iter__(las.sections[key[sec]]))
        except Exception as e:
            out.append((sec, form, False, "sections[%r] : %r" % (key[sec], e)))
            continue
        if len(items) != base[sec] + 1:
            out.append((sec, form, False, "section %s has %d items, expected %d; line %r" % (sec, len(items), base[sec] + 1, lines[sec])))
            continue
        it = items[-1]
        eU, eV, eD = (U, V, D) if form != "noperiod" else ("", V, "")
        if version == "1.2" and sec == "Well":
            eV, eD = eD, eV          # LAS 1.2 ~W: `MNEM.UNIT  DESCRIPTION : VALUE`
        ok = (it.original_mnemonic == M and it.unit == eU and num_equal(it.value, eV) and it.descr == eD)
        out.append((sec, form, ok, "version %s section %s line %r: expected (%r, %r, %r, %r) got (%r, %r, %r, %r)" % (
            version, sec, lines[sec], M, eU, eV, eD, it.original_mnemonic, it.unit, it.value, it.descr)))
    return out


def e2e_cases(tier):
    big = tier != "quick"
    cases = []
    ms = ["A", "A B", "a-('\"", "É1", "HOLE DIA", "m(", "1"]
    us = ["", "m", "a.b:c", "hh:mm", "метер", "1a", "1000 lbf", "1/2\"", "kg/m3", "25 %"]
    vs = ["", "v", "1.5", "a b", "x:y", "23:15 23-JAN-2001", "07:44:12", "13", "'q'", "üß", "a.b", "12/11/2010", "(RT)", "-999.25", "1e3"]
    ds = ["", "d", "11 d", "a: b", "Time Logger: At Bottom", "x..y", "[d] {e}", "été", "30 x"]
    pads = [("", "", " ", "", "", ""), (" \t ", " \t ", " \t ", " \t ", " \t ", " \t "), ("\t", "\t", "\t", "\t", "\t", "\t"),
            (" ", " ", " ", " ", " ", " "), ("    ", "    ", "    ", "    ", "    ", "    "),
            ("", "", "", "", "", ""), ("", " ", "\t", " ", " ", "")]
    for M in (ms if big else ms[:3]):
        for U in (us if big else us[:7]):
            for V in (vs if big else vs[:10]):
                for D in (ds if big else ds[:6]):
                    for p in (pads if big else pads[:3]):
                        cases.append(("main", M, U, V, D, p))
    for M in ms:
        for V in vs + ["14:00:32", "85.7"]:
            for p in (pads if big else pads[:4]):
                cases.append(("noperiod", M, "", V, "", (p[0], p[1], "", "", p[4], p[5])))
    return cases


E2E_PARTS = 16


def e2e_task(acc, part, tier):
    cases = e2e_cases(tier)
    for i in range(part, len(cases), E2E_PARTS):
        kind, M, U, V, D, p = cases[i]
        for version in ("1.2", "2.0"):
            res = e2e_case(kind, M, U, V, D, p, version)
            if res:
                acc.n += 1
                acc.byform["e2e-files"] = acc.byform.get("e2e-files", 0) + 1
            for sec, form, ok, detail in res:
                acc.byform["e2e-items"] = acc.byform.get("e2e-items", 0) + 1
                if nontrivial(M, U, V, D, p):
                    acc.hashes.append(hash(("e2e", version, sec, kind, M, U, V, D, p)))
                if not ok:
                    inp = as_input(kind, M, U, V, D, p, sec)
                    inp["e2e"] = version
                    acc.add_fail("read-" + CLAUSE[form], "e2e;ver=%s;%s" % (version, klass_of(form, M, U, V, D, p, sec)),
                                 len(detail), detail, inp, detail)


# --------------------------------------------------------------------------- sampling over the full classes (thorough)

import string as _string

LETTERS = _string.ascii_letters
DIGITS = _string.digits
QUOTES = "'\"`"
BRACKETS = "()[]{}<>"
PUNCT = "".join(c for c in _string.punctuation if c not in QUOTES + BRACKETS + ".:")
NONASCII = "éÉñüßøÅΩμжДметр中深"
FULL = LETTERS + DIGITS + PUNCT + QUOTES + BRACKETS + NONASCII      # everything but '.', ':' and whitespace
PAD_CHOICES = ["", " ", "  ", "\t", " \t", "\t ", " \t ", "      ", "\t\t"]


def variants(p, V):
    """the drawn padding and the same line with the positions around the value/colon tightened"""
    t = "" if V == "" else (p[2] or " ")
    return [p, (p[0], p[1], t, "", "", p[5]), (p[0], p[1], t, "", p[4], p[5]), (p[0], p[1], t, p[3], "", p[5]),
            (p[0], p[1], t, p[3] + " ", " " + p[4], p[5])]


def run_variants(acc, kind, M, U, V, D, p):
    if kind == "noperiod":
        acc.run_case(kind, M, "", V, "", (p[0], p[1], "", "", p[4], p[5]), SECS)
        return
    for q in variants(p, V):
        acc.run_case(kind, M, U, V, D, q, SECS)


HYP_PARTS = 12
HYP_SEED = [0]


def hyp_task(acc, part, tier):
    from hypothesis import given, settings, seed as hseed, strategies as st, HealthCheck

    n_examples = int(os.environ.get("C04_HYP_EXAMPLES", "4000"))
    pad = st.one_of(st.sampled_from(PAD_CHOICES), st.text(" \t", max_size=5))
    pads = st.tuples(pad, pad, pad, pad, pad, pad)
    edge = st.text(FULL, min_size=1, max_size=1)

    def glue(a, mid, b):
        return a + mid + b

    mn = st.one_of(st.text(FULL, min_size=1, max_size=6),
                   st.builds(glue, edge, st.text(FULL + "   ", max_size=6), edge))
    un_std = st.one_of(st.text(FULL, min_size=1, max_size=5),
                       st.builds(glue, edge, st.text(FULL + "..::", max_size=5), edge))
    un_num = st.builds(lambda d, u: d + " " + u, st.text(DIGITS, min_size=1, max_size=5), un_std)
    un = st.one_of(st.just(""), un_std, un_std, un_num)
    tm = st.builds(lambda h, m, sec, df: df[0] + "%02d:%02d" % (h, m) + ("" if sec is None else ":%02d" % sec) + df[1],
                   st.integers(0, 23), st.integers(0, 59), st.one_of(st.none(), st.integers(0, 59)), st.sampled_from(DATEFORMS))
    two = st.text(DIGITS, min_size=2, max_size=2)
    free = st.text(FULL + "...    ", max_size=9).map(str.strip)
    free_colon = st.text(FULL + "..:::   ", max_size=9).map(str.strip)
    va = st.one_of(st.just(""), free, free, free_colon, tm, st.builds(lambda a, b: (a + " " + b).strip(), free, two), two)
    de = st.one_of(st.just(""), free, free, free_colon, st.builds(lambda a, b: (a + " " + b).strip(), two, free),
                   st.sampled_from(["mm", "MM x", "hh:mm", "12:30 x"]))
    kinds = st.sampled_from(["main", "main", "main", "main", "noperiod"])

    @settings(database=None, derandomize=False, max_examples=n_examples, deadline=None,
              suppress_health_check=list(HealthCheck))
    @hseed(HYP_SEED[0] * 1000 + part)
    @given(kinds, mn, un, va, de, pads)
    def prop(kind, M, U, V, D, p):
        run_variants(acc, kind, M, U, V, D, p)

    prop()


RND_PARTS = 14


def rnd_task(acc, part, tier):
    """plain seeded sampling of the same classes (much cheaper per case than hypothesis)"""
    import random
    rng = random.Random(HYP_SEED[0] * 7919 + part)
    n = int(os.environ.get("C04_RND_CASES", "40000"))
    classes = [LETTERS, DIGITS, PUNCT, QUOTES, BRACKETS, NONASCII]

    def alpha():
        k = rng.randint(1, 3)
        return "".join(rng.sample(classes, k))

    def word(lo, hi, extra=""):
        al = alpha() + extra
        return "".join(rng.choice(al) for _ in range(rng.randint(lo, hi)))

    def unit():
        r = rng.random()
        if r < 0.15:
            return ""
        if r < 0.40:
            return word(1, 6)
        if r < 0.85:
            return word(1, 2) + rng.choice(".:") + word(0, 2, ".:") + word(1, 2)
        return "".join(rng.choice(DIGITS) for _ in range(rng.randint(1, 5))) + " " + word(1, 4) + rng.choice(["", ":" + word(1, 2), "." + word(1, 2)])

    def clock():
        t = "%02d:%02d" % (rng.randrange(24), rng.randrange(60))
        if rng.random() < 0.5:
            t += ":%02d" % rng.randrange(60)
        a, b = rng.choice(DATEFORMS)
        return a + t + b

    def value():
        r = rng.random()
        if r < 0.12:
            return ""
        if r < 0.40:
            return word(1, 8, "  .")
        if r < 0.55:
            return (word(0, 4, " ") + " " + "".join(rng.choice(DIGITS) for _ in range(2))).strip()
        if r < 0.65:
            return (word(0, 4, " ") + " " + rng.choice(["hh", "HH"])).strip()
        if r < 0.80:
            return clock()
        return word(0, 4, " .") + ":" + word(0, 4, " .:")

    def descr():
        r = rng.random()
        if r < 0.12:
            return ""
        if r < 0.45:
            return word(1, 10, "   .")
        if r < 0.65:
            return "".join(rng.choice(DIGITS) for _ in range(2)) + word(0, 5, " ")
        if r < 0.72:
            return rng.choice(["mm", "MM"]) + word(0, 4, " ")
        if r < 0.90:
            return word(1, 5, " ") + ":" + word(0, 5, " :.")
        return word(1, 3) + ".." + word(0, 3)

    def pad():
        return rng.choice(PAD_CHOICES) if rng.random() < 0.8 else "".join(rng.choice(" \t") for _ in range(rng.randint(1, 5)))

    for _ in range(n):
        M = word(1, 8, "  ").strip() or "A"
        kind = "noperiod" if rng.random() < 0.12 else "main"
        U, V, D = unit(), value().strip(), descr().strip()
        p = (pad(), pad(), pad(), pad(), pad(), pad())
        run_variants(acc, kind, M, U, V, D, p)


# --------------------------------------------------------------------------- driver

def build_run(tier, seed):
    import multiprocessing as mp
    import numpy as np

    HYP_SEED[0] = seed
    quick = tier == "quick"
    run = Run("C04",
              "distinct (section kind, line text) pairs, the line being anything but the textbook shape "
              "`M.U V : D` with four alphanumeric fields and single-blank padding (hash of the pair, counted with numpy.unique)",
              "header lines built by a reference formatter from (mnemonic, unit, value, descr) and six paddings; "
              "read_header_line(line, section_name) for 6 section kinds; lasio.read() of whole files in 1.2 and 2.0",
              ("paddings from {none, 1 blank, 4 blanks, tab, blank-tab-blank}; sweeps, each a finite product enumerated completely: "
               "A %d field tuples x all 5^6 paddings x 6 sections; "
               "B1 units (every conformant string <=%s over %r + realistic ones) x values (every string <=2 over %r + 2-token ones) x "
               "descr (every string <=2 over %r + some) x %d padding tuples x 6 sections; "
               "B2 mnemonics (every string <=2 and `x y` over %r) x all units <=3; "
               "T 24 hours x minutes x seconds x %d date forms x units {'', hh:mm} x descr with/without colons x p2,p3,p4 x 6 sections; "
               "N lines without a period, mnemonics x values x p0,p1,p4,p5; U `digits blank suffix` units x p1..p4; "
               "E2E %d field/padding tuples in ~V/~W/~C/~P/~Tool of whole files, versions 1.2 and 2.0"
               % (len(FA) if not quick else FA_QUICK, "3" if not quick else "2 (3 with an interior '.' or ':')", U_ALPHA, V_ALPHA, D_ALPHA,
                  len(few_pads("v", not quick)), M_ALPHA, len(DATEFORMS) if not quick else 3, len(e2e_cases(tier))))
              + ("" if quick else "; B3 = B1's triples under all 5^3 inner paddings; HYP hypothesis (%d x %s examples) and RND seeded sampling "
                 "(%d x %s cases) over the full classes (ASCII letters, digits, punctuation, quotes, brackets, non-ASCII letters), fields <= 10, "
                 "each drawn case under 5 padding variants x 6 sections"
                 % (HYP_PARTS, os.environ.get("C04_HYP_EXAMPLES", "4000"), RND_PARTS, os.environ.get("C04_RND_CASES", "40000"))))
    tasks = [(s, i, tier) for s, i in tasks_for(tier)]
    tasks += [("E2E", i, tier) for i in range(E2E_PARTS)]
    if not quick:
        tasks += [("HYP", i, tier) for i in range(HYP_PARTS)]
        tasks += [("RND", i, tier) for i in range(RND_PARTS)]
    # long tasks first
    order = {"HYP": 0, "RND": 1, "B3": 2, "T": 3, "A": 4, "E2E": 5, "N": 6, "B1": 7, "B2": 8, "U": 9}
    tasks.sort(key=lambda t: (order[t[0]], t[1]))
    nproc = 4 if quick else 14
    ctx = mp.get_context("fork")          # children share the parent's str-hash seed
    with ctx.Pool(nproc) as pool:
        results = pool.map(run_task, tasks, chunksize=1)
    results.sort(key=lambda r: (r[0], r[1]))
    merged = {}
    hashes = []
    per_sweep = {}
    byform = {}
    for sweep, part, n, hb, fails, sample, bf in results:
        run.case((sweep, part), nontrivial=False, sample=sample if sweep in ("A", "T", "N", "U", "B1", "RND") and part in (1, 8) else None, n=n)
        per_sweep[sweep] = per_sweep.get(sweep, 0) + n
        for k, v in bf.items():
            byform[k] = byform.get(k, 0) + v
        a = np.frombuffer(hb, dtype=np.int64)
        if len(a):
            hashes.append(a)
        for key, (cnt, lst) in fails.items():
            ent = merged.setdefault(key, [0, []])
            ent[0] += cnt
            ent[1] += lst
    distinct = int(len(np.unique(np.concatenate(hashes)))) if hashes else 0
    run.nontrivial = range(distinct)      # Run.result() reports len(); the count is measured above
    for (clause, klass) in sorted(merged):
        cnt, lst = merged[(clause, klass)]
        lst.sort(key=lambda t: (t[0], t[1]))
        for ln, line, inp, detail in lst[:3]:
            run.fail(clause, klass, inp, detail)
        run.counts["%s|%s" % (clause, klass)] = cnt
    run.exhaustive = quick     # every listed sweep is a finite product enumerated completely; thorough adds sampling
    run.notes.append("evaluations per sweep: %r ; per form: %r" % (per_sweep, byform))
    run.notes.append("oracle = the field tuple the reference formatter started from; every case passes the single gate domain()")
    run.notes.append("left out (not in the statement): lines without any colon, units starting/ending with '.' or ':', units of digits/dots only "
                     "(except `digits blank suffix`), mnemonics with '.', tz-offset colons in ~Parameter, tabs inside fields, a time-like value "
                     "glued to ':NN' (ambiguous line), bracketed units / digit-comma-digit / reserved mnemonics in the read() pass, "
                     "no-period lines in a 1.2 ~Well section")
    run.notes.append("read() pass: LAS 1.2 ~Well items other than STRT/STOP/STEP/NULL are compared with value and descr exchanged (1.2 layout); "
                     "values compared numerically when read() returns a number")
    return run


def replay_one(entry):
    inp = entry["input"]
    p = tuple(inp["pads"])
    if "e2e" in inp:
        res = e2e_case(inp["kind"], inp["M"], inp["U"], inp["V"], inp["D"], p, inp["e2e"])
        for sec, form, ok, detail in res:
            if sec == inp["sec"]:
                if not ok and "read-" + CLAUSE[form] == entry["clause"]:
                    return True, detail
                return False, "holds now: %s" % detail
        return False, "case is outside the domain"
    r = check_line(inp["kind"], inp["M"], inp["U"], inp["V"], inp["D"], p, inp["sec"])
    if r is None:
        return False, "case is outside the domain"
    form, line, ok, detail = r
    if not ok and CLAUSE[form] == entry["clause"]:
        return True, detail
    return False, "clause %s holds on line %r now (%s)" % (entry["clause"], line, detail)


if __name__ == "__main__":
    main("C04", build_run, replay_one)
