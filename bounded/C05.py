"""C05 bounded stand-in / CPython cross-check: every line is attributed to the
section whose title precedes it.

A LAS text is generated from a *spec*: an ordered list of sections (~V first, then
a permutation of ~W ~C ~P ~O and 0..2 custom sections, ~A anywhere after ~V), each
with a title spelling, a size (incl. 0), a kind of last body line (item / blank /
comment) and, in ~C/~P/custom sections, optional steering mnemonics
VERS/WRAP/NULL/DLM.  Every item and every ~O line carries a marker S<j>... naming
the ordinal j of its section in the file; data cells are (row+1)*100+(col+1)+.5.

The oracle is built from the spec alone (never by parsing the text): per section
the marker sequence (clauses lines-attributed:*, custom-kept-under-own-title,
no-unexpected-section) and the (mnemonic, unit, value, descr) tuples (clause
items-interpreted:*); the data matrix (data-rows-attributed: index column / row
count, data-interpreted: the other cells).  Steering items outside ~V/~W are not
consulted by the oracle at all, so any effect they have shows up as a mismatch
(or as engine-steered-by-version-wrap-only through the engine trace hook).

The klass of a failure is computed from the spec and the clause only.
"""
import sys
import os
sys.path.insert(0, os.path.dirname(os.path.abspath(__file__)))
from common import Run, main

import hashlib
import itertools
import json
import multiprocessing
import random
import re
import warnings

import lasio

warnings.simplefilter("ignore")

STD_KEY = {"V": "Version", "W": "Well", "C": "Curves", "P": "Parameter", "O": "Other"}
WORDS = {
    "V": ("ersion", "ERSION INFORMATION"),
    "W": ("ell", "ELL INFORMATION BLOCK"),
    "C": ("urve", "URVE INFORMATION"),
    "P": ("arameter", "ARAMETER INFORMATION"),
    "O": ("ther", "THER INFORMATION"),
    "A": ("SCII", "SCII LOG DATA"),
    "T": ("ops", "OPS PICKED BY HAND"),
    "B": ("it", "IT RECORD"),
}
FORMS = ("letter", "word", "trailing")
CUSTOM_LETTERS = ("T", "B")
STEER_VALUE = {"WRAP": "YES", "DLM": "COMMA", "NULL": "102.5"}   # VERS: the other version; 102.5 is data cell (0,1)
MARK = re.compile(r"S\d+(?:I\d+|L\d+|VERS|WRAP|NULL|DLM)")


def make_title(letter, lower, form, indent):
    """letter: section letter (upper); lower: first letter in lower case; form: letter|word|trailing"""
    word, trailing = WORDS[letter]
    rest = {"letter": "", "word": word, "trailing": trailing}[form]
    first = letter
    if lower:
        first, rest = letter.lower(), rest.lower()
    return ("  " if indent else "") + "~" + first + rest


def cell(i, j):
    return (i + 1) * 100 + (j + 1) + 0.5


# ---------------------------------------------------------------- rendering + expected result (from the spec alone)

def n_columns(spec):
    for s in spec["sections"]:
        if s["kind"] == "C":
            return s["n"] + len(s.get("steer", []))
    return 0


def item_line(mn, unit, value, descr, swapped=False):
    if swapped:   # LAS 1.2 ~W layout for non STRT/STOP/STEP/NULL lines: MNEM.UNIT  DESCR : VALUE
        return "%s.%s    %s   : %s" % (mn, unit, descr, value)
    return "%s.%s    %s   : %s" % (mn, unit, value, descr)


def render(spec):
    """-> (text, expected) ; expected = {"sections": [(kind, key, ids, tuples)], "data": matrix(list of rows)}"""
    vers = spec["vers"]
    other_vers = "1.2" if vers == "2.0" else "2.0"
    lines = []
    exp = []
    ncol = n_columns(spec)
    matrix = None
    for j, s in enumerate(spec["sections"]):
        kind = s["kind"]
        lines.append(s["title"])
        key = STD_KEY.get(kind)
        body, ids, tuples = [], [], []
        if kind == "V":
            for mn, val in (("VERS", vers), ("WRAP", "NO")):
                d = "DS%d%s" % (j, mn)
                body.append(item_line(mn, "", val, d))
                ids.append("S%d%s" % (j, mn))
                tuples.append((mn, "", val, d))
        elif kind in "WCPX":
            if kind == "X":
                key = s["title"].strip()[1:]
            entries = []
            for k in range(s["n"]):
                m = "S%dI%d" % (j, k)
                entries.append((m, "U" + m, "V" + m, "D" + m, m, kind == "W" and vers == "1.2"))
            if kind == "W" and s.get("null"):
                m = "S%dNULL" % j
                entries.append(("NULL", "", "-999.25", "D" + m, m, False))
            for mn, pos in s.get("steer", []):
                m = "S%d%s" % (j, mn)
                val = other_vers if mn == "VERS" else STEER_VALUE[mn]
                e = (mn, "", val, "D" + m, m, False)
                if pos == 0:
                    entries.insert(0, e)
                else:
                    entries.append(e)
            for mn, unit, val, d, m, swapped in entries:
                body.append(item_line(mn, unit, val, d, swapped))
                ids.append(m)
                tuples.append((mn, unit, val, d))
        elif kind == "O":
            for k in range(s["n"]):
                m = "S%dL%d" % (j, k)
                body.append("%s free text of the other section" % m)
                ids.append(m)
                tuples.append("%s free text of the other section" % m)
        elif kind == "A":
            matrix = [[cell(i, c) for c in range(ncol)] for i in range(s["n"])]
            for row in matrix:
                body.append("  " + "  ".join("%.1f" % v for v in row))
        if s["last"] == "blank":
            body.append("")
        elif s["last"] == "comment":
            body.append("# comment closing section S%d" % j)
        lines += body
        if kind != "A":
            exp.append((kind, key, ids, tuples))
    return "\n".join(lines) + "\n", {"sections": exp, "data": matrix, "ncol": ncol}


# ---------------------------------------------------------------- observing the parsed object

def value_matches(got, text):
    if isinstance(got, str):
        return got == text
    try:
        return float(got) == float(text)
    except Exception:
        return False


def observe_items(obj, tolerate_created_curves):
    """SectionItems -> (ids, tuples) ; ids: per item the marker(s) found in any field"""
    ids, tuples = [], []
    for it in list(obj):
        fields = (it.original_mnemonic, it.unit, it.value, it.descr)
        if tolerate_created_curves and all(str(f) == "" for f in fields):
            continue   # curve created for a data column that has no ~C line (documented behaviour)
        found = []
        for f in fields:
            for m in MARK.findall(str(f)):
                if m not in found:
                    found.append(m)
        ids.append("+".join(found) if found else "?%s" % (fields[0],))
        tuples.append(fields)
    return ids, tuples


def observe_text(obj):
    out = []
    for ln in str(obj).split("\n"):
        ln = ln.strip()
        if not ln or ln.startswith("#"):
            continue
        out.append(ln)
    return out


def check(spec, las, expected, with_data=True):
    """-> list of (clause, section ordinal or None, detail)"""
    fails = []
    secs = las.sections
    expected_keys = set(STD_KEY.values())
    for j_, (kind, key, ids, tuples) in enumerate(expected["sections"]):
        j = [i for i, s in enumerate(spec["sections"]) if s["kind"] != "A"][j_]
        name = STD_KEY.get(kind, "custom")
        if kind == "X":
            keys = [k for k in (key, "~" + key) if k in secs]
            if not keys:
                fails.append(("custom-kept-under-own-title", j, "no sections[%r]; keys=%r" % (key, list(secs.keys()))))
                continue
            key = keys[0]
        expected_keys.add(key)
        obj = secs.get(key)
        if kind == "O":
            if not isinstance(obj, str):
                fails.append(("lines-attributed:Other", j, "sections['Other'] is %s" % type(obj).__name__))
                continue
            got = observe_text(obj)
            if got != tuples:
                fails.append(("lines-attributed:Other", j, "expected %r got %r" % (tuples, got)))
            continue
        if isinstance(obj, str):
            if kind != "X":
                fails.append(("lines-attributed:%s" % name, j, "sections[%r] is a str" % key))
                continue
            got = observe_text(obj)
            got_ids = ["+".join(dict.fromkeys(MARK.findall(ln))) or "?" + ln[:10] for ln in got]
            if got_ids != ids:
                fails.append(("lines-attributed:custom", j, "expected %r got %r" % (ids, got_ids)))
            continue
        try:
            got_ids, got_tuples = observe_items(obj, tolerate_created_curves=(kind == "C"))
        except Exception as e:
            fails.append(("lines-attributed:%s" % name, j, "sections[%r] unreadable: %r" % (key, e)))
            continue
        if got_ids != ids:
            fails.append(("lines-attributed:%s" % name, j, "expected %r got %r" % (ids, got_ids)))
            continue
        for want, got in zip(tuples, got_tuples):
            ok = (got[0] == want[0] and got[1] == want[1] and value_matches(got[2], want[2]) and got[3] == want[3])
            if not ok:
                fails.append(("items-interpreted:%s" % name, j, "line for %r expected %r got %r" % (want[0], want, got)))
                break
    extra = [k for k in secs.keys() if k not in expected_keys]
    if extra:
        fails.append(("no-unexpected-section", None, "unexpected keys %r" % (extra,)))
    if not with_data:
        return fails
    # data
    ja = [i for i, s in enumerate(spec["sections"]) if s["kind"] == "A"][0]
    matrix, ncol = expected["data"], expected["ncol"]
    nrow = len(matrix)
    try:
        cols = [list(c.data) if c.data is not None else [] for c in las.curves]
    except Exception as e:
        fails.append(("data-rows-attributed", ja, "curve data unreadable: %r" % (e,)))
        return fails
    if nrow == 0:
        if any(len(c) for c in cols):
            fails.append(("data-rows-attributed", ja, "no data rows written, got columns %r" % (cols,)))
        return fails
    want_index = [matrix[i][0] for i in range(nrow)]

    def same(a, b):
        try:
            return float(a) == float(b) and not isinstance(a, str)
        except Exception:
            return False
    if len(cols) == 0 or len(cols[0]) != nrow or not all(same(a, b) for a, b in zip(cols[0], want_index)):
        fails.append(("data-rows-attributed", ja, "index column expected %r got %r (n curves %d)" % (want_index, cols[0] if cols else None, len(cols))))
        return fails
    bad = None
    if len(cols) != ncol:
        bad = "expected %d columns got %d" % (ncol, len(cols))
    else:
        for c in range(ncol):
            if len(cols[c]) != nrow:
                bad = "column %d has %d values, expected %d" % (c, len(cols[c]), nrow)
                break
            for i in range(nrow):
                if not same(cols[c][i], matrix[i][c]):
                    bad = "cell (row %d, col %d) expected %r got %r" % (i, c, matrix[i][c], cols[c][i])
                    break
            if bad:
                break
    if bad:
        fails.append(("data-interpreted", ja, bad))
    return fails


# ---------------------------------------------------------------- classification (from the spec alone)

def letters_of(spec, pred):
    out = []
    for s in spec["sections"]:
        if pred(s):
            out.append("x" if s["kind"] == "X" else s["kind"].lower())
    order = "vwcpoxa"
    return "".join(sorted(set(out), key=order.index)) or "-"


def is_lower(s):
    return s["title"].strip()[1].islower()


def is_indented(s):
    return s["title"] != s["title"].strip()


def steer_feature(spec):
    kinds = [s["kind"] for s in spec["sections"]]
    jw = kinds.index("W")
    w_has_null = bool(spec["sections"][jw].get("null"))
    out = []
    for j, s in enumerate(spec["sections"]):
        for mn, pos in s.get("steer", []):
            f = "%s@%s" % (mn, s["kind"])
            if mn == "VERS":
                f += "<W" if j < jw else ">W"
            elif mn == "NULL":
                f += ("<Wnull" if w_has_null else "<W") if j < jw else ">W"
            out.append(f)
    return "+".join(sorted(out)) or "-"


def a_feature(spec):
    secs = spec["sections"]
    ja = [i for i, s in enumerate(secs) if s["kind"] == "A"][0]
    a = secs[ja]
    pos = "last" if ja == len(secs) - 1 else "inner"
    rows = "0" if a["n"] == 0 else "2+"
    return "A=%s;Alast=%s;rows=%s" % (pos, a["last"], rows)


def title_feature(s):
    return ("lower" if is_lower(s) else "upper") + ("+indent" if is_indented(s) else "")


def section_of(spec, kind):
    return [s for s in spec["sections"] if s["kind"] == kind][0]


def data_steer_feature(spec):
    f = [x for x in steer_feature(spec).split("+") if not x.startswith("VERS") and x != "-"]
    return "+".join(f) or "-"


def klass_of(spec, clause, j):
    """Features that the statement makes relevant to the clause, computed from the spec alone."""
    if clause == "header-read-raises":
        # nothing could be observed: every non-default feature of the header part
        return "lower=%s;indent=%s;steer=%s;vers=%s" % (
            letters_of(spec, is_lower), letters_of(spec, is_indented), steer_feature(spec), spec["vers"])
    if clause.startswith("data-"):
        return "Atitle=%s;%s;cols=%s;Ctitle=%s;steer=%s;engine=%s" % (
            title_feature(section_of(spec, "A")), a_feature(spec), "1" if n_columns(spec) == 1 else "2+",
            title_feature(section_of(spec, "C")), data_steer_feature(spec), spec["engine"])
    if clause == "engine-steered-by-version-wrap-only":
        w = [x for x in steer_feature(spec).split("+") if x.startswith("WRAP")]
        return "Vtitle=%s;wrap-steer=%s" % (title_feature(section_of(spec, "V")), "+".join(w) or "-")
    if clause == "no-unexpected-section" or j is None:
        return "lower=%s;indent=%s" % (letters_of(spec, is_lower), letters_of(spec, is_indented))
    s = spec["sections"][j]
    nbody = s["n"] + (1 if s.get("null") else 0) + len(s.get("steer", []))
    if clause.startswith("items-interpreted"):
        before = []
        for t in spec["sections"][:j]:
            before += [mn for mn, _pos in t.get("steer", [])]
        return "title=%s;steer-before=%s;vers=%s" % (title_feature(s), "+".join(sorted(set(before))) or "-", spec["vers"])
    return "title=%s;size=%s;last=%s;final=%d" % (title_feature(s), "0" if nbody == 0 else "1+", s["last"], j == len(spec["sections"]) - 1)


# ---------------------------------------------------------------- one case

def run_case(spec):
    """-> list of (clause, klass, detail)"""
    text, expected = render(spec)
    out = []
    data_ok = True
    try:
        las = lasio.read(text, engine=spec["engine"])
    except Exception as e:
        first = "%s: %s" % (type(e).__name__, str(e).strip().split("\n")[-1][:300])
        # the header part can still be observed when only the data section raised
        data_ok = False
        try:
            las = lasio.read(text, engine=spec["engine"], ignore_data=True)
        except Exception as e2:
            second = "%s: %s" % (type(e2).__name__, str(e2).strip().split("\n")[-1][:300])
            return [("header-read-raises", klass_of(spec, "header-read-raises", None), second)]
        out.append(("data-read-raises", klass_of(spec, "data-read-raises", None), first))
    for clause, j, detail in check(spec, las, expected, with_data=data_ok):
        out.append((clause, klass_of(spec, clause, j), detail))
    # ~V says WRAP NO in every generated file, so the engine that was asked for must be the one that is tried
    trace = getattr(las, "_verif_engine_trace", None)
    if data_ok and trace and spec["engine"] == "numpy" and "normal" in trace:
        out.append(("engine-steered-by-version-wrap-only", klass_of(spec, "engine-steered-by-version-wrap-only", None),
                    "~V has WRAP NO and engine='numpy' was requested, engine trace %r" % (trace,)))
    return out


def nontrivial(spec):
    kinds = "".join(s["kind"] for s in spec["sections"])
    canonical = kinds in ("VWCPOA", "VWCPOXA", "VWCPOXXA")
    plain = all(not is_lower(s) and not is_indented(s) for s in spec["sections"])
    nonempty = all(s["n"] > 0 for s in spec["sections"])
    steer = any(s.get("steer") for s in spec["sections"])
    return (not canonical) or (not plain) or (not nonempty) or steer


# ---------------------------------------------------------------- generation

def gen_spec(rng, order, engine, vers, lower=(), indent=(), steer=(), forms=None, rows=None, a_last=None):
    """order: string over W C P O T B A (T, B custom); V is prepended.
    lower / indent: sets of letters (as in order, plus 'V'); steer: list of (mnemonic, host letter, pos)"""
    secs = []
    for letter in "V" + order:
        kind = "X" if letter in CUSTOM_LETTERS else letter
        form = forms[letter] if forms and letter in forms else rng.choice(FORMS)
        s = {"kind": kind, "title": make_title(letter, letter in lower, form, letter in indent)}
        if kind == "V":
            s["n"] = 2
        elif kind == "A":
            s["n"] = rows if rows is not None else rng.choice((0, 2, 2, 3))
        else:
            s["n"] = rng.choice((0, 1, 2, 3))
        s["last"] = rng.choice(("item", "item", "blank", "comment"))
        if kind == "A" and a_last is not None:
            s["last"] = a_last
        if kind == "W":
            s["null"] = rng.random() < 0.6
        st = [[mn, pos] for (mn, host, pos) in steer if host == letter]
        if st:
            s["steer"] = st
        secs.append(s)
    c = [s for s in secs if s["kind"] == "C"][0]
    if c["n"] + len(c.get("steer", [])) == 0:
        # a file that declares no curves carries no data rows (declared/actual column mismatch is C07's subject)
        [s for s in secs if s["kind"] == "A"][0]["n"] = 0
    return {"vers": vers, "engine": engine, "sections": secs}


def orders(n_custom):
    base = "WCPO" + "".join(CUSTOM_LETTERS[:n_custom])
    for perm in itertools.permutations(base):
        for apos in range(len(perm) + 1):
            p = list(perm)
            p.insert(apos, "A")
            yield "".join(p)


def build_specs(tier, seed):
    rng = random.Random(1000003 * seed + 5)
    thorough = tier != "quick"
    specs = []
    all0, all1, all2 = list(orders(0)), list(orders(1)), list(orders(2))      # 120, 720, 5040 orders
    last1 = [o for o in all1 if o.endswith("A")]                               # 120 orders with ~A last
    engines = ("numpy", "normal")

    def some(lst, k):
        return lst if (thorough or k >= len(lst)) else rng.sample(lst, k)

    def mixed(k_last, k_any):
        """orders for the one-factor families: mostly ~A last (so that the factor is seen alone), some with ~A anywhere"""
        return some(last1, k_last) + (all1 if thorough else rng.sample(all1, k_any))

    # F1: every order, upper-case titles, no steering
    reps = 4 if thorough else 1
    for od in all0 + all1 + (all2 if thorough else rng.sample(all2, 400)):
        for eng in engines:
            for _ in range(reps):
                specs.append(gen_spec(rng, od, eng, rng.choice(("2.0", "2.0", "1.2"))))
    # F1b: position of ~A x its last line x rows x engine
    for od in some(all1, 240):
        for eng in engines:
            for a_last in ("item", "blank", "comment"):
                for rows in (0, 2, 3):
                    specs.append(gen_spec(rng, od, eng, "2.0", rows=rows, a_last=a_last))
    # F2: exactly one title in lower case, all three forms
    for letter in "VWCPOAT":
        for form in FORMS:
            for od in mixed(30, 10):
                for eng in engines:
                    specs.append(gen_spec(rng, od, eng, rng.choice(("2.0", "1.2")), lower=(letter,), forms={letter: form}))
    # F3: exactly one steering item in ~C / ~P / custom
    for mn in ("VERS", "WRAP", "NULL", "DLM"):
        for host in "CPT":
            for pos in (0, 1):
                for od in mixed(40, 10):
                    for eng in engines:
                        for vers in ("2.0", "1.2") if mn == "VERS" else ("2.0",):
                            specs.append(gen_spec(rng, od, eng, vers, steer=[(mn, host, pos)]))
    # F4: exactly one title with leading blanks
    for letter in "VWCPOAT":
        for od in mixed(30, 10):
            for eng in engines:
                specs.append(gen_spec(rng, od, eng, "2.0", indent=(letter,)))
    # F5: free combinations
    n5 = 12000 if thorough else 1500
    pool = all0 + all1 + all2
    for _ in range(n5):
        od = rng.choice(pool)
        letters = "V" + od
        lower = tuple(x for x in letters if rng.random() < 0.10)
        indent = tuple(x for x in letters if rng.random() < 0.03)
        hosts = [x for x in od if x in "CPTB"]
        steer = []
        if rng.random() < 0.4:
            steer.append((rng.choice(("VERS", "WRAP", "NULL", "DLM")), rng.choice(hosts), rng.choice((0, 1))))
        specs.append(gen_spec(rng, od, rng.choice(engines), rng.choice(("2.0", "1.2")), lower=lower, indent=indent, steer=steer))
    return specs


def key_of(spec):
    return hashlib.sha1(json.dumps(spec, sort_keys=True).encode()).hexdigest()[:16]


def work(chunk):
    out = []
    for spec in chunk:
        out.append((key_of(spec), nontrivial(spec), run_case(spec)))
    return out


def build_run(tier, seed):
    run = Run("C05",
              "a case is one generated LAS text read with one engine; it is non-trivial when the section order is not "
              "V,W,C,P,O,[custom],A or a title is lower-case/indented or a section is empty or a steering item is present; "
              "distinct = distinct (spec, engine)",
              "LAS texts: ~V, a permutation of ~W ~C ~P ~O and 0..2 custom sections (~T.., ~B..), ~A anywhere after ~V; "
              "title = letter | word | word + trailing text, first letter upper or lower case; section sizes 0..3; last body "
              "line item/blank/comment; one optional VERS/WRAP/NULL/DLM item per ~C/~P/custom section; VERS 2.0 and 1.2; both engines",
              "sections <= 8, items per section <= 3 (+NULL, + steering), data rows in {0,2,3}, data columns 1..5")
    specs = build_specs(tier, seed)
    nproc = int(os.environ.get("VERIF_NPROC") or (4 if tier == "quick" else 12))
    size = 200
    chunks = [specs[i:i + size] for i in range(0, len(specs), size)]
    if nproc > 1:
        with multiprocessing.Pool(nproc) as pool:
            results = pool.map(work, chunks)
    else:
        results = [work(c) for c in chunks]
    for chunk, res in zip(chunks, results):
        for spec, (key, nt, fails) in zip(chunk, res):
            run.case(key, nontrivial=nt, sample=({"spec": spec, "text": render(spec)[0]} if nt and len(run.samples) < 4 else None))
            for clause, klass, detail in fails:
                run.fail(clause, klass, {"spec": spec}, detail)
    run.exhaustive = False
    run.notes += [
        "section orders are enumerated completely for 0 and 1 custom sections (120 + 720 orders x 2 engines); the other axes "
        "(spelling form, sizes, last line, VERS) are sampled with the seed; families: F1 orders, F1b ~A position x last line x rows, "
        "F2 one lower-case title, F3 one steering item, F4 one indented title, F5 free combinations",
        "left out: data sections with exactly 1 row (1-D disambiguation belongs to C02/C07), wrapped data, CRLF / no final newline (C02), "
        "duplicate mnemonics within a section (C13), several ~A sections, repeated standard sections, LAS 3 style titles (with '_'), "
        "a missing ~V, free text inside custom sections (lasio parses them as header items; the statement only says 'kept under their own title')",
        "a file whose ~C is empty is given no data rows (declared/actual column mismatch is C07's subject); curves that lasio creates "
        "for data columns without a ~C line are tolerated in sections['Curves']",
        "when read() raises it is repeated with ignore_data=True: if that succeeds the header clauses are still checked and the "
        "failure is 'data-read-raises', otherwise 'header-read-raises'",
        "clause engine-steered-by-version-wrap-only uses the _verif_engine_trace hook: every file says WRAP NO in ~V, so a requested "
        "numpy engine must be tried ('numpy' or 'normal-after-numpy-failure'); a trace 'normal' means something else than ~V's WRAP chose the engine",
        "~O: blank lines and '#' lines are ignored on both sides of the comparison (the statement does not say whether they are free text)",
        "custom sections are accepted as SectionItems or as str, under key title[1:] or the full title",
        "~W body lines under VERS 1.2 are written MNEM.UNIT DESCR : VALUE except NULL (LAS 1.2 standard)",
        "the steering NULL value is data cell (row 0, col 1); no cell equals ~W's NULL, so the expected matrix has no NaN",
        "titles with two leading blanks (family F4 and part of F5) are treated as title lines, as find_sections_in_file does; "
        "the klass carries 'indent' so they can be judged separately",
    ]
    return run


def replay_one(entry):
    spec = entry["input"]["spec"]
    fails = run_case(spec)
    for clause, klass, detail in fails:
        if clause == entry["clause"]:
            return True, detail
    return False, "clause %s holds on this input now (other failures: %r)" % (entry["clause"], [(c, d) for c, _k, d in fails])


if __name__ == "__main__":
    main("C05", build_run, replay_one)
