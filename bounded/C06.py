"""C06 bounded stand-in / CPython cross-check: exactly the NULL-valued samples of
non-index numeric curves become NaN (null_policy='strict', the default), nothing is
changed under null_policy='none', text columns are untouched, and on writing every
NaN is emitted as the current NULL so NaN positions survive write->read.

The generator builds LAS texts from *tokens* (strings).  The oracle never calls
lasio: the expected NaN mask is  float(token) == float(header NULL spelling)  and
column != 0  and the column is numeric (every token of it parses with float()).
Written files are tokenised by this module (str.split), not by lasio.

Three parts:
  A  enumerated: NULL value x header spelling x token (every NULL spelling, nextafter
     +-, relative +-1e-6, each in repr and %.17E spelling) x placement (every single
     cell of a 3x3 numeric grid and of a 3x4 grid with a text column, every whole
     column, all cells) x engine x null_policy x wrapped/unwrapped;
  B  sampled grids (2..6 rows, 2..6 columns, 0..2 text columns, LAS 1.2 and 2.0), the
     same eight configurations;
  C  write->read cycles (files read with 'strict', and LASFile objects built in
     memory), optionally after changing the current NULL, x version x wrap x fmt.
"""
import sys
import os
sys.path.insert(0, os.path.dirname(os.path.abspath(__file__)))
from common import Run, main

import hashlib
import io
import json
import math
import multiprocessing
import random
import re
import time

import numpy as np
import lasio

# --------------------------------------------------------------------------
# the value/spelling tables
# --------------------------------------------------------------------------
NULLS = [
    ("-999.25", ["-999.25", "-999.2500", "-9.9925E2", "-9.9925e+02", "-999.250000"]),
    ("999", ["999", "999.0", "9.99E2", "999.00", "+999"]),
    ("0", ["0", "0.0", "0.00", "0E0", "-0.0"]),
    ("-9999", ["-9999", "-9999.0", "-9.999E3", "-9999.00", "-9.999e+03"]),
    ("1e30", ["1e30", "1E30", "1.0E+30", "1.0e30", "1000000000000000000000000000000"]),
    ("-99999.25", ["-99999.25", "-99999.2500", "-9.999925E4", "-9.999925e+04", "-99999.250"]),
    ("2147483647", ["2147483647", "2147483647.0", "2.147483647E9", "2147483647.00", "2.147483647e+09"]),
]
NULL_KEYS = [k for k, _ in NULLS]
SPELL = dict(NULLS)
for _k, _sps in NULLS:
    for _s in _sps:
        assert float(_s) == float(_k), (_k, _s)

FILLERS = ["1.5", "2.25", "37.125", "-4.75", "12345.5", "0.5", "-0.125", "88", "1.0E3", "-2.5e-3", "7", "1234567.875"]
INDEX_FILL = ["100.0", "100.5", "101.0", "101.5", "102.0", "102.5"]
TEXTS = ["SAND", "shale", "LIME", "q", "Dolomite", "coal"]
for _f in FILLERS + INDEX_FILL:
    for _k in NULL_KEYS:
        assert abs(float(_f) - float(_k)) > 1e-3 * max(1.0, abs(float(_k))), (_f, _k)


def near_tokens(key):
    """[(name, token)] : values next to the NULL value but not equal to it"""
    v = float(key)
    up = float(np.nextafter(v, np.inf))
    dn = float(np.nextafter(v, -np.inf))
    ru = v * (1 + 1e-6) if v != 0 else 1e-6
    rd = v * (1 - 1e-6) if v != 0 else -1e-6
    out = []
    for name, x in (("next+", up), ("next-", dn), ("rel+", ru), ("rel-", rd)):
        assert x != v and not math.isinf(x)
        for tok in (repr(x), "%.17E" % x):
            assert float(tok) == x, (tok, x)
            out.append((name, tok))
    return out


NEAR = dict((k, near_tokens(k)) for k in NULL_KEYS)


def isnum(tok):
    try:
        float(tok)
    except ValueError:
        return False
    return True


def style(tok):
    """spelling class of a token, from the string alone"""
    if not isnum(tok):
        return "text"
    body = tok.lstrip("+-")
    if "e" in tok.lower():
        st = "exp"
    elif re.fullmatch(r"\d+", body):
        st = "bigint" if len(body) > 18 else "int"
    else:
        st = "dec"
    if tok.startswith("+"):
        st += "+plus"
    if tok.startswith("-") and float(tok) == 0:
        st += "+negzero"
    return st


def null_key(hdr):
    h = float(hdr)
    for k in NULL_KEYS:
        if float(k) == h:
            return k
    return repr(h)


def cell_cat(hdr, rows, i, j):
    """where:kind:style of one cell, from the input alone"""
    h = float(hdr)
    tok = rows[i][j]
    coltext = not all(isnum(r[j]) for r in rows)
    where = "idx" if j == 0 else ("txt" if coltext else "col")
    if not isnum(tok):
        kind = "text"
    else:
        x = float(tok)
        if x == h:
            kind = "eq"
        elif abs(x - h) <= 2e-6 * max(abs(h), 1.0):
            kind = "near1ulp" if (x == float(np.nextafter(h, np.inf)) or x == float(np.nextafter(h, -np.inf))) else "near1e-6"
        else:
            kind = "filler"
    return "%s:%s:%s" % (where, kind, style(tok))


# --------------------------------------------------------------------------
# LAS text from tokens
# --------------------------------------------------------------------------
def wrapped_lines(rows, chunk):
    out = []
    for r in rows:
        out.append([r[0]])
        rest = r[1:]
        for a in range(0, len(rest), chunk):
            out.append(rest[a:a + chunk])
    return out


def build_text(case):
    rows = case["rows"]
    n = len(rows[0])
    t = ["~Version Information",
         " VERS.   %s :   CWLS LOG ASCII STANDARD - VERSION %s" % (case["vers"], case["vers"]),
         " WRAP.   %s :   wrap mode" % ("YES" if case["wrap"] else "NO"),
         "~Well Information",
         " STRT.M   %s : START DEPTH" % rows[0][0],
         " STOP.M   %s : STOP DEPTH" % rows[-1][0],
         " STEP.M   0 : STEP",
         " NULL.    %s : NULL VALUE" % case["hdr"],
         "~Curve Information",
         " DEPT.M    : depth"]
    for j in range(1, n):
        t.append(" C%d.X    : curve %d" % (j, j))
    t.append("~A")
    if case["wrap"]:
        for ln in wrapped_lines(rows, case["chunk"]):
            t.append(" " + "  ".join(ln))
    else:
        for r in rows:
            t.append(" " + "  ".join(r))
    return "\n".join(t) + "\n"


def wrap_ok(rows, chunk):
    """the wrapped layout must not be 'sniffable' as a narrower rectangular table
    (that is property C01/C07 territory) and must stay within the 21 sniffed lines"""
    n = len(rows[0])
    if n < 3 or chunk < 2:
        return False
    counts = [len(l) for l in wrapped_lines(rows, chunk)]
    return len(set(counts)) > 1 and len(counts) <= 20


# --------------------------------------------------------------------------
# the read oracle
# --------------------------------------------------------------------------
def read_klass(case, cat):
    textcol = int(any(not all(isnum(r[j]) for r in case["rows"]) for j in range(len(case["rows"][0]))))
    return "read;null=%s;hdr=%s;pol=%s;eng=%s;wrap=%d;vers=%s;textcol=%d;cell=%s" % (
        null_key(case["hdr"]), style(case["hdr"]), case["policy"], case["engine"], int(bool(case["wrap"])),
        case["vers"], textcol, cat)


def check_read(case):
    """run one read; returns (fails [(clause, klass, detail)], las or None)"""
    rows = case["rows"]
    nrows, ncols = len(rows), len(rows[0])
    h = float(case["hdr"])
    text = build_text(case)
    try:
        las = lasio.read(text, engine=case["engine"], null_policy=case["policy"])
    except Exception as e:
        return [("read-does-not-raise", read_klass(case, "-"), repr(e)[:300])], None
    cols = [c.data for c in las.curves]
    if len(cols) != ncols or any(len(c) != nrows for c in cols):
        return [("data-shape-as-in-file", read_klass(case, "-"),
                 "expected %dx%d got %r" % (nrows, ncols, [len(c) for c in cols]))], las
    fails = []
    strict = case["policy"] == "strict"
    for i in range(nrows):
        for j in range(ncols):
            tok = rows[i][j]
            v = cols[j][i]
            coltext = not all(isnum(r[j]) for r in rows)
            clause = None
            if coltext:
                ok = isinstance(v, str)
                if ok:
                    if isnum(tok):
                        try:
                            ok = float(v) == float(tok)
                        except ValueError:
                            ok = False
                    else:
                        ok = str(v) == tok
                if not ok:
                    clause = "text-column-untouched"
            else:
                try:
                    fv = float(v)
                except (TypeError, ValueError):
                    fv = None
                x = float(tok)
                if fv is None:
                    clause = "numeric-column-stays-numeric"
                elif not strict:
                    if not (fv == x):
                        clause = "policy-none-changes-nothing"
                elif j == 0:
                    if x == h:
                        if not (fv == x):
                            clause = "index-null-kept"
                    elif math.isnan(fv):
                        clause = "only-null-equal-nonindex-becomes-nan"
                else:
                    if x == h and not math.isnan(fv):
                        clause = "null-equal-nonindex-becomes-nan"
                    elif x != h and math.isnan(fv):
                        clause = "only-null-equal-nonindex-becomes-nan"
            if clause and not any(f[0] == clause for f in fails):
                fails.append((clause, read_klass(case, cell_cat(case["hdr"], rows, i, j)),
                              "cell (%d,%d) token %r -> %r ; header NULL %r parsed as %r ; engines %r" % (
                                  i, j, tok, v, case["hdr"], getattr(las.well.get("NULL", None), "value", None),
                                  getattr(las, "_verif_engine_trace", None))))
    return fails, las


# --------------------------------------------------------------------------
# the write oracle
# --------------------------------------------------------------------------
def py_value(key):
    return int(key) if re.fullmatch(r"[+-]?\d+", key) else float(key)


def write_klass(case, extra=""):
    rows = case["rows"]
    textcol = int(any(not all(isnum(r[j]) for r in rows) for j in range(len(rows[0]))))
    cur = case["setnull"] if case["setnull"] is not None else (case["hdr"] if case["source"] == "read" else null_key(case["hdr"]))
    curtype = "int" if re.fullmatch(r"[+-]?\d+", cur) else ("big" if abs(float(cur)) >= 1e16 else "float")
    return "write;src=%s;textcol=%d;setnull=%d;nulltype=%s;wrap=%s;fmt=%s%s" % (
        case["source"], textcol, int(case["setnull"] is not None), curtype, case["wwrap"], case["fmt"], extra)


def check_write(case):
    """returns (fails, n_evaluations, skipped_reason or None, n_nan)"""
    rows = case["rows"]
    nrows, ncols = len(rows), len(rows[0])
    h = float(case["hdr"])
    coltext = [not all(isnum(r[j]) for r in rows) for j in range(ncols)]
    evals = 0
    if case["source"] == "read":
        rc = dict(case, wrap=0, chunk=0, policy="strict", engine=case["engine"])
        try:
            las = lasio.read(build_text(rc), engine=rc["engine"], null_policy=rc["policy"])
        except Exception as e:
            return [], 1, "source-read-raised", 0
        evals += 1
        cols = [c.data for c in las.curves]
        if len(cols) != ncols or any(len(c) != nrows for c in cols):
            return [], evals, "source-read-shape", 0
    else:
        las = lasio.LASFile()
        las.well["NULL"].value = py_value(null_key(case["hdr"])) if null_key(case["hdr"]) in NULL_KEYS else h
        for j in range(ncols):
            if coltext[j]:
                arr = np.array([r[j] for r in rows])
            else:
                arr = np.array([(np.nan if (j != 0 and float(r[j]) == h) else float(r[j])) for r in rows], dtype=float)
            las.append_curve("DEPT" if j == 0 else "C%d" % j, arr, unit="M" if j == 0 else "X")
        cols = [c.data for c in las.curves]
    if case["setnull"] is not None:
        las.well["NULL"].value = py_value(case["setnull"])
        cur = float(case["setnull"])
    else:
        cur = h
    # NaN positions now (numeric, non-text columns), straight from the arrays
    mask0 = {}
    for j in range(ncols):
        if not coltext[j] and cols[j].dtype.kind == "f":
            mask0[j] = [bool(b) for b in np.isnan(cols[j])]
    if any(mask0.get(0, [])):
        return [], evals, "nan-in-index", 0
    n_nan = sum(sum(m) for m in mask0.values())
    # domain: no remaining non-index sample may collide with the current NULL once formatted
    for j in mask0:
        if j == 0:
            continue
        for i in range(nrows):
            if not mask0[j][i]:
                v = float(cols[j][i])
                try:
                    if float(case["fmt"] % v) == cur or v == cur:
                        return [], evals, "sample-collides-with-current-null-after-formatting", n_nan
                except Exception:
                    return [], evals, "fmt-not-applicable", n_nan
    buf = io.StringIO()
    kw = {"fmt": case["fmt"]}
    if case["wvers"] != "keep":
        kw["version"] = float(case["wvers"])
    if case["wwrap"] != "keep":
        kw["wrap"] = bool(case["wwrap"] == "yes")
    try:
        las.write(buf, **kw)
    except Exception as e:
        return [("write-does-not-raise", write_klass(case), repr(e)[:300])], evals + 1, None, n_nan
    evals += 1
    out = buf.getvalue()
    lines = out.split("\n")
    ai = max(i for i, l in enumerate(lines) if l.startswith("~A"))
    dl = [l.split() for l in lines[ai + 1:] if l.strip() != ""]
    wrapped_out = bool(re.search(r"^\s*WRAP\s*\.\s+YES\b", out, re.M))
    flat = [t for l in dl for t in l]
    if len(flat) != nrows * ncols or (not wrapped_out and any(len(l) != ncols for l in dl)):
        return [], evals, "written-section-not-rectangular(C01)", n_nan
    if wrapped_out:
        counts = [len(l) for l in dl]
        if len(counts) > 20 or (len(set(counts[:21])) == 1 and counts[0] != ncols):
            return [], evals, "wrapped-output-sniffable-or-long(C01/C07)", n_nan
    fails = []
    for j in mask0:
        for i in range(nrows):
            if mask0[j][i]:
                tok = flat[i * ncols + j]
                ok = isnum(tok) and float(tok) == cur
                if not ok and not fails:
                    fails.append(("nan-written-as-current-null", write_klass(case),
                                  "NaN at (%d,%d) written as %r, current NULL is %r" % (i, j, tok, cur)))
    for eng in ("numpy", "normal"):
        try:
            las2 = lasio.read(out, engine=eng, null_policy="strict")
        except Exception as e:
            fails.append(("nan-positions-preserved-by-write-read", write_klass(case, ";reread=%s" % eng),
                          "re-read raised %r" % (e,)))
            evals += 1
            continue
        evals += 1
        cols2 = [c.data for c in las2.curves]
        bad = None
        if len(cols2) != ncols or any(len(c) != nrows for c in cols2):
            bad = "shape after re-read %r" % ([len(c) for c in cols2],)
        else:
            for j in mask0:
                if cols2[j].dtype.kind != "f":
                    bad = "column %d is %s after re-read" % (j, cols2[j].dtype)
                    break
                m2 = [bool(b) for b in np.isnan(cols2[j])]
                if m2 != mask0[j]:
                    bad = "column %d NaN mask before %r after %r" % (j, mask0[j], m2)
                    break
        if bad:
            fails.append(("nan-positions-preserved-by-write-read", write_klass(case, ";reread=%s" % eng), bad))
    return fails, evals, None, n_nan


# --------------------------------------------------------------------------
# generators
# --------------------------------------------------------------------------
def grid(nrows, ncols, textcols=()):
    rows = []
    for i in range(nrows):
        r = [INDEX_FILL[i]]
        for j in range(1, ncols):
            if j in textcols:
                r.append(TEXTS[(i + j) % len(TEXTS)])
            else:
                r.append(FILLERS[(i * 5 + j * 3) % len(FILLERS)])
        rows.append(r)
    return rows


def placements(nrows, ncols):
    cells = [(i, j) for i in range(nrows) for j in range(ncols)]
    out = [[c] for c in cells]
    for j in range(ncols):
        out.append([(i, j) for i in range(nrows)])
    out.append(cells)
    return out


def part_a(tier):
    """base read cases (without wrap/engine/policy)"""
    shapes = [(3, 3, ()), (3, 4, (2,))]
    bases = []
    seen = set()

    def add(key, hdr, tok, shape, cells):
        nrows, ncols, tcs = shape
        rows = grid(nrows, ncols, tcs)
        for (i, j) in cells:
            rows[i][j] = tok
        # a text column must keep at least one non-numeric token
        for j in tcs:
            if all(isnum(r[j]) for r in rows):
                return
        b = {"vers": "2.0", "hdr": hdr, "rows": rows, "chunk": 2}
        s = json.dumps(b, sort_keys=True)
        if s not in seen:
            seen.add(s)
            bases.append(b)

    for key, sps in NULLS:
        toks = list(sps) + [t for _, t in NEAR[key]]
        for shape in shapes:
            pls = placements(shape[0], shape[1])
            if tier == "quick":
                # every header spelling x every token at: an index cell and a curve cell (numeric grid);
                # a text-column cell and two cells of the curve behind the text column (text grid) ...
                fixed = [[(1, 0)], [(1, 1)]] if not shape[2] else [[(1, 2)], [(0, shape[1] - 1), (2, shape[1] - 1)]]
                for hdr in sps:
                    for tok in toks:
                        for cells in fixed:
                            add(key, hdr, tok, shape, cells)
                # ... and every placement for three tokens under the canonical header
                for tok in (sps[1], NEAR[key][0][1], NEAR[key][7][1]):
                    for cells in pls:
                        add(key, sps[0], tok, shape, cells)
            else:
                for hdr in sps:
                    for tok in toks:
                        for cells in pls:
                            add(key, hdr, tok, shape, cells)
    return bases


def sample_grid(rng):
    key = rng.choice(NULL_KEYS)
    hdr = rng.choice(SPELL[key])
    nrows = rng.randint(2, 6)
    ncols = rng.randint(2, 6)
    tcs = set()
    u = rng.random()
    if ncols >= 3 and u < 0.35:
        tcs.add(rng.randint(1, ncols - 1))
        if u < 0.07 and ncols >= 4:
            tcs.add(rng.randint(1, ncols - 1))
    rows = []
    for i in range(nrows):
        r = []
        for j in range(ncols):
            u = rng.random()
            if j in tcs and u < 0.75:
                r.append(rng.choice(TEXTS))
            elif u < 0.22 or (j in tcs):
                r.append(rng.choice(SPELL[key]))
            elif u < 0.40:
                r.append(rng.choice(NEAR[key])[1])
            elif j == 0:
                r.append(INDEX_FILL[i])
            else:
                r.append(rng.choice(FILLERS))
        rows.append(r)
    for j in tcs:
        if all(isnum(r[j]) for r in rows):
            rows[rng.randrange(nrows)][j] = rng.choice(TEXTS)
    chunk = rng.randint(2, max(2, ncols - 1))
    while ncols >= 3 and chunk < ncols - 1 and not wrap_ok(rows, chunk):
        chunk += 1
    return {"vers": rng.choice(["1.2", "2.0"]), "hdr": hdr, "rows": rows, "chunk": chunk}


FMTS = ["%.5f", "%.17g"]


def part_c_enumerated(tier):
    out = []
    for key, sps in NULLS:
        for tcs in ((), (2,)):
            rows = grid(4, 4, tcs)
            rows[0][1] = sps[0]
            rows[1][1] = sps[1]
            rows[2][3] = sps[2]
            rows[3][3] = NEAR[key][6][1]     # rel-: survives '%.5f' for most values, else the case is skipped
            rows[1][0] = sps[0]              # NULL-equal index sample: kept
            rows[3][1] = NEAR[key][0][1]     # next+: collides under '%.5f' (skipped there), distinct under '%.17g'
            if tcs:
                rows[2][2] = sps[0]          # NULL-looking token inside the text column
            others = [k for k in NULL_KEYS if k != key]
            if tier == "quick":
                others = [others[NULL_KEYS.index(key) % len(others)], others[(NULL_KEYS.index(key) + 3) % len(others)]]
            for setnull in [None] + others:
                for wvers in ("1.2", "2.0"):
                    for wwrap in ("no", "yes"):
                        for fmt in FMTS:
                            for source, eng in (("read", "numpy"), ("read", "normal"), ("built", "normal")):
                                out.append({"kind": "write", "source": source, "engine": eng,
                                            "vers": "2.0", "hdr": sps[0], "rows": [list(r) for r in rows], "setnull": setnull,
                                            "wvers": wvers, "wwrap": wwrap, "fmt": fmt})
    return out


def sample_write(rng):
    b = sample_grid(rng)
    # index NaN is outside the domain; NULL-equal index samples are numbers and stay
    return {"kind": "write", "source": rng.choice(["read", "built"]), "engine": rng.choice(["numpy", "normal"]),
            "vers": b["vers"], "hdr": b["hdr"], "rows": b["rows"],
            "setnull": rng.choice([None, None] + [k for k in NULL_KEYS if float(k) != float(b["hdr"])]),
            "wvers": rng.choice(["keep", "1.2", "2.0"]), "wwrap": rng.choice(["keep", "no", "yes"]),
            "fmt": rng.choice(FMTS)}


# --------------------------------------------------------------------------
# workers
# --------------------------------------------------------------------------
CONFIGS = [(w, e, p) for w in (0, 1) for e in ("numpy", "normal") for p in ("strict", "none")]


def digest(obj):
    return hashlib.sha1(json.dumps(obj, sort_keys=True).encode()).hexdigest()[:20]


def interesting(hdr, rows):
    h = float(hdr)
    for r in rows:
        for t in r:
            if isnum(t) and abs(float(t) - h) <= 2e-6 * max(abs(h), 1.0):
                return True
    return False


def run_read_base(b):
    """all configurations of one base; -> [(key, nontrivial, evals, fails(with input), skip)]"""
    out = []
    nt = interesting(b["hdr"], b["rows"])
    for (w, e, p) in CONFIGS:
        if w and not wrap_ok(b["rows"], b["chunk"]):
            out.append((None, False, 0, [], "wrapped-layout-sniffable-or-too-narrow"))
            continue
        case = {"kind": "read", "vers": b["vers"], "hdr": b["hdr"], "rows": b["rows"], "chunk": b["chunk"] if w else 0,
                "wrap": w, "engine": e, "policy": p}
        fails, _ = check_read(case)
        out.append((digest(case), nt, 1, [(c, k, case, d) for (c, k, d) in fails], None))
    return out


def run_write_case(case):
    fails, evals, skip, n_nan = check_write(case)
    return [(digest(case), n_nan > 0 and skip is None, evals, [(c, k, case, d) for (c, k, d) in fails], skip)]


def work(chunk):
    res = []
    for kind, payload in chunk:
        if kind == "read":
            res += run_read_base(payload)
        else:
            res += run_write_case(payload)
    return res


def build_run(tier, seed):
    t0 = time.time()
    quick = tier == "quick"
    nproc = 4 if quick else 16
    deadline = t0 + (48 if quick else 780)
    run = Run("C06",
              "a read case is non-trivial when its grid holds at least one token equal to, or within 2e-6 relative of, the "
              "header NULL; a write case is non-trivial when at least one NaN is written; cases are distinct by the hash of the "
              "complete input (tokens + configuration)",
              "LAS 1.2/2.0 texts built from tokens: NULL in {-999.25, 999, 0, -9999, 1e30, -99999.25, 2147483647} x 5 header "
              "spellings x token spellings/near-NULL neighbours x placements incl. the index and text columns x engine in "
              "{numpy, normal} x null_policy in {strict, none} x wrapped/unwrapped; write->read cycles x version x wrap x fmt "
              "x changed current NULL",
              "grids <= 6 rows x 6 columns, <= 2 text columns")
    rng = random.Random(1000003 * seed + 6)
    tasks = [("read", b) for b in part_a(tier)]
    n_a = len(tasks)
    n_b = 800 if quick else 30000
    tasks += [("read", sample_grid(rng)) for _ in range(n_b)]
    wc = part_c_enumerated(tier)
    n_c = 500 if quick else 15000
    wc += [sample_write(rng) for _ in range(n_c)]
    tasks += [("write", c) for c in wc]
    size = 40
    # the three parts are interleaved so that the wall-clock guard, if it ever fires, cuts all of them evenly
    keyed = []
    for lo, hi in ((0, n_a), (n_a, n_a + n_b), (n_a + n_b, len(tasks))):
        part = [tasks[a:min(a + size, hi)] for a in range(lo, hi, size)]
        keyed += [((i + 0.5) / len(part), lo, ch) for i, ch in enumerate(part)]
    keyed.sort(key=lambda t: (t[0], t[1]))
    chunks = [ch for _, _, ch in keyed]
    skips = {}
    truncated = False
    ctx = multiprocessing.get_context("fork")
    pool = ctx.Pool(nproc)
    try:
        done = 0
        for res in pool.imap(work, chunks):
            done += 1
            for key, nt, evals, fails, skip in res:
                if skip:
                    skips[skip] = skips.get(skip, 0) + 1
                if key is None:
                    continue
                run.case(key, nontrivial=nt, n=evals)
                for clause, klass, inp, detail in fails:
                    run.fail(clause, klass, inp, detail)
            if time.time() > deadline:
                truncated = True
                break
    finally:
        pool.terminate()
        pool.join()
    # a few written-out samples
    for kind, payload in (tasks[0], tasks[n_a], tasks[n_a + n_b], tasks[-1]):
        run.samples.append({"kind": kind, "case": payload})
    run.exhaustive = False
    run.notes.append("part A (enumerated, %d base grids x 8 configurations) is complete for its stated lists; parts B (%d grids) "
                     "and C (%d write cycles, of which %d enumerated) are sampled with random.Random(1000003*seed+6)"
                     % (n_a, n_b, len(wc), len(wc) - n_c))
    if truncated:
        run.notes.append("TRUNCATED by the wall-clock guard after %d of %d chunks" % (done, len(chunks)))
    run.notes.append("left out on purpose: NaN/inf tokens in files; NaN in the index curve (the index is never NULL-replaced, so "
                     "a NaN there cannot survive write->read by design); single-row and single-column files, wrapped layouts whose "
                     "line lengths are uniform or that exceed 20 lines, data sections followed by other sections (C01/C02/C07 "
                     "defects would be re-reported here); header spellings outside [+-]digits[.digits][E[+-]digits]; "
                     "write cycles where a remaining sample equals the current NULL once formatted with fmt (lossy fmt, not C06); "
                     "other null policies (common/aggressive/all) and user-supplied dtypes")
    run.notes.append("under strict only the NaN mask is compared (values of non-NaN samples belong to C07), except NULL-equal index "
                     "samples which must equal float(token); under none every numeric sample must equal float(token); a numeric-looking "
                     "token inside a text column only has to stay a string with the same float value")
    run.notes.append("engine is the REQUESTED engine; lasio itself falls back to the normal engine for wrapped files, "
                     "null_policy != 'strict' and files with text")
    run.notes.append("skipped (reason: count): %s" % json.dumps(skips, sort_keys=True))
    return run


def replay_one(entry):
    inp = entry["input"]
    if inp["kind"] == "read":
        if inp["wrap"] and not wrap_ok(inp["rows"], inp["chunk"]):
            return False, "input outside the domain (wrapped layout)"
        fails, _ = check_read(inp)
    else:
        fails, _, skip, _ = check_write(inp)
        if skip:
            return False, "input outside the domain now: %s" % skip
    for clause, klass, detail in fails:
        if clause == entry["clause"]:
            return True, detail
    return False, "clause %s holds on this input now (other failures: %r)" % (entry["clause"], [f[0] for f in fails])


if __name__ == "__main__":
    main("C06", build_run, replay_one)
