"""C07 bounded stand-in / CPython cross-check: curves are rectangular and bound to
their own column.

Every generated file is a conformant LAS 2.0 text (~Version, ~Well, optionally
~Curves with d declared items, ~ASCII last) whose data cells carry their own
coordinates: |cell(i, j)| = 100*i + j + 0.5 (1-based row i, column j), so that any
shift / merge / reorder of columns is visible in the values.  The expected result
is constructed directly from (d, c, r); nothing of lasio is used by the oracle.

WRAP NO  : the complete statement is checked (every data line carries c values).
WRAP YES : only the unambiguous clauses - equal lengths, declared order/metadata -
           and, when each depth step is laid out by the LAS convention (index value
           alone on its own line, the other values on following lines) such that the
           lines do NOT all carry the same count and d == c, cell binding.
A read that raises is not a "successful read": it is tallied in the notes, never
reported as a failure.
"""
import os
import sys
sys.path.insert(0, os.path.dirname(os.path.abspath(__file__)))
from common import Run, main

import math
import random
import multiprocessing

import lasio

SIGNS = ("pos", "neg", "negidx", "negrow1")
ENGINES = ("numpy", "normal")
WRAPPED_LAYOUTS = ("flat", "conv1", "conv2", "conv3", "conv5", "fill2", "fill3")
D_RANGE = range(0, 6)
C_RANGE = range(1, 7)
SNIFF_LINES = 21          # inspect_data_section looks at the first 21 data lines


# ----------------------------------------------------------------------------
# construction of the input (pure function of the parameters)
# ----------------------------------------------------------------------------
def cell(i, j, sign):
    v = 100.0 * i + j + 0.5
    if sign == "neg" or (sign == "negidx" and j == 1) or (sign == "negrow1" and i == 1):
        v = -v
    return v


def declared(j):
    """(mnemonic, unit, value, descr) of the j-th declared curve, 1-based"""
    if j == 1:
        return ("DEPT", "M", "V1", "D1 index")
    return ("C%d" % j, "U%d" % j, "V%d" % j, "D%d text" % j)


def chunks(lst, w):
    return [lst[k:k + w] for k in range(0, len(lst), w)]


def data_groups(p):
    """list of data lines, each a list of tokens"""
    c, r, sign, layout = p["c"], p["r"], p["sign"], p["layout"]
    out = []
    for i in range(1, r + 1):
        toks = ["%.1f" % cell(i, j, sign) for j in range(1, c + 1)]
        if layout == "flat":
            out.append(toks)
        elif layout.startswith("conv"):
            out.append(toks[:1])
            out += chunks(toks[1:], int(layout[4:]))
        elif layout.startswith("fill"):
            out += chunks(toks, int(layout[4:]))
        else:
            raise ValueError(layout)
    return out


def build_text(p):
    d, r, sign = p["d"], p["r"], p["sign"]
    strt, stop = cell(1, 1, sign), cell(r, 1, sign)
    step = (stop - strt) / (r - 1) if r > 1 else 0.0
    t = ["~Version",
         "VERS.   2.0 : CWLS LOG ASCII STANDARD - VERSION 2.0",
         "WRAP.   %s : wrap mode" % p["wrap"],
         "~Well",
         "STRT.M  %.1f : start" % strt,
         "STOP.M  %.1f : stop" % stop,
         "STEP.M  %.1f : step" % step,
         "NULL.   -999.25 : null value"]
    if p["csec"]:
        t.append("~Curves")
        for j in range(1, d + 1):
            t.append("%s.%s  %s : %s" % declared(j))
    t.append("~ASCII")
    for g in data_groups(p):
        t.append(" " + "  ".join(g))
    if p.get("tail") == "P":
        # the data section is not the last one: a ~Parameter section follows it
        t += ["~Parameter", "RUN .   1 : run number"]
    return "\n".join(t) + "\n"


def shape_facts(p):
    groups = data_groups(p)
    uniform = len(set(len(g) for g in groups)) == 1
    hyph = all(any("-" in tok for tok in g) for g in groups)
    return groups, uniform, hyph


def klass_of(p):
    """narrow classification computed from the input alone"""
    groups, uniform, hyph = shape_facts(p)
    d, c, r = p["d"], p["c"], p["r"]
    cmp_ = "c<d" if c < d else ("c=d" if c == d else "c>d")
    return ("wrap=%s;layout=%s;uniform=%d;%s;d0=%d;csec=%d;c1=%d;r1=%d;hyphen_every_line=%d;"
            "lines>%d=%d;engine=%s%s"
            % (p["wrap"], p["layout"], uniform, cmp_, d == 0, p["csec"], c == 1, r == 1, hyph,
               SNIFF_LINES, len(groups) > SNIFF_LINES, p["engine"], ";A=before-P" if p.get("tail") == "P" else ""))


def key_of(p):
    return (p["wrap"], p["layout"], p["d"], p["c"], p["r"], p["sign"], p["csec"], p["engine"], p.get("tail", ""))


# ----------------------------------------------------------------------------
# the oracle
# ----------------------------------------------------------------------------
def as_float(x):
    try:
        return float(x)
    except Exception:
        return None


def same(x, expected):
    f = as_float(x)
    return f is not None and f == expected


def check_case(p):
    """returns ("raised", repr) or ("ok", [(clause, detail), ...])"""
    text = build_text(p)
    try:
        las = lasio.read(text, engine=p["engine"])
    except Exception as e:
        return "raised", "%s: %s" % (type(e).__name__, str(e).strip().splitlines()[-1][:120] if str(e).strip() else "")
    d, c, r, sign = p["d"], p["c"], p["r"], p["sign"]
    groups, uniform, hyph = shape_facts(p)
    curves = list(list.__iter__(las.curves))
    cols = []
    for cu in curves:
        try:
            cols.append(list(cu.data))
        except Exception:
            cols.append(None)
    lens = [None if x is None else len(x) for x in cols]
    shown = "lens=%r first-cells=%r" % (lens, [None if not x else x[:3] for x in cols][:7])
    bad = []

    # --- all curves have the same length (every file) ---
    if None in lens or len(set(lens)) > 1:
        bad.append(("all-curves-same-length", shown))

    # --- declared curves keep order and metadata (every file) ---
    got_meta = [(cu.original_mnemonic, cu.mnemonic, cu.unit, cu.value, cu.descr) for cu in curves[:d]]
    exp_meta = [(declared(j)[0],) + declared(j) for j in range(1, d + 1)]
    if got_meta != exp_meta:
        bad.append(("declared-order-and-metadata", "expected %r got %r" % (exp_meta, got_meta)))

    wrapped = p["wrap"] == "YES"
    full = not wrapped                       # unwrapped: every line carries c values
    binding = full or (p["layout"].startswith("conv") and not uniform and d == c)
    if not binding:
        return "ok", bad

    # --- value j of data line i is element i of curve j ---
    wrong = []
    for j in range(1, c + 1):
        if j > len(cols) or cols[j - 1] is None or len(cols[j - 1]) != r:
            wrong.append("curve %d: %s" % (j, "absent" if j > len(cols) else "length %r, expected %d" % (lens[j - 1], r)))
            continue
        for i in range(1, r + 1):
            if not same(cols[j - 1][i - 1], cell(i, j, sign)):
                wrong.append("curve %d element %d is %r, file has %r there" % (j, i, cols[j - 1][i - 1], cell(i, j, sign)))
                break
    if wrong:
        bad.append(("cell-binding", "; ".join(wrong[:3]) + " | " + shown))

    # --- no column merged away, none invented ---
    if len(curves) != max(d, c):
        bad.append(("curve-count-is-max-of-declared-and-columns", "expected %d curves, got %d: %r" % (max(d, c), len(curves), [cu.mnemonic for cu in curves])))

    if full:
        # --- surplus data columns become additional unnamed curves after the declared ones ---
        if c > d:
            extra = curves[d:c]
            names = [cu.original_mnemonic for cu in extra]
            if len(extra) != c - d or any(n.strip() != "" for n in names):
                bad.append(("surplus-columns-unnamed-after-declared", "expected %d unnamed curves at positions %d..%d, got original mnemonics %r (all session names %r)"
                            % (c - d, d, c - 1, names, [cu.mnemonic for cu in curves])))
        # --- declared curves that have no column are NaN of the common length ---
        if d > c:
            wrongn = []
            for j in range(c + 1, d + 1):
                if j > len(cols) or cols[j - 1] is None:
                    wrongn.append("curve %d absent" % j)
                elif len(cols[j - 1]) != r:
                    wrongn.append("curve %d has length %d, expected %d" % (j, len(cols[j - 1]), r))
                elif not all(isinstance(as_float(x), float) and math.isnan(as_float(x)) for x in cols[j - 1]):
                    wrongn.append("curve %d is %r, expected all NaN" % (j, cols[j - 1][:4]))
            if wrongn:
                bad.append(("missing-columns-nan-filled", "; ".join(wrongn[:3]) + " | " + shown))
    return "ok", bad


def work(p):
    try:
        status, res = check_case(p)
    except Exception as e:                  # a crash of the oracle itself must not look like a pass
        import traceback
        return p, "harness-error", traceback.format_exc()[-400:]
    return p, status, res


# ----------------------------------------------------------------------------
# enumeration
# ----------------------------------------------------------------------------
def space(r_values):
    for d in D_RANGE:
        for c in C_RANGE:
            for r in r_values:
                for sign in SIGNS:
                    csecs = (True, False) if d == 0 else (True,)
                    for csec in csecs:
                        for engine in ENGINES:
                            yield {"wrap": "NO", "layout": "flat", "d": d, "c": c, "r": r, "sign": sign, "csec": csec, "engine": engine}
                            for layout in WRAPPED_LAYOUTS:
                                yield {"wrap": "YES", "layout": layout, "d": d, "c": c, "r": r, "sign": sign, "csec": csec, "engine": engine}


def build_run(tier, seed):
    thorough = tier != "quick"
    rmax = 25 if thorough else 4
    run = Run("C07",
              "a case is non-trivial when the read returned and the data section holds >= 2 cells (r*c >= 2), i.e. a displacement "
              "would be visible; distinct by (wrap, layout, d, c, r, sign pattern, ~Curves present, engine)",
              "conformant LAS 2.0 texts: d declared curves x c data columns x r rows, cells = +-(100*row + col + 0.5); "
              "sign patterns %r; engines %r; WRAP NO (one line per row) and WRAP YES with layouts %r "
              "(convN = index alone on its line then N values per line, fillN = N values per line, flat = one line per row); "
              "for d = 0 both an empty ~Curves section and no ~Curves section" % (SIGNS, ENGINES, WRAPPED_LAYOUTS),
              "d in 0..5, c in 1..6, r in 1..%d enumerated completely%s" % (rmax, "" if thorough else "; plus a seeded sample of 600 cases with r in 5..25"))
    cases = list(space(range(1, rmax + 1)))
    # the same grid (unwrapped, first sign pattern) with ~A followed by another section
    cases += [dict(p, tail="P") for p in space(range(1, rmax + 1)) if p["wrap"] == "NO" and p["sign"] == SIGNS[0]]
    if not thorough:
        rnd = random.Random(seed)
        more = list(space(range(5, 26)))
        cases += rnd.sample(more, 600)
    nproc = 8 if thorough else 1
    if nproc > 1:
        with multiprocessing.Pool(nproc) as pool:
            results = pool.map(work, cases, chunksize=256)
    else:
        results = [work(p) for p in cases]

    raised = {}
    sample_keys = set()
    for p, status, res in results:
        if status == "harness-error":
            raise RuntimeError("oracle crashed on %r: %s" % (p, res))
        ok = status == "ok"
        sk = (p["wrap"], p["d"] < p["c"], p["d"] > p["c"])
        sample = None
        if ok and p["r"] == 2 and p["c"] >= 3 and p["layout"] in ("flat", "conv2") and sk not in sample_keys:
            sample_keys.add(sk)
            sample = {"params": p, "text": build_text(p)}
        run.case(key_of(p), nontrivial=ok and p["r"] * p["c"] >= 2, sample=sample)
        if not ok:
            groups, uniform, hyph = shape_facts(p)
            k = "wrap=%s/%s/hyph=%d/%s%s %s" % (
                p["wrap"], p["engine"], hyph, "c=d" if p["c"] == p["d"] else ("d=0" if p["d"] == 0 else "c!=d"),
                "/1x1" if p["r"] * p["c"] == 1 else "", res.split(":")[0])
            raised[k] = raised.get(k, 0) + 1
            continue
        for clause, detail in res:
            run.fail(clause, klass_of(p), p, detail)
    run.exhaustive = True
    run.notes.append("reads that raised are outside the statement ('after any successful read') and are not failures; tally: %s"
                     % ("; ".join("%s x%d" % (k, raised[k]) for k in sorted(raised)) or "none"))
    run.notes.append("WRAP YES: cell binding and curve count are checked only for convN layouts whose lines do not all carry the same "
                     "count and d == c; for every other wrapped shape only equal lengths and declared order/metadata are demanded")
    run.notes.append("left out: use_normal_engine_for_wrapped=False, NULL cells, comment/blank lines inside ~A, ~A not last (C02/C06/C19 territory), "
                     "non-space delimiters, duplicate or blank declared mnemonics (C13)")
    return run


def replay_one(entry):
    p = dict(entry["input"])
    status, res = check_case(p)
    if status != "ok":
        return False, "read raised now (%s): not a successful read, statement does not apply" % (res,)
    for clause, detail in res:
        if clause == entry["clause"]:
            return True, detail
    return False, "clause %s holds on this input now (other failures: %r)" % (entry["clause"], [c for c, _ in res])


if __name__ == "__main__":
    main("C07", build_run, replay_one)
