"""C08 bounded stand-in / CPython cross-check: header values become numbers only
when they are numeric literals.

Part 1 (num): every stripped ASCII string up to a length bound over the 19-symbol
alphabet  0 1 5 9 + - . , e E _ blank a x n i f / :  is passed to the real
lasio.reader.SectionParser('~Well', version=2.0).num and the outcome (type and
value) is compared with a literal recogniser written from the statement:

  MUST      [+-]?D+([.,]D+)?([eE][+-]?D+)?      (D = ASCII digit), finite, non-zero
            values that neither overflow nor underflow binary64
              - sign+digits only and inside the signed 64-bit range -> an integer
                type, equal to the literal
              - everything else -> a float type, equal to the correctly rounded
                value of the literal (computed with exact rationals; one ulp of
                slack is allowed)
  KEEP      everything outside the generous grammar
            [+-]?(D+[.,]?D*|[.,]D+)([eE][+-]?D+)?  -> the identical str
  BAND      generous but not MUST ('5.', '.5', '5,', ...) and MUST literals whose
            value overflows / underflows binary64 ('1e999'): don't care; only "a str
            result must be the identical text" is asked.

Strings with a leading or trailing blank are not generated: read() strips every
field before num() sees it.

Part 2 (end to end): lasio.read() on generated files, sections ~Version, ~Well,
~Parameter, a custom section (~Tops) and ~Curves (API-code position), mnemonics
incl. API/UWI in several casings and two near-miss names, mnemonic_case
preserve/upper/lower, VERS 1.2 and 2.0.  In 1.2 ~Well the value under test is
written after the colon (that is where the 1.2 value lives)."""
import sys
import os
sys.path.insert(0, os.path.dirname(os.path.abspath(__file__)))
from common import Run, main

import itertools
import math
import multiprocessing
import random
import re
from fractions import Fraction

import numpy as np
import lasio
import lasio.reader

ALPHA = "0159+-.,eE_ axnif/:"
NONBLANK = [c for c in ALPHA if c != " "]
NUMERIC = "0159+-.,eE_"
ALPHA_E2E = [c for c in ALPHA if c != ":"]
NONBLANK_E2E = [c for c in ALPHA_E2E if c != " "]

# ----------------------------------------------------------------- the oracle

MUST_RE = re.compile(r"([+-]?)([0-9]+)(?:[.,]([0-9]+))?(?:[eE]([+-]?)([0-9]+))?")
GEN_RE = re.compile(r"[+-]?(?:[0-9]+[.,]?[0-9]*|[.,][0-9]+)(?:[eE][+-]?[0-9]+)?")
DEGROUP_RE = re.compile(r"(?<=[0-9])_(?=[0-9])")
HAS_DIGIT = re.compile(r"[0-9]")
SPECIAL_WORDS = {"inf", "nan", "infinity"}
I64_MIN, I64_MAX = -(2 ** 63), 2 ** 63 - 1


def dec(digits):
    n = 0
    for c in digits:
        n = n * 10 + (ord(c) - 48)
    return n


def classify(s):
    """-> (cls, expected) with cls in must-int / must-bigint / must-float / band / keep"""
    m = MUST_RE.fullmatch(s)
    if m is None:
        if GEN_RE.fullmatch(s) is not None:
            return "band", None
        return "keep", None
    sign, ip, fp, esign, ex = m.groups()
    neg = sign == "-"
    if fp is None and ex is None:
        n = dec(ip)
        if neg:
            n = -n
        if I64_MIN <= n <= I64_MAX:
            return "must-int", n
        try:
            f = float(Fraction(n))
        except OverflowError:
            return "band", None
        return "must-bigint", f
    digits = ip + (fp or "")
    mant = dec(digits)
    e10 = (dec(ex) if ex else 0)
    if esign == "-":
        e10 = -e10
    e10 -= len(fp or "")
    if mant == 0:
        return "must-float", 0.0
    magnitude = len(digits.lstrip("0")) + e10
    if magnitude > 320 or magnitude < -340:
        return "band", None          # overflows / underflows binary64: "finite value" is arguable
    if e10 >= 0:
        val = Fraction(mant * 10 ** e10)
    else:
        val = Fraction(mant, 10 ** (-e10))
    try:
        f = float(val)
    except OverflowError:
        return "band", None
    if f == 0.0 or math.isinf(f) or abs(f) < 2.3e-308:
        return "band", None          # underflow to zero / subnormal: leave out
    return "must-float", (-f if neg else f)


def is_int(x):
    return isinstance(x, (int, np.integer)) and not isinstance(x, (bool, np.bool_))


def is_float(x):
    return isinstance(x, (float, np.floating))


def near(a, b):
    a = float(a)
    if a == b:
        return True
    return a == math.nextafter(b, math.inf) or a == math.nextafter(b, -math.inf)


def show(x):
    return "%s %r" % (type(x).__name__, x)


def check_value(s, got, cls=None, exp=None):
    """the clauses of the general rule on one (text, outcome); None or (clause, detail)"""
    if cls is None:
        cls, exp = classify(s)
    if cls == "keep":
        if isinstance(got, str) and got == s:
            return None
        return "non-literal-kept-verbatim", "%r -> %s" % (s, show(got))
    if cls == "band":
        if isinstance(got, str) and got != s:
            return "non-literal-kept-verbatim", "%r -> altered str %r" % (s, got)
        return None
    if isinstance(got, str) or not (is_int(got) or is_float(got)):
        return "literal-becomes-number", "%r -> %s" % (s, show(got))
    if cls == "must-int":
        if not is_int(got):
            return "integer-literal-fitting-64-bits-becomes-integer", "%r -> %s" % (s, show(got))
        if int(got) != exp:
            return "numerically-equal-to-literal", "%r -> %s, literal is %d" % (s, show(got), exp)
        return None
    if not is_float(got):
        return "other-literals-become-floats", "%r -> %s" % (s, show(got))
    if not near(got, exp):
        return "numerically-equal-to-literal", "%r -> %s, literal rounds to %r" % (s, show(got), exp)
    return None


def value_klass(s, cls=None):
    """shape of the text, from the text alone"""
    if cls is None:
        cls = classify(s)[0]
    cats, letters, other = set(), set(), set()
    for ch in s:
        if "0" <= ch <= "9":
            cats.add("d")
        elif ch in "+-":
            cats.add("sg")
        elif ch == ".":
            cats.add("dot")
        elif ch == ",":
            cats.add("com")
        elif ch in "eE":
            cats.add("exp")
        elif ch == "_":
            cats.add("us")
        elif ch == " ":
            cats.add("bl")
        elif ch == "/":
            cats.add("sl")
        elif ch == ":":
            cats.add("col")
        elif ch.isalpha() and ch.isascii():
            letters.add(ch.lower())
        else:
            other.add("%02x" % ord(ch))
    degroup = 0
    if "_" in s:
        degroup = 1 if GEN_RE.fullmatch(DEGROUP_RE.sub("", s)) is not None else 0
    k = "class=%s;chars=%s;letters=%s;degroup=%d" % (cls, "+".join(sorted(cats)), "".join(sorted(letters)), degroup)
    if other:
        k += ";other=" + "+".join(sorted(other))
    if not s:
        k += ";empty=1"
    return k


def nontrivial_text(s):
    if HAS_DIGIT.search(s) is not None:
        return True
    return s.lstrip("+-").lower() in SPECIAL_WORDS


# ----------------------------------------------------------------- part 1: num()

PARSER = lasio.reader.SectionParser("~Well", version=2.0)
MAXEX = 3


class Acc:
    """per-worker accumulator, merged deterministically in task order"""

    def __init__(self):
        self.n = 0
        self.nontrivial = 0
        self.fails = {}     # (clause, klass) -> [count, [(input, detail)...]]
        self.cls = {}
        self.raised = 0

    def fail(self, clause, klass, inp, detail):
        e = self.fails.setdefault((clause, klass), [0, []])
        e[0] += 1
        if len(e[1]) < MAXEX:
            e[1].append((inp, detail))

    def pack(self):
        return (self.n, self.nontrivial, self.fails, self.cls, self.raised)


def num_one(acc, s):
    try:
        got = PARSER.num(s)
    except Exception as e:       # num() swallows everything; a raise is a failure of either clause
        got = e
    acc.n += 1
    if GEN_RE.fullmatch(s) is None:
        cls, exp = "keep", None
        if HAS_DIGIT.search(s) is not None or s.lstrip("+-").lower() in SPECIAL_WORDS:
            acc.nontrivial += 1
        if got is s:
            return
    else:
        cls, exp = classify(s)
        acc.nontrivial += 1
        acc.cls[cls] = acc.cls.get(cls, 0) + 1
    bad = check_value(s, got, cls, exp)
    if bad is not None:
        acc.fail(bad[0], "num;" + value_klass(s, cls), {"kind": "num", "s": s}, bad[1])


def num_chunk(task):
    L, prefix = task
    acc = Acc()
    rest = L - len(prefix)
    if rest == 0:
        num_one(acc, prefix)
        return acc.pack()
    for t in itertools.product(ALPHA, repeat=rest):
        if t[-1] == " ":
            continue
        s = prefix + "".join(t)
        if s[0] == " ":
            continue
        num_one(acc, s)
    return acc.pack()


def num_list(strings):
    acc = Acc()
    for s in strings:
        num_one(acc, s)
    return acc.pack()


def num_tasks(maxlen):
    tasks = [(0, "")]
    for L in range(1, maxlen + 1):
        if L <= 3:
            tasks.append((L, ""))
        else:
            for a in NONBLANK:
                for b in ALPHA:
                    tasks.append((L, a + b))
    return tasks


def space_size(maxlen):
    n = 1
    for L in range(1, maxlen + 1):
        n += len(NONBLANK) if L == 1 else len(NONBLANK) ** 2 * len(ALPHA) ** (L - 2)
    return n


CURATED = [
    # the statement's own examples and their neighbours
    "15_9", "12-34-12-34W5M", "inf", "nan", "-inf", "+inf", "Inf", "INF", "NaN", "NAN", "-nan", "+NaN",
    "infinity", "Infinity", "-Infinity", "+INFINITY", "0x1F", "0X1f", "0x10", "-0x1", "0b101", "0o17", "1f", "1F", "0x1p3",
    "1_000", "1_000_000", "1e1_0", "1_0e1", "1_5.9", "1.5_9", "1_5,9", "1,5_9", "-1_5", "+1_5", "0_0", "00_15",
    "1__0", "_1", "1_", "1_.5", "1._5", "1e_1", "1_e1", "_", "__",
    "2011/05/09", "09/05/2011", "15/9/99", "2011-05-09", "09-05-2011", "15-Sep-1999", "5-9", "1-1-1",
    "13:45", "01:05:09", "9:15", "13:45:00.5", "2011-05-09T13:45:00",
    "100/01-02-003-04W5/00", "05-099-00150", "0015", "007", "00", "000", "-007", "+007", "0.50", "00.5",
    "05099900150000", "42051200150000",
    "9223372036854775807", "9223372036854775808", "-9223372036854775808", "-9223372036854775809",
    "+9223372036854775807", "09223372036854775807", "18446744073709551615", "18446744073709551616",
    "99999999999999999999", "123456789012345678901234567890",
    "1e308", "1.7976931348623157e308", "1e309", "1e-308", "1e-400", "1e999999", "0e999999", "-0", "-0.0", "0,0",
    "1e+05", "1E-05", "1,5e+1", "1,5E-1", "-1,5", "+1,5", "1.5e1,5", "1,5,9", "1.5.9", "1,5.9", "1.5,9", "1,,5", "1..5",
    "1 5", "1 000", "1e 5", "- 5", "+ 5", "1 e5", "1. 5", "1 ,5", "1, 5",
    "5.", ".5", "5,", ",5", "5.e1", ".5e1", "-.5", "+5.", ".", ",", "-", "+", "e", "E", "e5", "E5", "1e", "1e+", "1e-", ".e1", "-e1",
    "--5", "++5", "+-5", "5-", "5+", "1e5e5", "1e1.5", "1e++1", "1d5", "1D5", "1.5f", "1L", "1l", "1j",
    "0.1", "0.3", "1.1", "2.675", "0.1e1", "123456789.123456789", "1.0000000000000002", "4.35", "1e23", "8.41e21", "5e-324", "2.5e-324",
    "TRUE", "true", "None", "NULL", "-999.25", "-999,25", "N/A", "",
]


def sample_strings(rng, n, lengths, alphabet, nonblank):
    """literal-biased strings: a literal skeleton with random edits"""
    digits = "0159"
    out = set()
    tries = 0
    while len(out) < n and tries < 20 * n:
        tries += 1
        L = rng.choice(lengths)
        mode = rng.random()
        if mode < 0.25:
            s = "".join(rng.choice(alphabet) for _ in range(L))
        else:
            parts = [rng.choice(["", "", "+", "-"]), "".join(rng.choice(digits) for _ in range(rng.randint(1, 3)))]
            if rng.random() < 0.5:
                parts += [rng.choice(".,"), "".join(rng.choice(digits) for _ in range(rng.randint(0, 2)))]
            if rng.random() < 0.4:
                parts += [rng.choice("eE"), rng.choice(["", "+", "-"]), "".join(rng.choice(digits) for _ in range(rng.randint(0, 2)))]
            s = list("".join(parts))
            for _ in range(rng.choice([0, 1, 1, 2])):
                pos = rng.randint(0, len(s))
                if rng.random() < 0.5 and s:
                    s[min(pos, len(s) - 1)] = rng.choice(alphabet)
                else:
                    s.insert(pos, rng.choice(alphabet))
            s = "".join(s)[:max(lengths)]
        s = s.strip(" ")
        if len(s) in lengths:
            out.add(s)
    return sorted(out)


# ----------------------------------------------------------------- part 2: read()

MNEMONICS = ["XX", "API", "UWI", "Api", "uwi", "aPI", "uWi", "APIN", "XUWI"]
CASES = ("preserve", "upper", "lower")
VERSIONS = ("1.2", "2.0")
SECTIONS = ("Version", "Well", "Parameter", "Tops")
CF = {"preserve": lambda x: x, "upper": str.upper, "lower": str.lower}


def name_kind(m):
    if m in ("API", "UWI"):
        return "exact"
    if m.upper() in ("API", "UWI"):
        return "othercase"
    if "API" in m.upper() or "UWI" in m.upper():
        return "nearmiss"
    return "plain"


def text_for(m, v, version):
    t = ["~Version", "VERS.   %s : v" % version, "WRAP.   NO : w", "%s.   %s : d" % (m, v),
         "~Well", "STRT.M   1 : s", "STOP.M   2 : s", "STEP.M   1 : s", "NULL.   -999.25 : n"]
    t.append("%s.   %s : d" % (m, v) if version == "2.0" else "%s.   d : %s" % (m, v))
    t += ["~Curves", "DEPT.M   : depth", "CRV.U   %s : d" % v,
          "~Params", "%s.   %s : d" % (m, v),
          "~Tops", "%s.   %s : d" % (m, v),
          "~ASCII", "1.0 5.0", "2.0 6.0"]
    return "\n".join(t) + "\n"


def e2e_file(v, m, case, version):
    """-> ('raised', repr) | list of (section, clause, klass, detail) failures, list of skipped"""
    las = lasio.read(text_for(m, v, version), mnemonic_case=case)
    cls, exp = classify(v)
    vk = value_klass(v, cls)
    nk = name_kind(m)
    fails, skipped = [], []
    for sec in SECTIONS + ("Curves",):
        if sec == "Curves" and (".." in v or ":" in v):
            continue       # '..' switches the ~Curves name pattern, ':' the field split: header-line grammar (C04)
        try:
            item = list.__getitem__(las.sections[sec], -1)
        except Exception as e:
            skipped.append((sec, "no item: %r" % (e,)))
            continue
        want_name = CF[case]("CRV" if sec == "Curves" else m)
        if item.original_mnemonic != want_name or item.descr != "d":
            skipped.append((sec, "line split differently: name=%r descr=%r" % (item.original_mnemonic, item.descr)))
            continue
        got = item.value
        kl = "e2e;sec=%s;name=%s;mcase=%s;vers=%s;%s" % (sec, nk, case, version, vk)
        if sec == "Curves":
            if not (isinstance(got, str) and got == v):
                fails.append((sec, "curve-api-code-never-converted", kl, "%r -> %s" % (v, show(got))))
        elif sec != "Parameter" and m.upper() in ("API", "UWI"):
            if not (isinstance(got, str) and got == v):
                fails.append((sec, "api-uwi-kept-verbatim", kl, "%s = %r -> %s" % (m, v, show(got))))
        else:
            bad = check_value(v, got, cls, exp)
            if bad is not None:
                fails.append((sec, bad[0], kl, "%s: %s" % (m, bad[1])))
    return fails, skipped


PAIRS = [(c, ver) for c in CASES for ver in VERSIONS]


def e2e_chunk(values):
    acc = Acc()
    skipped = {}
    for v, pair_ix in values:
        nt = nontrivial_text(v)
        for m in MNEMONICS:
            for pi in pair_ix:
                for case, version in (PAIRS[pi],):
                    acc.n += 1
                    if nt:
                        acc.nontrivial += 1
                    try:
                        fails, sk = e2e_file(v, m, case, version)
                    except Exception as e:
                        acc.raised += 1
                        skipped.setdefault("read raised %s" % type(e).__name__, [0, v])[0] += 1
                        continue
                    for sec, why in sk:
                        skipped.setdefault("%s: %s" % (sec, why.split(":")[0]), [0, v])[0] += 1
                    for sec, clause, kl, detail in fails:
                        acc.fail(clause, kl, {"kind": "e2e", "value": v, "mnemonic": m, "case": case,
                                              "version": version, "section": sec}, detail)
    return acc.pack() + (skipped,)


def e2e_values(tier, rng):
    """-> [(value, indices into PAIRS)]: the full mnemonic_case x version cross for the curated values and the
    short ones, a rotating subset (2 of 6 quick, 3 of 6 thorough) for the bulk"""
    quick = tier == "quick"
    vals = [""]
    maxlen = 2 if quick else 3
    full_len = 1 if quick else 2
    for L in range(1, maxlen + 1):
        for t in itertools.product(ALPHA_E2E, repeat=L):
            if t[0] == " " or t[-1] == " ":
                continue
            vals.append("".join(t))
    seen = set(vals)
    for s in CURATED:
        if ":" not in s and s not in seen and s == s.strip():
            seen.add(s)
            vals.append(s)
    nsample = 200 if tier == "quick" else 2000
    for s in sample_strings(rng, nsample, [3, 4, 5, 6] if tier == "quick" else [4, 5, 6, 7], ALPHA_E2E, NONBLANK_E2E):
        if s not in seen:
            seen.add(s)
            vals.append(s)
    curated = set(CURATED)
    out = []
    for i, v in enumerate(vals):
        if v in curated or len(v) <= full_len:
            out.append((v, list(range(6))))
        elif quick:
            out.append((v, [i % 6, (i + 3) % 6]))
        else:
            out.append((v, [i % 6, (i + 3) % 6, (i + 4) % 6]))
    return out


TIMES = ["13:45", "01:05:09", "23:59", "10:30:00"]


def time_case(v, m, case, version):
    """times in ~Parameter only (the one section whose line grammar provides for them)"""
    text = "\n".join(["~Version", "VERS.   %s : v" % version, "WRAP.   NO : w",
                      "~Well", "STRT.M   1 : s", "STOP.M   2 : s", "STEP.M   1 : s", "NULL.   -999.25 : n",
                      "~Curves", "DEPT.M   : depth", "CRV.U   : d",
                      "~Params", "%s.   %s : d" % (m, v), "~ASCII", "1.0 5.0", "2.0 6.0"]) + "\n"
    las = lasio.read(text, mnemonic_case=case)
    item = list.__getitem__(las.sections["Parameter"], -1)
    if item.original_mnemonic != CF[case](m) or item.descr != "d":
        return None
    return check_value(v, item.value)


# ----------------------------------------------------------------- driver

class Run2(Run):
    extra_nontrivial = 0

    def result(self, tier, seed):
        r = Run.result(self, tier, seed)
        r["distinct_nontrivial"] += self.extra_nontrivial
        return r


def merge(run, packed, cls_total):
    n, nt, fails, cls, raised = packed[:5]
    run.evaluations += n
    run.extra_nontrivial += nt
    for c, k in cls.items():
        cls_total[c] = cls_total.get(c, 0) + k
    for (clause, klass) in sorted(fails):
        count, ex = fails[(clause, klass)]
        key = "%s|%s" % (clause, klass)
        before = run.counts.get(key, 0)
        for inp, detail in ex:
            run.fail(clause, klass, inp, detail)
        run.counts[key] = before + count
    return raised


def chunks(lst, n):
    return [lst[i:i + n] for i in range(0, len(lst), n)]


def build_run(tier, seed):
    quick = tier == "quick"
    maxlen = 4 if quick else 6
    workers = 4 if quick else 16
    run = Run2("C08",
               "one case = one distinct text (num part) or one distinct (text, mnemonic, mnemonic_case, VERS) file (read part); "
               "non-trivial when the text contains an ASCII digit or is a signed inf/nan/infinity word, i.e. could "
               "conceivably be taken for a number; enumeration is without repetition so the count is a count of distinct cases",
               "stripped ASCII strings over the alphabet %r through SectionParser.num; generated LAS 1.2/2.0 files through lasio.read" % ALPHA,
               "num: every stripped string of length <= %d (%d strings)%s + curated + literal-biased samples up to length 8; "
               "read: every ':'-free stripped string of length <= %d + curated + samples, x %d mnemonics x mnemonic_case x version "
               "(full 3x2 cross for curated and short values, rotating subset for the bulk)"
               % (maxlen, space_size(maxlen), " + every length-5 string over 0159+-.,eE_ + 100000 other length-5 strings" if quick else "",
                  2 if quick else 3, len(MNEMONICS)))
    rng = random.Random(seed * 7919 + 8)
    cls_total = {}
    ctx = multiprocessing.get_context("fork")
    with ctx.Pool(workers) as pool:
        # part 1a: exhaustive
        for packed in pool.imap(num_chunk, num_tasks(maxlen), chunksize=4):
            merge(run, packed, cls_total)
        n_exh = run.evaluations
        if quick:
            # length 5: the sub-alphabet in which every literal and every digit-group shape lives, completely;
            # the rest of length 5 by a seeded sample
            five = ["".join(t) for t in itertools.product(NUMERIC, repeat=5)]
            other = set()
            while len(other) < 100000:
                t = "".join(rng.choice(ALPHA) for _ in range(5))
                if t[0] != " " and t[-1] != " " and any(c not in NUMERIC for c in t):
                    other.add(t)
            five += sorted(other)
            for packed in pool.imap(num_list, chunks(five, 5000), chunksize=1):
                merge(run, packed, cls_total)
        # part 1b: curated + sampled longer strings (distinct from 1a by length or by the set)
        cur = sorted(set(s for s in CURATED if s == s.strip(" ") and (len(s) > maxlen or any(c not in ALPHA for c in s))))
        merge(run, num_list(cur), cls_total)
        longer = sample_strings(rng, 150000 if quick else 1000000, list(range(max(maxlen, 5) + 1, 9)), ALPHA, NONBLANK)
        curset = set(cur)
        longer = [s for s in longer if s not in curset]
        for packed in pool.imap(num_list, chunks(longer, 5000), chunksize=1):
            merge(run, packed, cls_total)
        n_num = run.evaluations
        # part 2: end to end
        vals = e2e_values(tier, rng)
        skipped_total = {}
        raised = 0
        for packed in pool.imap(e2e_chunk, chunks(vals, 8), chunksize=1):
            raised += merge(run, packed, {})
            for k, (c, ex) in packed[5].items():
                e = skipped_total.setdefault(k, [0, ex])
                e[0] += c
    # times, ~Parameter only
    n_time = 0
    for v in TIMES:
        for m in ("XX", "TIME", "API"):
            for case in CASES:
                for version in VERSIONS:
                    n_time += 1
                    try:
                        bad = time_case(v, m, case, version)
                    except Exception as e:
                        raised += 1
                        continue
                    run.case(("time", v, m, case, version), nontrivial=True)
                    if bad is not None:
                        run.fail(bad[0], "e2e;sec=Parameter;name=%s;mcase=%s;vers=%s;%s" % (name_kind(m), case, version, value_klass(v)),
                                 {"kind": "time", "value": v, "mnemonic": m, "case": case, "version": version}, bad[1])
    run.exhaustive = True
    run.samples = [
        {"kind": "num", "s": "1,5e-1", "oracle": list(classify("1,5e-1"))},
        {"kind": "num", "s": "15_9", "oracle": list(classify("15_9"))},
        {"kind": "num", "s": "5.", "oracle": list(classify("5."))},
        {"kind": "num", "s": "9223372036854775808", "oracle": list(classify("9223372036854775808"))},
        {"kind": "e2e", "value": "0015", "mnemonic": "Api", "case": "lower", "version": "1.2", "text": text_for("Api", "0015", "1.2")},
    ]
    run.notes.append("num: %d strings enumerated exhaustively (length <= %d, stripped), %d more curated/sampled (length <= 8 sampled%s; curated up to 30 chars); "
                     "`exhaustive` refers to the length <= %d space" % (n_exh, maxlen, n_num - n_exh, ", incl. all of length 5 over 0159+-.,eE_" if quick else "", maxlen))
    run.notes.append("oracle classes among strings inside the generous grammar: %s" % (sorted(cls_total.items()),))
    run.notes.append("read: %d values x %d mnemonics x (2..6 of the 3 x 2 mnemonic_case/version pairs) = %d files, 4 header sections + the ~Curves API-code position checked per file; "
                     "%d time values in ~Parameter" % (len(vals), len(MNEMONICS), sum(len(p) for _, p in vals) * len(MNEMONICS), n_time))
    run.notes.append("don't-care band (no demand beyond 'a str result is the identical text'): '5.' '.5' '5,' ',5' forms, literals that overflow/underflow binary64 (1e999, 1e-400)")
    run.notes.append("left out: non-ASCII text (statement quantifies over ASCII), strings with surrounding blanks (stripped before num), "
                     "':' in end-to-end values except hh:mm[:ss] times in ~Parameter (C04), '..' values in the ~Curves position (C04 name pattern); "
                     "float equality allows one ulp")
    t = os.times()
    run.notes.append("cpu seconds (this process + workers): %.0f; wall figures depend on machine load, %d workers" % (t[0] + t[1] + t[2] + t[3], workers))
    if raised or skipped_total:
        run.notes.append("not judged (header-line grammar, not C08): read raised %d times; skipped %s" % (raised, sorted((k, v[0], v[1]) for k, v in skipped_total.items())))
    return run


def replay_one(entry):
    inp = entry["input"]
    want = entry["clause"]
    if inp["kind"] == "num":
        try:
            got = PARSER.num(inp["s"])
        except Exception as e:
            got = e
        bad = check_value(inp["s"], got)
        if bad is not None and bad[0] == want:
            return True, bad[1]
        return False, "clause %s holds on %r now (outcome %s, other: %r)" % (want, inp["s"], show(got), bad)
    if inp["kind"] == "time":
        try:
            bad = time_case(inp["value"], inp["mnemonic"], inp["case"], inp["version"])
        except Exception as e:
            return False, "read raised %r" % (e,)
        if bad is not None and bad[0] == want:
            return True, bad[1]
        return False, "clause %s holds now (other: %r)" % (want, bad)
    try:
        fails, sk = e2e_file(inp["value"], inp["mnemonic"], inp["case"], inp["version"])
    except Exception as e:
        return False, "read raised %r" % (e,)
    for sec, clause, kl, detail in fails:
        if clause == want and sec == inp.get("section", sec):
            return True, detail
    return False, "clause %s holds on this file now (other failures: %r, skipped: %r)" % (want, fails, sk)


if __name__ == "__main__":
    main("C08", build_run, replay_one)
