"""C09 bounded stand-in / CPython cross-check: reading is invariant under
presentation-only changes of the text.

Metamorphic harness.  Base texts = generated small LAS files (1.2 / 2.0 / 3.0-style
with DLM SPACE|TAB|COMMA, wrapped and unwrapped) + the readable files of
tests/examples (top level, 1.2/, 2.0/).  Each case applies a composition of 1-3
presentation-only transformations to the base text and demands

    read(base) == read(transformed)      (same engine, same input channel)

on header items (mnemonic, unit, value, descr per section, in order), on the text
sections up to the per-line stripping lasio documents, and on the curve data
(NaN-aware).  The oracle is the relation itself; nothing of lasio is used to build
the transformed text or to classify a case (own line model, own header-line
grammar, own tokenisers).

Transformations (all explicit in the reported input; no randomness at apply time):
  ins      insert blank / whitespace-only / '#' comment lines at a position of a
           header (~V ~W ~C ~P, user-defined) or data (~A) section
  pad      change the blanks/tabs before and after lines (title, header, ~O, data)
  gap      change the blanks/tabs between the fields of a header line
           (name-dot, unit-value (>=1 kept), value-colon, colon-descr)
  redelim  re-delimit the data lines with the declared delimiter
           (SPACE: runs of blanks/tabs; TAB, COMMA: exactly one delimiter per
           boundary, with or without padding blanks)
  rewrap   re-wrap the data of a WRAP=YES file at token boundaries inside each depth
           step (1 value per line .. all values of the step on one line)
  eol      LF <-> CRLF (whole file)         fnl   drop / add the final newline
"""
import sys
import os
sys.path.insert(0, os.path.dirname(os.path.abspath(__file__)))
from common import Run, main, REPO

import glob
import hashlib
import itertools
import json
import random
import re
import shutil
import tempfile
import time
import warnings
import zlib

import numpy as np
import lasio

warnings.filterwarnings("ignore")

PROP = "C09"
WS = " \t"
HEADER_KINDS = "VWCPX"
RANK = {"rewrap": 0, "redelim": 1, "gap": 2, "pad": 3, "ins": 4, "eol": 5, "fnl": 6}
GAPS = ("name-dot", "unit-value", "value-colon", "colon-descr")


# --------------------------------------------------------------------------- model
def parse_doc(text):
    """text -> list of [body, eol]; eol is LF, CRLF or '' (last line without newline)"""
    out, i = [], 0
    for m in re.finditer(r"\r\n|\n", text):
        out.append([text[i:m.start()], m.group()])
        i = m.end()
    if i < len(text):
        out.append([text[i:], ""])
    return out


def doc_text(doc):
    return "".join(b + e for b, e in doc)


def dominant_eol(doc):
    n_crlf = sum(1 for _, e in doc if e == "\r\n")
    n_lf = sum(1 for _, e in doc if e == "\n")
    return "\r\n" if n_crlf > n_lf else "\n"


def find_sections(doc):
    """[(title_index, end_index_exclusive, stripped_title)]"""
    t = [(i, b.strip()) for i, (b, _) in enumerate(doc) if b.strip().startswith("~")]
    out = []
    for k, (i, s) in enumerate(t):
        out.append((i, t[k + 1][0] if k + 1 < len(t) else len(doc), s))
    return out


# own grammar of a conformant header line:  [b]MNEM[b].UNIT b+ [VALUE] [b]:[b][DESCR][b]
HL = re.compile(
    r"^(?P<lead>[ \t]*)(?P<name>[^\s.:~#][^\s.:]*)(?P<g1>[ \t]*)\.(?P<unit>[^\s.:]*)"
    r"(?P<g2>[ \t]+)(?P<value>[^:]*?)(?P<g3>[ \t]*):(?P<g4>[ \t]*)(?P<descr>[^:]*?)(?P<trail>[ \t]*)$"
)


def header_line_fields(body):
    """fields of a line that is inside the conformant grammar handled by `gap`, else None"""
    if body.count(":") != 1 or ".." in body:
        return None
    if any(ord(c) < 32 and c != "\t" for c in body) or any(ord(c) > 126 for c in body):
        return None
    m = HL.match(body)
    if not m:
        return None
    return m.groupdict()


def is_blank(body):
    return body.strip() == ""


def is_comment(body):
    return body.strip().startswith("#")


def is_num(tok):
    try:
        float(tok)
        return True
    except ValueError:
        return False


def tokens_of(body, dlm):
    """own tokeniser of a data line; None when the line is outside the simple grammar"""
    s = body.strip()
    if '"' in s or "'" in s:
        return None
    if dlm == "SPACE":
        toks = s.split()
    elif dlm == "COMMA":
        toks = [t.strip(WS) for t in s.split(",")]
    else:
        toks = [t.strip(WS) for t in s.strip(" ").split("\t")]
    for t in toks:
        if t == "" or any(c in t for c in " \t,") and dlm != "SPACE":
            return None
    return toks


def analyze(text):
    """everything the planner / classifier needs, computed from the text alone"""
    doc = parse_doc(text)
    secs = find_sections(doc)
    A = {"nsec": len(secs), "secs": [], "ok": True, "why": ""}
    if "\r" in text.replace("\r\n", ""):
        A["ok"], A["why"] = False, "lone CR"
    wrap, dlm, ncurves = "?", "-", 0
    for (ti, end, title) in secs:
        content = [doc[j][0] for j in range(ti + 1, end)]
        real = [b for b in content if not is_blank(b) and not is_comment(b)]
        c2 = title[1:2]
        if title[:2] == "~A":
            kind = "A"
        elif title[:2] == "~O":
            kind = "O"
        elif "_" in title:
            kind = "Z"
        elif c2 in ("V", "W", "C", "P"):
            kind = c2
        elif real and all(header_line_fields(b) is not None for b in real):
            kind = "X"          # user-defined section made of conformant header lines
        else:
            kind = "Z"          # opaque: never touched
        A["secs"].append({"kind": kind, "n": len(content)})
        if kind == "V":
            for b in real:
                m = re.match(r"^\s*WRAP\s*\.\s+(YES|NO)\s*:", b)
                if m:
                    wrap = "Y" if m.group(1) == "YES" else "N"
                m = re.match(r"^\s*DLM\s*\.\s+(SPACE|TAB|COMMA)\s*:", b)
                if m:
                    dlm = m.group(1)
        if kind == "C":
            ncurves = len(real)
    A["wrap"], A["dlm"], A["ncurves"] = wrap, dlm, ncurves
    eff = "SPACE" if dlm == "-" else dlm
    A["eff_dlm"] = eff
    a_idx = [i for i, s in enumerate(A["secs"]) if s["kind"] == "A"]
    A["a_idx"] = a_idx
    alast = "1" if (len(a_idx) == 1 and a_idx[0] == len(secs) - 1) else "0"
    if len(a_idx) != 1:
        alast = "n%d" % len(a_idx)
    # data layout
    counts, strs, hy, nlines, tok_ok, has_comment, pads = [], False, 0, 0, True, False, set()
    stream = 0
    for i in a_idx:
        ti, end, _ = secs[i]
        for j in range(ti + 1, end):
            b = doc[j][0]
            if is_blank(b):
                continue
            if is_comment(b):
                has_comment = True
                continue
            nlines += 1
            if "-" in b:
                hy += 1
            toks = tokens_of(b, eff)
            if toks is None:
                tok_ok = False
                counts.append(-1)
                continue
            counts.append(len(toks))
            stream += len(toks)
            if any(not is_num(t) for t in toks):
                strs = True
            if eff in ("COMMA", "TAB"):
                D = "," if eff == "COMMA" else "\t"
                s = b.strip()
                for m in re.finditer(re.escape(D), s):
                    bef = m.start() > 0 and s[m.start() - 1] == " "
                    aft = m.end() < len(s) and s[m.end()] == " "
                    pads.add("both" if bef and aft else "before" if bef else "after" if aft else "none")
    if not counts:
        cols = "empty"
    elif len(set(counts)) == 1 and counts[0] > 0:
        rel = "eq" if counts[0] == ncurves else ("more" if counts[0] > ncurves else "fewer")
        cols = ("wuni-" if wrap == "Y" else "") + rel
    else:
        cols = "wrag" if wrap == "Y" else "ragged"
    A["tok_ok"], A["nlines"], A["stream"], A["has_data_comment"] = tok_ok, nlines, stream, has_comment
    hyph = "none" if hy == 0 else ("all" if hy == nlines else "some")
    rows = "0" if nlines == 0 else "1" if nlines == 1 else "2-21" if nlines <= 21 else "22+"
    feat = "wrap=%s;dlm=%s;cols=%s;rows=%s;alast=%s;str=%d;hyph=%s" % (wrap, dlm, cols, rows, alast, int(strs), hyph)
    if eff in ("COMMA", "TAB"):
        feat += ";dpad=%s" % ("-" if not pads else (list(pads)[0] if len(pads) == 1 else "mixed"))
    A["feat"] = feat
    A["redelim_ok"] = bool(a_idx) and tok_ok and nlines > 0
    A["rewrap_ok"] = (wrap == "Y" and eff == "SPACE" and len(a_idx) == 1 and tok_ok and not has_comment
                      and ncurves >= 1 and stream > 0 and stream % ncurves == 0)
    return A


# --------------------------------------------------------------------------- ops
def h32(*parts):
    return zlib.crc32(":".join(str(p) for p in parts).encode()) & 0xFFFFFFFF


def ws_run(h, chars, lo, hi):
    """deterministic run of blanks (chars='sp') or blanks+tabs (chars='tab'), length lo..hi"""
    n = lo + h % (hi - lo + 1)
    if chars == "sp":
        return " " * n
    h >>= 4
    out = []
    for _ in range(n):
        out.append("\t" if h & 1 else " ")
        h >>= 1
    s = "".join(out)
    if n and "\t" not in s:
        s = "\t" + s[1:]
    return s


def line_variant(text, in_data):
    s = text.strip()
    if s == "":
        return "blank" if text == "" else "blank-ws"
    assert s.startswith("#")
    ind = "-indent" if text[0] in WS else ""
    body = s[1:]
    if body.strip() == "":
        return "comment-bare" + ind
    if "-" in body:
        return "comment-hyph" + ind
    if in_data and re.search(r"\d", body):
        return "comment-num" + ind
    if not in_data and ("." in body or ":" in body):
        return "comment-hdrlike" + ind
    return "comment" + ind


def scope_lines(doc, secs, A, scope, kinds):
    """yield (sec_ordinal, line_ordinal or 'title', doc_index) addressed by a scope, restricted to section kinds"""
    def sec_iter(i):
        ti, end, _ = secs[i]
        for j in range(ti + 1, end):
            yield (i, j - ti - 1, j)
    if scope == "all":
        for i in range(len(secs)):
            if A["secs"][i]["kind"] in kinds:
                if "T" in kinds:
                    yield (i, "title", secs[i][0])
                for x in sec_iter(i):
                    yield x
    elif scope == "titles":
        for i in range(len(secs)):
            if A["secs"][i]["kind"] != "Z":
                yield (i, "title", secs[i][0])
    elif scope[0] == "title":
        i = scope[1]
        if i < len(secs) and A["secs"][i]["kind"] != "Z":
            yield (i, "title", secs[i][0])
    elif scope[0] == "sec":
        i = scope[1]
        if i < len(secs) and A["secs"][i]["kind"] in kinds:
            for x in sec_iter(i):
                yield x
    elif scope[0] == "line":
        i, jj = scope[1], scope[2]
        if i < len(secs) and A["secs"][i]["kind"] in kinds:
            ti, end, _ = secs[i]
            if ti + 1 + jj < end:
                yield (i, jj, ti + 1 + jj)


def scope_name(A, scope):
    if scope in ("all", "titles"):
        return scope
    k = A["secs"][scope[1]]["kind"] if scope[1] < len(A["secs"]) else "?"
    if scope[0] == "title":
        return "title-" + k
    if scope[0] == "sec":
        return k
    return k + "-line"


def data_pos_cat(p, n):
    if n == 0:
        return "only"
    if p == 0:
        return "first"
    if p >= n:
        return "last-w" if n <= 20 else "last-l"
    return "mid-w" if p <= 20 else "mid-l"


def hdr_pos_cat(p, n):
    if n == 0:
        return "only"
    if p == 0:
        return "first"
    if p >= n:
        return "last"
    return "mid"


def apply_ops(base_doc, A, ops):
    """-> (doc, klass fragments, changed) ; ops are applied in canonical rank order (stable)"""
    doc = [list(x) for x in base_doc]
    frags = []
    order = sorted(range(len(ops)), key=lambda i: (RANK[ops[i]["op"]], i))
    eol0 = dominant_eol(doc)
    for oi in order:
        op = ops[oi]
        kind = op["op"]
        secs = find_sections(doc)
        if kind == "ins":
            i = op["sec"]
            k = A["secs"][i]["kind"]
            ti, end, _ = secs[i]
            n = end - ti - 1
            p = min(op["pos"], n)
            at = ti + 1 + p
            new = [[t, eol0] for t in op["lines"]]
            if at == len(doc) and doc and doc[-1][1] == "":
                doc[-1][1] = eol0
                new[-1][1] = ""
            doc[at:at] = new
            cat = data_pos_cat(p, n) if k == "A" else hdr_pos_cat(p, n)
            vs = sorted(set(line_variant(t, k == "A") for t in op["lines"]))
            frags.append("ins:%s@%s:%s;n=%s" % ("/".join(vs), k, cat, "1" if len(op["lines"]) == 1 else "2+"))
        elif kind == "pad":
            sides, chars, seed = op["sides"], op["chars"], op["seed"]
            kinds = set(HEADER_KINDS + "OA") | ({"T"} if op["scope"] == "all" else set())
            for (si, lj, j) in scope_lines(doc, secs, A, op["scope"], kinds):
                b = doc[j][0]
                if is_blank(b):
                    continue
                ch = chars
                if lj != "title" and A["secs"][si]["kind"] == "A" and A["eff_dlm"] == "TAB":
                    ch = "sp"       # a tab before the first value of a TAB-delimited line would be a field boundary
                core = b.strip(WS)
                lead = b[: len(b) - len(b.lstrip(WS))]
                trail = b[len(b.rstrip(WS)):]
                if sides in ("lead", "both"):
                    lead = ws_run(h32(seed, si, lj, "L"), ch, 0, 3)
                if sides in ("trail", "both"):
                    trail = ws_run(h32(seed, si, lj, "R"), ch, 0, 3)
                doc[j][0] = lead + core + trail
            frags.append("pad:%s:%s@%s" % (sides, chars, scope_name(A, op["scope"])))
        elif kind == "gap":
            which, chars, seed = op["which"], op["chars"], op["seed"]
            for (si, lj, j) in scope_lines(doc, secs, A, op["scope"], set(HEADER_KINDS)):
                f = header_line_fields(doc[j][0])
                if f is None:
                    continue
                g = {"name-dot": f["g1"], "unit-value": f["g2"], "value-colon": f["g3"], "colon-descr": f["g4"]}
                for w in which:
                    if w == "unit-value":
                        if re.fullmatch(r"[0-9]+", f["unit"]):
                            continue    # lasio's documented '1000 psi' unit exception: left out of the domain
                        g[w] = ws_run(h32(seed, si, lj, w), chars, 1, 4)
                    else:
                        g[w] = ws_run(h32(seed, si, lj, w), chars, 0, 3)
                doc[j][0] = (f["lead"] + f["name"] + g["name-dot"] + "." + f["unit"] + g["unit-value"] + f["value"]
                             + g["value-colon"] + ":" + g["colon-descr"] + f["descr"] + f["trail"])
            wn = which[0] if len(which) == 1 else "multi"
            frags.append("gap:%s:%s@%s" % (wn, chars, scope_name(A, op["scope"])))
        elif kind == "redelim":
            dlm, style, seed = A["eff_dlm"], op["style"], op["seed"]
            D = {"COMMA": ",", "TAB": "\t"}.get(dlm)
            for i in A["a_idx"]:
                ti, end, _ = secs[i]
                for j in range(ti + 1, end):
                    b = doc[j][0]
                    if is_blank(b) or is_comment(b):
                        continue
                    toks = tokens_of(b, dlm)
                    lead = b[: len(b) - len(b.lstrip(WS))]
                    trail = b[len(b.rstrip(WS)):]
                    out = [toks[0]]
                    for q in range(1, len(toks)):
                        h = h32(seed, j - ti, q)
                        if dlm == "SPACE":
                            sep = " " if style == "one" else ws_run(h, style, 1, 4)
                        else:
                            st = style if style != "mixed" else ("none", "after", "before", "both")[h % 4]
                            bl = " " * (1 + (h >> 8) % 3)
                            sep = {"none": D, "after": D + bl, "before": bl + D, "both": bl + D + bl}[st]
                        out.append(sep)
                        out.append(toks[q])
                    doc[j][0] = lead + "".join(out) + trail
            frags.append("redelim:%s:%s" % (dlm, style))
        elif kind == "rewrap":
            i = A["a_idx"][0]
            ti, end, _ = secs[i]
            nc = A["ncurves"]
            toks = []
            for j in range(ti + 1, end):
                if not is_blank(doc[j][0]):
                    toks += doc[j][0].split()
            last_eol = doc[end - 1][1] if end - 1 > ti else eol0
            lines = []
            for s in range(0, len(toks), nc):
                step = toks[s:s + nc]
                if op["depth_own"] and len(step) > 1:
                    lines.append([step[0]])
                    step = step[1:]
                if op["mode"] == "uniform":
                    k = op["k"]
                    for q in range(0, len(step), k):
                        lines.append(step[q:q + k])
                else:
                    q = 0
                    while q < len(step):
                        w = 1 + h32(op["seed"], s, q) % len(step)
                        lines.append(step[q:q + w])
                        q += w
            new = [[" ".join(l), eol0] for l in lines]
            if new:
                new[-1][1] = last_eol if end == len(doc) else eol0
            doc[ti + 1:end] = new
            cnt = [len(l) for l in lines]
            if len(set(cnt)) == 1:
                lay = "uni-eq" if cnt[0] == nc else "uni-ne"
            elif len(set(cnt[:21])) == 1:
                lay = "uni21-eq" if cnt[0] == nc else "uni21-ne"
            else:
                lay = "ragged"
            frags.append("rewrap:%s:depth-own=%d" % (lay, int(bool(op["depth_own"]))))
        elif kind == "eol":
            e = "\r\n" if op["to"] == "crlf" else "\n"
            for x in doc:
                if x[1] != "":
                    x[1] = e
            eol0 = e
            frags.append("eol:" + op["to"])
        elif kind == "fnl":
            if doc:
                if op["to"] == "drop":
                    doc[-1][1] = ""
                elif doc[-1][1] == "":
                    doc[-1][1] = eol0
            frags.append("fnl:" + op["to"])
        else:
            raise ValueError(kind)
    return doc, frags


# --------------------------------------------------------------------------- observation
def cval(v):
    return "%s:%r" % (type(v).__name__, v)


def canon(las):
    secs = []
    for name, sec in las.sections.items():
        if isinstance(sec, str):
            secs.append((name, "text", [l.strip() for l in sec.split("\n")]))
        else:
            secs.append((name, "items", [(it.mnemonic, it.unit, cval(it.value), it.descr) for it in list.__iter__(sec)]))
    data = []
    for c in list.__iter__(las.curves):
        data.append(np.asarray(c.data))
    return {"secs": secs, "data": data, "trace": getattr(las, "_verif_engine_trace", None)}


def arr_equal(a, b):
    if a.shape != b.shape:
        return False
    if a.dtype.kind == "f" and b.dtype.kind == "f":
        return bool(np.array_equal(a, b, equal_nan=True))
    if a.dtype.kind != b.dtype.kind:
        return False
    return a.tolist() == b.tolist()


def compare(c0, c1):
    """-> list of (clause, detail)"""
    out = []
    n0 = [(n, k) for n, k, _ in c0["secs"]]
    n1 = [(n, k) for n, k, _ in c1["secs"]]
    if n0 != n1:
        out.append(("equal-header-items", "sections differ: base %r transformed %r" % (n0, n1)))
    d1 = {n: (k, v) for n, k, v in c1["secs"]}
    hdr = oth = None
    for n, k, v in c0["secs"]:
        if n not in d1 or d1[n][0] != k:
            continue
        w = d1[n][1]
        if v != w:
            if k == "items" and hdr is None:
                diff = next(((i, a, b) for i, (a, b) in enumerate(itertools.zip_longest(v, w)) if a != b), None)
                hdr = "section %r: %d vs %d items; first difference at #%s: base %r transformed %r" % (
                    n, len(v), len(w), diff[0], diff[1], diff[2])
            if k == "text" and oth is None:
                diff = next(((i, a, b) for i, (a, b) in enumerate(itertools.zip_longest(v, w)) if a != b), None)
                oth = "section %r: %d vs %d lines; first difference at line %s: base %r transformed %r" % (
                    n, len(v), len(w), diff[0], diff[1], diff[2])
    if hdr and n0 == n1:
        out.append(("equal-header-items", hdr))
    if oth:
        out.append(("equal-other-text", oth))
    a, b = c0["data"], c1["data"]
    if len(a) != len(b):
        out.append(("equal-curve-data", "%d curves (shapes %r) vs %d curves (shapes %r); engines %r / %r" % (
            len(a), [x.shape for x in a][:6], len(b), [x.shape for x in b][:6], c0["trace"], c1["trace"])))
    else:
        for i, (x, y) in enumerate(zip(a, b)):
            if not arr_equal(x, y):
                out.append(("equal-curve-data", "curve #%d: base %s%r %r.. transformed %s%r %r..; engines %r / %r" % (
                    i, x.dtype, x.shape, x.tolist()[:6], y.dtype, y.shape, y.tolist()[:6], c0["trace"], c1["trace"])))
                break
    return out


class Reader:
    """reads with memo per (engine, channel, text); counts real executions"""

    def __init__(self, tmpdir):
        self.memo = {}
        self.n = 0
        self.tmpdir = tmpdir

    def read(self, text, eng, chan):
        key = (eng, chan, text)
        if key in self.memo:
            return self.memo[key]
        self.n += 1
        try:
            if chan == "file":
                path = os.path.join(self.tmpdir, "c09_%d.las" % os.getpid())
                with open(path, "w", encoding="utf-8", newline="") as f:
                    f.write(text)
                las = lasio.read(path, engine=eng, encoding="utf-8")
            else:
                las = lasio.read(text, engine=eng)
            r = ("ok", canon(las))
        except Exception as e:
            r = ("exc", "%s: %s" % (type(e).__name__, str(e)[-300:]))
        self.memo[key] = r
        return r


def evaluate(base_text, base_doc, A, eng, chan, ops, rd):
    """-> (status, transformed_text, frags, fails) ; status in ok / base-unreadable"""
    b = rd.read(base_text, eng, chan)
    if b[0] != "ok":
        return "base-unreadable", None, [], []
    doc, frags = apply_ops(base_doc, A, ops)
    text = doc_text(doc)
    t = rd.read(text, eng, chan)
    if t[0] != "ok":
        return "ok", text, frags, [("transformed-file-readable", t[1])]
    return "ok", text, frags, compare(b[1], t[1])


# --------------------------------------------------------------------------- minimisation
def section_sizes(base_doc, A, ops, upto_rank):
    doc, _ = apply_ops(base_doc, A, [o for o in ops if RANK[o["op"]] < upto_rank])
    return [end - ti - 1 for ti, end, _ in find_sections(doc)]


def narrowings(op, base_doc, A, ops):
    kind = op["op"]
    out = []
    if kind == "ins" and len(op["lines"]) > 1:
        for q in range(len(op["lines"])):
            out.append(dict(op, lines=op["lines"][:q] + op["lines"][q + 1:]))
    if kind in ("pad", "gap"):
        kinds = (HEADER_KINDS + "OA") if kind == "pad" else HEADER_KINDS
        sc = op["scope"]
        if sc == "all":
            if kind == "pad":
                out.append(dict(op, scope="titles"))
            for i, s in enumerate(A["secs"]):
                if s["kind"] in kinds:
                    out.append(dict(op, scope=["sec", i]))
        elif sc == "titles":
            for i, s in enumerate(A["secs"]):
                if s["kind"] != "Z":
                    out.append(dict(op, scope=["title", i]))
        elif sc[0] == "sec":
            n = section_sizes(base_doc, A, ops, RANK[kind])[sc[1]]
            js = list(range(min(n, 40))) + ([n - 1] if n > 40 else [])
            for j in js:
                out.append(dict(op, scope=["line", sc[1], j]))
        if kind == "pad" and op["sides"] == "both":
            out.append(dict(op, sides="lead"))
            out.append(dict(op, sides="trail"))
        if kind == "gap" and len(op["which"]) > 1:
            for w in op["which"]:
                out.append(dict(op, which=[w]))
    return out


def minimise(base_text, base_doc, A, eng, chan, ops, clause, rd):
    """-> every minimal failing sub-composition (for `clause`), each with its scopes narrowed as far as it still fails"""
    def bad(o):
        st, _, _, fails = evaluate(base_text, base_doc, A, eng, chan, o, rd)
        return any(c == clause for c, _ in fails)
    found = []
    n = len(ops)
    for size in range(1, n + 1):
        for idxs in itertools.combinations(range(n), size):
            if any(set(f) <= set(idxs) for f in found):
                continue
            if size == n or bad([ops[i] for i in idxs]):
                found.append(idxs)
    out = []
    for f in found:
        cur = [ops[i] for i in f]
        changed = True
        while changed:
            changed = False
            for idx, op in enumerate(cur):
                for nar in narrowings(op, base_doc, A, cur):
                    cand = cur[:idx] + [nar] + cur[idx + 1:]
                    if bad(cand):
                        cur, changed = cand, True
                        break
                if changed:
                    break
        out.append(cur)
    return out


def klass_of(A, eng, chan, frags):
    return "eng=%s;chan=%s;%s|T=%s" % (eng, chan, A["feat"], "+".join(frags))


# --------------------------------------------------------------------------- bases
def examples_dir():
    d = os.path.join(REPO, "tests", "examples")
    return d if os.path.isdir(d) else "/repo/tests/examples"


def load_corpus_text(rel):
    raw = open(os.path.join(examples_dir(), rel), "rb").read()
    if b"\x00" in raw or len(raw) == 0:
        return None
    try:
        return raw.decode("utf-8-sig")
    except UnicodeDecodeError:
        try:
            return raw.decode("cp1252")
        except UnicodeDecodeError:
            return None


def corpus_files():
    d = examples_dir()
    fs = glob.glob(os.path.join(d, "*.las")) + glob.glob(os.path.join(d, "1.2", "*.las")) + glob.glob(os.path.join(d, "2.0", "*.las"))
    return sorted(os.path.relpath(f, d) for f in fs)


def base_text_of(base):
    if "gen" in base:
        return base["gen"]
    return load_corpus_text(base["corpus"])


UNITS = ["", "M", "FT", "US/F", "G/C3", "OHMM", "%", "K/M3", "GAPI", "V/V"]
WVALS = ["ANY OIL COMPANY INC.", "ANY ET AL 12-34-12-34", "WILDCAT", "12-34-12-34W5M", "ALBERTA", "13-DEC-86", "", "100123401234W500", "Rig 7 (north)"]
DESCRS = ["COMPANY", "WELL", "FIELD", "LOCATION", "LOG DATE", "1  SONIC TRANSIT TIME", "", "Mud resistivity @ 20 degC", "x"]
MNEMS = ["COMP", "WELL", "FLD", "LOC", "PROV", "SRVC", "DATE", "UWI", "API", "LIC"]
CURVES = ["DT", "RHOB", "NPHI", "SFLU", "SFLA", "ILM", "ILD", "GR", "CALI", "SP"]
PMN = ["MUD", "BHT", "BS", "FD", "MATR", "MDEN", "RMF", "DFD"]
OTHER = ["Note: The logging tools became stuck at 625 metres causing the data", "   between 625 metres and 615 metres to be invalid.",
         "# this line belongs to the Other text", "", "a.b : c", "1 2 3"]
NUMS = ["123.450", "2550.000", "0.450", "105.600", "1", "0.0", "1.5E+02", "37", "0.125", "99999.0"]


def hline(rng, m, u, v, d):
    g0 = rng.choice(["", "", " ", "  "])
    g1 = rng.choice(["", "", " ", "   "])
    g2 = rng.choice([" ", "  ", "      ", "\t"])
    g3 = rng.choice(["", " ", "   "])
    g4 = rng.choice(["", " ", "  "])
    return g0 + m + g1 + "." + u + g2 + v + g3 + ":" + g4 + d


COMBOS = [("1.2", None, False), ("1.2", None, True), ("2.0", None, False), ("2.0", None, True), ("2.0", "SPACE", False),
          ("2.0", "SPACE", True), ("2.0", "TAB", False), ("2.0", "COMMA", False), ("3.0", "SPACE", False), ("3.0", "TAB", False),
          ("3.0", "COMMA", False), ("3.0", "COMMA", False)]


def gen_base(rng, combo):
    vers, dlm, wrap = combo
    nc = rng.randint(1, 8) if wrap else rng.randint(1, 5)
    nrows = rng.choice([1, 2, 3, 4, 5, 7, 11, 20, 21, 22, 26])
    if wrap:
        nrows = rng.choice([1, 2, 3, 5, 8, 12])
    hyph = rng.choice(["none", "some", "some", "all"])
    strcol = (not wrap) and nc >= 2 and rng.random() < 0.15
    extra = 0
    if not wrap and rng.random() < 0.12:
        extra = rng.choice([1, -1]) if nc >= 2 else 1
    L = ["~Version Information" if rng.random() < 0.5 else "~V"]
    L.append(hline(rng, "VERS", "", vers, "CWLS LOG ASCII STANDARD - VERSION " + vers))
    L.append(hline(rng, "WRAP", "", "YES" if wrap else "NO", "wrap mode"))
    if dlm:
        L.append(hline(rng, "DLM", "", dlm, "delimiter"))
    L.append("~Well Information" if rng.random() < 0.5 else "~W")
    if rng.random() < 0.3:
        L.append("#MNEM.UNIT      DATA         : DESCRIPTION")
    L.append(hline(rng, "STRT", "M", "1670.0", "START DEPTH"))
    L.append(hline(rng, "STOP", "M", "%.1f" % (1670.0 - 0.125 * (nrows - 1)), "STOP DEPTH"))
    L.append(hline(rng, "STEP", "M", "-0.1250", "STEP"))
    L.append(hline(rng, "NULL", "", "-999.25", "NULL VALUE"))
    for m in rng.sample(MNEMS, rng.randint(0, 4)):
        v, d = rng.choice(WVALS), rng.choice(DESCRS)
        if vers == "1.2":
            v, d = d, v
        L.append(hline(rng, m, "", v, d))
    if rng.random() < 0.2:
        L.append("")
    L.append("~Curve Information" if rng.random() < 0.5 else "~C")
    names = ["DEPT"] + rng.sample(CURVES, nc - 1)
    if nc >= 3 and rng.random() < 0.15:
        names[2] = names[1]
    for i, m in enumerate(names):
        L.append(hline(rng, m, "M" if i == 0 else rng.choice(UNITS), rng.choice(["", "", "07 420 04 00"]), rng.choice(DESCRS)))
    if rng.random() < 0.8:
        L.append("~Parameter Information" if rng.random() < 0.5 else "~P")
        for m in rng.sample(PMN, rng.randint(0, 3)):
            L.append(hline(rng, m, rng.choice(UNITS), rng.choice(NUMS + ["GEL CHEM", "SAND", ""]), rng.choice(DESCRS)))
    if rng.random() < 0.3:
        L.append("~Extra" if rng.random() < 0.5 else "~Tool Settings")
        for m in rng.sample(PMN, rng.randint(1, 3)):
            L.append(hline(rng, m, rng.choice(UNITS), rng.choice(NUMS + ["ON"]), rng.choice(DESCRS)))
    if rng.random() < 0.4:
        L.append("~Other" if rng.random() < 0.5 else "~O")
        L += rng.sample(OTHER, rng.randint(0, 4))
    L.append("~ASCII" if rng.random() < 0.5 else "~A  DEPT " + " ".join(names[1:]))
    ncol = max(1, nc + extra)
    eff = dlm or "SPACE"
    dpad = None
    if eff == "TAB":
        dpad = rng.choice(["none", "after", "after", "both", "before"])
    elif eff == "COMMA":
        dpad = rng.choice(["none", "after", "after", "before"])     # ' , ' on every boundary is not readable by lasio (not a base)
    scol = rng.randrange(1, ncol) if strcol and ncol >= 2 else None
    for r in range(nrows):
        toks = ["%.3f" % (1670.0 - 0.125 * r)]
        for c in range(1, ncol):
            if c == scol:
                toks.append(rng.choice(["LIME", "SAND", "shale", "a1", "x_y"]))
            else:
                t = rng.choice(NUMS + ["-999.25"])
                if t[0] != "-" and (hyph == "all" and c == 1 or hyph != "none" and rng.random() < 0.25):
                    t = "-" + t
                toks.append(t)
        if hyph == "all" and ncol == 1:
            toks[0] = "-" + toks[0]
        if wrap:
            L.append(toks[0])
            w = rng.choice([1, 2, 3, 5, 7])
            rest = toks[1:]
            for q in range(0, len(rest), w):
                L.append(" ".join(rest[q:q + w]))
        elif eff == "SPACE":
            L.append((" " if rng.random() < 0.5 else "") + "  ".join("%9s" % t for t in toks))
        else:
            D = "," if eff == "COMMA" else "\t"
            sep = {"none": D, "after": D + " ", "before": " " + D, "both": " " + D + " "}[dpad]
            L.append(sep.join(toks))
    eol = "\r\n" if rng.random() < 0.2 else "\n"
    text = eol.join(L) + (eol if rng.random() < 0.85 else "")
    return text


# --------------------------------------------------------------------------- planning
INS_HDR = ["", "   ", "\t", "# a comment", "#", "# run-3 of 4", "#MNEM.UNIT   DATA : DESCRIPTION", "  # indented comment"]
INS_DATA = ["", "   ", "\t", "# a comment", "#", "# run-3 of 4", "# 1670.000 123.450", "  # indented comment"]


def ins_positions(n, is_data, full):
    if full or n <= 6:
        ps = list(range(n + 1))
    else:
        ps = [0, 1, n // 2, n - 1, n]
    if is_data and n > 24:
        ps = sorted(set([p for p in ps if p <= 23] + [0, 1, 19, 20, 21, 22, n // 2, n - 1, n]))
    return sorted(set(p for p in ps if 0 <= p <= n))


def sweep_cases(A, rng, level):
    """systematic single transformations; level 2 = every site, 1 = site categories, 0 = a handful"""
    ops = []
    secs = A["secs"]
    for i, s in enumerate(secs):
        k = s["kind"]
        if k in HEADER_KINDS + "A":
            pool = INS_DATA if k == "A" else INS_HDR
            if level == 0:
                for p in sorted(set([0, s["n"]])):
                    ops.append([{"op": "ins", "sec": i, "pos": p, "lines": [pool[0]]}])
                    ops.append([{"op": "ins", "sec": i, "pos": p, "lines": [pool[3]]}])
                continue
            for p in ins_positions(s["n"], k == "A", level >= 2):
                ops.append([{"op": "ins", "sec": i, "pos": p, "lines": [""]}])
                ops.append([{"op": "ins", "sec": i, "pos": p, "lines": ["# a comment"]}])
                t = pool[rng.randrange(len(pool))]
                ops.append([{"op": "ins", "sec": i, "pos": p, "lines": [t] * rng.randint(1, 3)}])
    ops.append([{"op": "eol", "to": "crlf"}])
    ops.append([{"op": "eol", "to": "lf"}])
    ops.append([{"op": "fnl", "to": "drop"}])
    ops.append([{"op": "fnl", "to": "add"}])
    ops.append([{"op": "eol", "to": "crlf"}, {"op": "fnl", "to": "drop"}])
    for sides in ("lead", "trail"):
        for chars in ("sp", "tab"):
            ops.append([{"op": "pad", "scope": "all", "sides": sides, "chars": chars, "seed": rng.randrange(1 << 20)}])
            if level >= 1:
                ops.append([{"op": "pad", "scope": "titles", "sides": sides, "chars": chars, "seed": rng.randrange(1 << 20)}])
                for i, s in enumerate(secs):
                    if s["kind"] in HEADER_KINDS + "OA" and s["n"]:
                        ops.append([{"op": "pad", "scope": ["sec", i], "sides": sides, "chars": chars, "seed": rng.randrange(1 << 20)}])
    for chars in ("sp", "tab"):
        ops.append([{"op": "gap", "scope": "all", "which": list(GAPS), "chars": chars, "seed": rng.randrange(1 << 20)}])
        if level >= 1:
            for w in GAPS:
                ops.append([{"op": "gap", "scope": "all", "which": [w], "chars": chars, "seed": rng.randrange(1 << 20)}])
    if A["redelim_ok"]:
        styles = ["one", "sp", "tab"] if A["eff_dlm"] == "SPACE" else ["none", "after", "before", "both", "mixed"]
        for st in styles:
            ops.append([{"op": "redelim", "style": st, "seed": rng.randrange(1 << 20)}])
    if A["rewrap_ok"]:
        nc = A["ncurves"]
        ks = range(1, nc + 1) if (level >= 1 or nc <= 4) else sorted(set([1, 2, nc - 1, nc]))
        for k in ks:
            for own in (0, 1):
                if own and k > max(1, nc - 1):
                    continue
                ops.append([{"op": "rewrap", "mode": "uniform", "k": k, "depth_own": own}])
        for own in (0, 1):
            ops.append([{"op": "rewrap", "mode": "random", "seed": rng.randrange(1 << 20), "depth_own": own}])
    return ops


def random_op(A, rng, kind):
    secs = A["secs"]
    if kind == "ins":
        cand = [i for i, s in enumerate(secs) if s["kind"] in HEADER_KINDS + "A"]
        i = rng.choice(cand)
        n = secs[i]["n"]
        r = rng.random()
        p = 0 if r < 0.25 else (n if r < 0.5 else rng.randint(0, n + 3))   # positions beyond n are clamped at apply time
        pool = INS_DATA if secs[i]["kind"] == "A" else INS_HDR
        return {"op": "ins", "sec": i, "pos": p, "lines": [rng.choice(pool) for _ in range(rng.choice([1, 1, 2, 3]))]}
    if kind == "pad":
        r = rng.random()
        cand = [i for i, s in enumerate(secs) if s["kind"] in HEADER_KINDS + "OA"]
        if not cand:
            sc = "titles"
        elif r < 0.3:
            sc = "all"
        elif r < 0.4:
            sc = "titles"
        elif r < 0.55:
            sc = ["title", rng.choice([i for i, s in enumerate(secs) if s["kind"] != "Z"])]
        elif r < 0.8:
            sc = ["sec", rng.choice(cand)]
        else:
            i = rng.choice(cand)
            sc = ["line", i, rng.randrange(max(1, secs[i]["n"]))]
        return {"op": "pad", "scope": sc, "sides": rng.choice(["lead", "trail", "both"]), "chars": rng.choice(["sp", "tab"]),
                "seed": rng.randrange(1 << 20)}
    if kind == "gap":
        cand = [i for i, s in enumerate(secs) if s["kind"] in HEADER_KINDS and s["n"]]
        r = rng.random()
        if r < 0.4 or not cand:
            sc = "all"
        elif r < 0.7:
            sc = ["sec", rng.choice(cand)]
        else:
            i = rng.choice(cand)
            sc = ["line", i, rng.randrange(secs[i]["n"])]
        which = [w for w in GAPS if rng.random() < 0.5] or [rng.choice(GAPS)]
        return {"op": "gap", "scope": sc, "which": which, "chars": rng.choice(["sp", "tab"]), "seed": rng.randrange(1 << 20)}
    if kind == "eol":
        return {"op": "eol", "to": rng.choice(["crlf", "lf"])}
    if kind == "fnl":
        return {"op": "fnl", "to": rng.choice(["drop", "drop", "add"])}
    if kind == "redelim":
        styles = ["one", "sp", "tab"] if A["eff_dlm"] == "SPACE" else ["none", "after", "before", "both", "mixed"]
        return {"op": "redelim", "style": rng.choice(styles), "seed": rng.randrange(1 << 20)}
    if kind == "rewrap":
        nc = A["ncurves"]
        if rng.random() < 0.6:
            return {"op": "rewrap", "mode": "uniform", "k": rng.randint(1, nc), "depth_own": rng.choice([0, 1])}
        return {"op": "rewrap", "mode": "random", "seed": rng.randrange(1 << 20), "depth_own": rng.choice([0, 1])}
    raise ValueError(kind)


def random_composition(A, rng):
    n = rng.choice([1, 2, 2, 3, 3])
    kinds = ["pad"] * 2 + ["eol", "fnl"]
    if any(s["kind"] in HEADER_KINDS + "A" for s in A["secs"]):
        kinds += ["ins"] * 4
    if any(s["kind"] in HEADER_KINDS and s["n"] for s in A["secs"]):
        kinds += ["gap"] * 2
    if A["redelim_ok"]:
        kinds += ["redelim"] * 2
    if A["rewrap_ok"]:
        kinds += ["rewrap"] * 3
    ops, used = [], set()
    while len(ops) < n:
        k = rng.choice(kinds)
        if k in ("eol", "fnl", "redelim", "rewrap") and k in used:
            continue
        used.add(k)
        ops.append(random_op(A, rng, k))
    return ops


def plan_base(base, rng, level, n_random, file_frac):
    """-> task dict or None (base outside the model)"""
    text = base_text_of(base)
    if text is None:
        return None, "undecodable"
    A = analyze(text)
    if not A["ok"]:
        return None, A["why"]
    if A["nsec"] == 0 or not any(s["kind"] != "Z" for s in A["secs"]):
        return None, "no section"
    engines = ["numpy", "normal"] if A["wrap"] == "N" else ["normal"]
    cases = []
    for ops in sweep_cases(A, rng, level):
        for e in engines:
            chan = "file" if (ops[0]["op"] in ("eol", "fnl") and level >= 1) else "str"
            cases.append([e, chan, ops])
            if chan == "file":
                cases.append([e, "str", ops])
    for _ in range(n_random):
        ops = random_composition(A, rng)
        chan = "file" if rng.random() < file_frac else "str"
        for e in engines:
            cases.append([e, chan, ops])
    return {"base": base, "cases": cases}, None


# --------------------------------------------------------------------------- worker
def run_task(args):
    task, tmpdir = args
    base = task["base"]
    text = base_text_of(base)
    A = analyze(text)
    base_doc = parse_doc(text)
    rd = Reader(tmpdir)
    out = []
    bh = hashlib.sha1(text.encode("utf-8", "replace")).hexdigest()[:12]
    for ci, (eng, chan, ops) in enumerate(task["cases"]):
        n0 = rd.n
        st, ttext, frags, fails = evaluate(text, base_doc, A, eng, chan, ops, rd)
        if st != "ok":
            out.append({"status": st, "eng": eng, "reads": rd.n - n0})
            continue
        key = hashlib.sha1(("%s|%s|%s|" % (bh, eng, chan)).encode() + ttext.encode("utf-8", "replace")).hexdigest()[:16]
        rec = {"status": "ok", "key": key, "nontrivial": ttext != text, "fails": [], "eng": eng, "chan": chan,
               "kinds": sorted(set(o["op"] for o in ops))}
        for clause in sorted(set(c for c, _ in fails)):
            for mops in minimise(text, base_doc, A, eng, chan, ops, clause, rd):
                _, _, mfrags, mfails = evaluate(text, base_doc, A, eng, chan, mops, rd)
                detail = next(d for c, d in mfails if c == clause)
                rec["fails"].append({"clause": clause, "klass": klass_of(A, eng, chan, mfrags),
                                     "input": {"base": base, "engine": eng, "chan": chan, "ops": mops}, "detail": detail})
        rec["reads"] = rd.n - n0
        if ci % 97 == 5:
            rec["sample"] = {"base": base if "corpus" in base else {"gen": text[:200] + "..."}, "engine": eng, "chan": chan, "ops": ops,
                             "klass": klass_of(A, eng, chan, frags)}
        out.append(rec)
    return out


# --------------------------------------------------------------------------- driver
def build_run(tier, seed):
    quick = tier == "quick"
    run = Run(PROP,
              "a case = (base text, engine, input channel, composition of 1-3 transformations); it is non-trivial when the "
              "transformed text differs from the base text; distinct = distinct (base, engine, channel, transformed text)",
              "generated LAS 1.2/2.0/3.0-style texts (DLM none/SPACE/TAB/COMMA, WRAP YES/NO) and the readable files of "
              "tests/examples (top level, 1.2/, 2.0/) x {ins blank/comment lines, pad lines, header field gaps, re-delimit, "
              "re-wrap, LF<->CRLF, final newline} x engines {numpy, normal} x channels {string, file}",
              "compositions of <= 3 transformations; every insertion site of the small bases, sampled sites elsewhere")
    rng = random.Random(seed * 7919 + 17)
    n_gen = 24 if quick else 420
    n_full = 8 if quick else 140           # generated bases swept at every site
    n_rand_gen = 20 if quick else 80
    n_rand_cor = 4 if quick else 80
    nproc = min(os.cpu_count() or 1, 4 if quick else 12)
    budget = 52 if quick else 14 * 60
    tasks, skipped = [], []
    for g in range(n_gen):
        text = gen_base(rng, COMBOS[g % len(COMBOS)])
        t, why = plan_base({"gen": text}, rng, 2 if g < n_full else 1, n_rand_gen, 0.15)
        if t:
            tasks.append(t)
    big = []
    for rel in corpus_files():
        size = os.path.getsize(os.path.join(examples_dir(), rel))
        if size > 100000 and quick:
            skipped.append("%s (size, quick tier)" % rel)
            continue
        if size > 100000:
            level, nr = 0, (0 if quick else 6)
        elif size > 10000:
            level, nr = (0 if quick else 1), (4 if quick else 30)
        else:
            level, nr = (0 if quick else 2), n_rand_cor
        t, why = plan_base({"corpus": rel}, rng, level, nr, 0.15)
        if t is None:
            skipped.append("%s (%s)" % (rel, why))
            continue
        if size > 100000:
            # one task per case keeps the big files from serialising a worker
            for c in t["cases"]:
                big.append({"base": t["base"], "cases": [c]})
        else:
            tasks.append(t)
    # long tasks first (deterministic order), results are re-ordered by task index
    order = sorted(range(len(tasks)), key=lambda i: -len(tasks[i]["cases"]))
    tasks = big + [tasks[i] for i in order]
    tmpdir = tempfile.mkdtemp(prefix="c09_", dir=os.environ.get("VERIF_SCRATCH", "/var/tmp"))
    unreadable = {}
    done = 0
    kinds_seen = {}
    try:
        import multiprocessing as mp
        ctx = mp.get_context("fork")
        with ctx.Pool(nproc) as pool:
            it = pool.imap(run_task, [(t, tmpdir) for t in tasks], chunksize=1)
            for ti, t in enumerate(tasks):
                if time.time() - run.t0 > budget:
                    run.notes.append("time budget reached: %d of %d base tasks executed (results of the rest are missing)" % (done, len(tasks)))
                    pool.terminate()
                    break
                res = it.next()
                done += 1
                for rec in res:
                    if rec["status"] != "ok":
                        name = t["base"].get("corpus", "generated")
                        unreadable[name] = unreadable.get(name, 0) + 1
                        run.evaluations += rec["reads"]
                        continue
                    run.case(rec["key"], nontrivial=rec["nontrivial"], sample=rec.get("sample") if rec["nontrivial"] else None,
                             n=rec["reads"])
                    for k in rec["kinds"]:
                        kinds_seen[k] = kinds_seen.get(k, 0) + 1
                    for f in rec["fails"]:
                        run.fail(f["clause"], f["klass"], f["input"], f["detail"])
    finally:
        shutil.rmtree(tmpdir, ignore_errors=True)
    run.notes.append("cases per transformation kind: %s" % json.dumps(kinds_seen, sort_keys=True))
    run.notes.append("corpus files left out: %s" % "; ".join(skipped))
    if unreadable:
        run.notes.append("bases that lasio does not read (outside 'readable base files', cases skipped): %s" % json.dumps(unreadable, sort_keys=True))
    run.notes.append("left out on purpose: insertion of lines into ~O (every line of free text is content) and before the first section; "
                     "sections whose title contains '_' or whose lines are outside the simple header grammar are never touched; "
                     "field gaps are changed only on lines NAME[b].UNIT b+ VALUE [b]:[b] DESCR with exactly one ':' and no '..'; "
                     "the unit-value gap is not changed after an all-digit unit (lasio documents '1000 psi' as a unit); "
                     "TAB/COMMA boundaries keep exactly one delimiter, padding is blanks only; lines with quotes are not re-delimited; "
                     "re-wrapping never joins two depth steps on one line; corpus files with NUL bytes (UTF-16) or lone CR are skipped; "
                     "generated files always end with their single ~A section (inner data sections occur only in the corpus). "
                     "Failing compositions are reduced (sub-compositions, then narrower scopes) before they are classified, "
                     "so klass and input describe the smallest failing transformation found.")
    return run


def replay_one(entry):
    inp = entry["input"]
    text = base_text_of(inp["base"])
    if text is None:
        return False, "base not available"
    A = analyze(text)
    tmpdir = tempfile.mkdtemp(prefix="c09_", dir=os.environ.get("VERIF_SCRATCH", "/var/tmp"))
    try:
        rd = Reader(tmpdir)
        st, ttext, frags, fails = evaluate(text, parse_doc(text), A, inp["engine"], inp["chan"], inp["ops"], rd)
    finally:
        shutil.rmtree(tmpdir, ignore_errors=True)
    if st != "ok":
        return False, "base text is not readable now"
    for clause, detail in fails:
        if clause == entry["clause"]:
            return True, detail
    return False, "clause %s holds on this input now (other failures: %r)" % (entry["clause"], fails)


if __name__ == "__main__":
    main(PROP, build_run, replay_one)
