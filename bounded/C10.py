"""C10 bounded stand-in / CPython cross-check: the result of a read is independent
of the input channel and of the encoding the text is stored in, every non-ASCII
character of the header text is preserved, and reads are pure (no state is
carried between reads or between LASFile objects).

Two families of cases, every one executed in a freshly forked process (so that a
reported failure never depends on what the harness did before, and --replay in a
new interpreter re-creates exactly the same history):

* matrix groups: one generated LAS text (non-ASCII header content of one character
  family) x read options, read through StringIO (the reference), a multi-line
  string, a str path (absolute / relative), a pathlib.Path (absolute / relative)
  and an open text file, stored in every listed codec the text can be encoded in
  (utf-8 with BOM is read without encoding=, everything else with encoding=) and
  with LF / CRLF / CR line ends (CR only for files: universal newlines).  Oracle:
  (a) canonical content (all sections' items, ~Other, curve data, index unit)
  equals that of the StringIO read; (b) the strings the GENERATOR put in the
  non-ASCII fields are found unchanged in the result (independent of lasio).
* purity scenarios: read T (snapshot), read T again (witness), perform every
  sequence of <= 2 (thorough: also sampled 3) actions out of an alphabet of
  mutations of the first result / writes / reads of another text / fresh LASFile
  mutations / re-use of the same path for other content, then the untouched witness
  must still have the snapshot's content and a new read of T must equal the
  snapshot; two results (and two fresh LASFile()) must not share mutable objects.
"""
import sys
import os
sys.path.insert(0, os.path.dirname(os.path.abspath(__file__)))
from common import Run, main

import io
import itertools
import json
import multiprocessing
import pathlib
import pickle
import random
import shutil
import tempfile
import traceback

import numpy as np
import lasio
from lasio import HeaderItem, SectionItems

CHUNK = 8192  # io.TextIOWrapper reads the underlying file in chunks of this many bytes

# ----------------------------------------------------------------------------
# vocabulary: per character family, strings for the places a LAS header can hold text.
# "latin": U+00A0..U+00FF only (exist in latin-1 AND cp1252; U+00A0 only inside a field).  "win": characters
# of cp1252 that latin-1 lacks.  "cyr": Cyrillic.
# "sep": U+2028 / U+0085 strictly INSIDE a field (never at its edge: both are Unicode
# white space, and a field is delimited by white space).  "astral": beyond the BMP
# (surrogate pairs in utf-16).  No digits-comma-digits, no ':' and no '.' in any word.
# ----------------------------------------------------------------------------
VOC = {
    "ascii": dict(words=["alpha", "bravo", "charlie", "delta", "echo"], units=["degC", "us", "ohmm"],
                  mnems=["AAX", "BBX", "CCX", "DDX"], titles=["info", "block"]),
    "latin": dict(words=["Ærø", "Größe", "Température", "señal", "Øst°",
                         "naïve", "façade", "ÿþ", "±½", "«x»", "a\u00a0b", "¿qué?"],
                  units=["°C", "µs", "m²", "Ømm"],
                  mnems=["TEMPÉ", "HÖHE", "ÑU", "fläche"],
                  titles=["données", "Größen"]),
    # cp1252-only characters (absent from latin-1): the codec named with encoding= must really be the one used
    "win": dict(words=["€uro", "œuvre", "Šk—da", "x…y", "“q”", "ž‰"], units=["€", "‰"],
                mnems=["ŒUF", "ŠŽ", "AAX", "ŸX"], titles=["œuvre", "€"]),
    "cyr": dict(words=["Скважина", "Глубина",
                       "месторождение", "Ёлка", "нефть"],
                units=["Омм", "мкс", "град"],
                mnems=["ГЛУБ", "ПС", "гк"],
                titles=["сведения", "данные"]),
    "sep": dict(words=["top\u2028bottom", "a\u0085b", "x\u2028\u0085y", "left\u2028 right", "p\u0085 q"],
                units=["degC", "us"], mnems=["AAX", "BBX", "CCX", "DDX"], titles=["info", "block"]),
    # characters whose UTF-16 / UTF-32 code units contain the BYTES 0x0D or 0x0A (U+010D, U+010A, U+040D, U+1E0D, U+0A0A, U+0D0A):
    # a reader that looks for line ends before decoding would cut them
    "nlbyte": dict(words=["Pe\u010darovci", "\u010aentru", "\u040d\u0445", "\u1e0damma", "\u0a0a\u0a20", "\u0d0a\u0d1e"],
                   units=["\u010d", "\u1e0d"], mnems=["\u010cA", "AAX", "B\u040d"], titles=["\u010dlanek", "\u1e0d"]),
    "astral": dict(words=["\U0001d6d1log", "井\U0002000b戸", "oil\U0001f6e2rig", "\U0001d400\U0001d401"],
                   units=["\U0001d6c0m", "µ\U0001d6d1"], mnems=["\U0001d406\U0001d411", "X\U0002000b", "AAX"],
                   titles=["\U0001f6e2", "井\U0002000b"]),
}
DEPTH_UNIT = {"cyr": "м"}          # lasio's own table of metre spellings contains the Cyrillic one
ENC_QUICK = ["utf-8-sig", "utf-8", "utf-16", "latin-1", "cp1252"]
ENC_EXTRA = ["utf-16-le", "utf-16-be", "utf-32", "cp1251", "koi8_r", "cp850", "iso8859_15"]
FILE_CHANNELS = ["path-str-abs", "path-str-rel", "path-obj-abs", "path-obj-rel", "fileobj"]
FILE_CHANNELS_FEW = ["path-str-rel", "path-obj-abs", "fileobj"]
EOLS = {"LF": "\n", "CRLF": "\r\n", "CR": "\r"}
SUBDIR = "sub dir"


def nonascii(s):
    return any(ord(c) > 127 for c in s)


class Gen:
    """deterministic text generator; also records what the non-ASCII fields must read back as"""

    def __init__(self, spec):
        self.spec = spec
        self.v = VOC[spec["cs"]]
        self.k = int(spec.get("v", 0))
        self.lines = []
        self.exp = []   # (section key, mnemonic as written, field, expected str)

    def pick(self, what):
        lst = self.v[what]
        self.k += 1
        return lst[self.k % len(lst)]

    def phrase(self):
        return self.pick("words") + " " + self.pick("words")

    def item(self, sec, mnem, unit, value, descr):
        self.lines.append("%s.%s   %s : %s" % (mnem, unit, value, descr))
        for field, s in (("unit", unit), ("value", value), ("descr", descr)):
            if isinstance(s, str) and nonascii(s):
                self.exp.append((sec, mnem, field, s))
        if nonascii(mnem):
            self.exp.append((sec, mnem, "mnemonic", mnem))

    def pad(self, n):
        for i in range(n):
            extra = (" " + self.pick("words")) if i % 7 == 3 else ""
            self.lines.append("# filler %04d %s%s" % (i, "x" * 48, extra))


def build(spec):
    """spec -> (text with '\n' line ends, expectations, custom section key or None)"""
    g = Gen(spec)
    secs = spec["secs"]
    nrows, ncur = spec["nrows"], spec["ncur"]
    du = DEPTH_UNIT.get(spec["cs"], "M")
    L = g.lines
    if spec.get("shift") is not None:
        L.append("#" + "=" * int(spec["shift"]))
    pad_where, pad_n = spec.get("pad", ["none", 0])
    if pad_where == "top":
        g.pad(pad_n)
    item_secs = [s for s in secs if s in "VWCPX"]
    mid_after = item_secs[-1] if item_secs else None
    if pad_where == "mid" and mid_after is None:
        g.pad(pad_n)

    def title(t, letter):
        L.append("~%s %s" % (t, g.pick("titles")))
        if pad_where == "mid" and letter == mid_after:
            g.pad(pad_n)

    xkey = None
    for s in secs:
        if s == "V":
            title("Version", s)
            g.item("Version", "VERS", "", "2.0", g.phrase())
            g.item("Version", "WRAP", "", "NO", g.phrase())
        elif s == "W":
            title("Well", s)
            g.item("Well", "STRT", du, "100.0", g.phrase())
            g.item("Well", "STOP", du, "%.1f" % (100.0 + 0.5 * (nrows - 1)), "STOP")
            g.item("Well", "STEP", du, "0.5", "STEP")
            g.item("Well", "NULL", "", "-999.25", g.phrase())
            L.append("# " + g.phrase())
            g.item("Well", "COMP", "", g.phrase(), g.phrase())
            g.item("Well", "WELL", "", g.phrase(), "WELL")
            g.item("Well", g.v["mnems"][0], g.pick("units"), g.phrase(), g.phrase())
        elif s == "C":
            title("Curve", s)
            g.item("Curves", "DEPT", du, "", g.phrase())
            for j in range(1, ncur):
                m = g.v["mnems"][1] if j == ncur - 1 else "C%d" % j
                g.item("Curves", m, g.pick("units"), "", g.phrase())
        elif s == "P":
            title("Parameter", s)
            g.item("Parameter", "BHT", g.pick("units"), g.phrase(), g.phrase())
            g.item("Parameter", g.v["mnems"][2 % len(g.v["mnems"])], g.pick("units"), g.phrase(), g.phrase())
            L.append("#" + g.phrase())
            g.item("Parameter", "MUD", "", g.phrase(), g.phrase())
        elif s == "X":
            t = "Xtra " + g.pick("titles")
            xkey = t
            L.append("~" + t)
            if pad_where == "mid" and s == mid_after:
                g.pad(pad_n)
            if nonascii(t):
                g.exp.append((t, "", "section-title", t))
            g.item(t, "KEYA", "", g.phrase(), g.phrase())
            g.item(t, g.v["mnems"][3 % len(g.v["mnems"])], g.pick("units"), g.phrase(), g.phrase())
        elif s == "O":
            title("Other", s)
            for _ in range(3):
                ln = g.phrase() + " " + g.pick("words")
                L.append(ln)
                if nonascii(ln):
                    g.exp.append(("Other", "", "other-line", ln))
    L.append("~ASCII %s" % g.pick("titles"))
    kind = spec["data"]
    for i in range(nrows):
        depth = 100.0 + 0.5 * i
        vals = []
        for j in range(1, ncur):
            x = ((i * 7 + j * 3) % 23) * 0.25 + 1.0
            if kind == "neg" or (kind in ("plain", "runon") and (i + j) % 3 == 0 and i > 0):
                x = -x
            if kind == "plain" and i == 1 and j == 1:
                x = -999.25
            vals.append(x)
        if kind == "neg":
            row = "%.2f  -%.3f" % (depth, 1.0 + i) + "".join("  %.3f" % x for x in vals[1:])
        elif kind == "runon" and i % 2 == 1 and ncur >= 2:
            row = "%.2f%s" % (depth, "".join(("%.3f" % x if x < 0 else "  %.3f" % x) for x in vals))
        else:
            row = "%.2f" % depth + "".join("  %.3f" % x for x in vals)
        L.append(row)
    text = "\n".join(L)
    if spec.get("final_nl", True):
        text += "\n"
    return text, g.exp, xkey


# ----------------------------------------------------------------------------
# canonical content (independent of lasio's writer/formatters)
# ----------------------------------------------------------------------------
def cv(v):
    if isinstance(v, np.ndarray):
        return ("ndarray", v.dtype.kind, [repr(x) for x in v.ravel().tolist()])
    return (type(v).__name__, repr(v))


def items_of(sec):
    return list(list.__iter__(sec))


def canon(las):
    out = {"section-order": list(las.sections.keys())}
    for key, sec in las.sections.items():
        if isinstance(sec, str):
            out["sec:" + key] = ["text", sec]
        elif isinstance(sec, list):
            out["sec:" + key] = ["items", [[it.original_mnemonic, it.mnemonic, it.unit, cv(it.value), it.descr] for it in items_of(sec)]]
        else:
            out["sec:" + key] = ["other", repr(sec)]
    data = []
    for c in items_of(las.sections["Curves"]) if isinstance(las.sections.get("Curves"), list) else []:
        a = np.asarray(c.data)
        data.append([a.dtype.kind, list(a.shape), [repr(x) for x in a.ravel().tolist()]])
    out["data"] = data
    out["index_unit"] = repr(las.index_unit)
    return out


def diff(a, b):
    """first difference between two canonical contents, as a short text"""
    for k in sorted(set(a) | set(b)):
        if a.get(k) != b.get(k):
            x, y = a.get(k), b.get(k)
            if isinstance(x, list) and isinstance(y, list) and len(x) == 2 and len(y) == 2 and isinstance(x[1], list) and isinstance(y[1], list):
                for i in range(max(len(x[1]), len(y[1]))):
                    xi = x[1][i] if i < len(x[1]) else None
                    yi = y[1][i] if i < len(y[1]) else None
                    if xi != yi:
                        return "%s[%d]: expected %r got %r" % (k, i, xi, yi)
            if k == "data" and isinstance(x, list) and isinstance(y, list):
                if len(x) != len(y):
                    return "data: %d curves expected, got %d" % (len(x), len(y))
                for i, (xi, yi) in enumerate(zip(x, y)):
                    if xi != yi:
                        return "data curve %d: expected %r got %r" % (i, str(xi)[:150], str(yi)[:150])
            return "%s: expected %r got %r" % (k, str(x)[:200], str(y)[:200])
    return "equal"


def check_expect(las, exps, case):
    bad = []
    cf = {"upper": str.upper, "lower": str.lower, "preserve": str}[case]
    for seckey, mnem, field, exp in exps:
        sec = las.sections.get(seckey)
        if sec is None:
            bad.append("section %r missing from result (keys %r)" % (seckey, list(las.sections.keys())))
            continue
        if field == "section-title":
            continue
        if field == "other-line":
            if not isinstance(sec, str) or exp not in sec.split("\n"):
                bad.append("~Other line %r not in %r" % (exp, sec))
            continue
        m = cf(mnem)
        found = [it for it in items_of(sec) if it.original_mnemonic == m]
        if len(found) != 1:
            bad.append("section %s: %d items with mnemonic %r (have %r)" % (seckey, len(found), m, [it.original_mnemonic for it in items_of(sec)]))
            continue
        if field == "mnemonic":
            continue
        got = getattr(found[0], field)
        if got != exp:
            bad.append("section %s item %r %s: wrote %r read %r" % (seckey, m, field, exp, got))
    return bad


# ----------------------------------------------------------------------------
# channels
# ----------------------------------------------------------------------------
def encodable(text, enc):
    try:
        return text.encode(enc).decode(enc) == text
    except (UnicodeError, LookupError):
        return False


def store(path, text, enc, eol):
    with open(path, "wb") as f:
        f.write(text.replace("\n", EOLS[eol]).encode(enc))


def read_channel(text, chan, enc, eol, tmpdir, opts, tag):
    """-> LASFile ; tmpdir is the current working directory of this process"""
    kw = dict(opts)
    if chan == "stringio":
        return lasio.read(io.StringIO(text.replace("\n", EOLS[eol])), **kw)
    if chan == "string":
        return lasio.read(text.replace("\n", EOLS[eol]), **kw)
    os.makedirs(os.path.join(tmpdir, SUBDIR), exist_ok=True)
    name = os.path.join(SUBDIR, "w %s.las" % tag if "rel" in chan else "w_%s.LAS" % tag)   # relative to the cwd (= tmpdir)
    path = os.path.join(tmpdir, name)
    store(path, text, enc, eol)
    if enc != "utf-8-sig":
        kw["encoding"] = enc
    try:
        if chan == "path-str-abs":
            return lasio.read(path, **kw)
        if chan == "path-str-rel":
            return lasio.read(name, **kw)
        if chan == "path-obj-abs":
            return lasio.read(pathlib.Path(path), **kw)
        if chan == "path-obj-rel":
            return lasio.read(pathlib.Path(name), **kw)
        if chan == "fileobj":
            kw.pop("encoding", None)
            with open(path, "r", encoding=enc) as f:
                return lasio.read(f, **kw)
        raise ValueError(chan)
    finally:
        try:
            os.remove(path)
        except OSError:
            pass


def cells_for(text, tier, big=False):
    """the cells of one group, in execution order (a function of the text and the tier only: replay re-creates it)"""
    encs = ENC_QUICK + (ENC_EXTRA if tier == "thorough" else ["cp1251"])
    encs = [e for e in encs if encodable(text, e)]
    cells = [("stringio", "-", "CRLF"), ("string", "-", "LF"), ("string", "-", "CRLF")]
    # text-mode tell() is slow on long files: the quick tier reads the long texts through 3 of the 5 file channels
    chans = FILE_CHANNELS_FEW if (big and tier == "quick") else FILE_CHANNELS
    for enc in encs:
        for eol in ("LF", "CRLF", "CR"):
            for chan in chans:
                cells.append((chan, enc, eol))
    return cells


def run_matrix_group(task):
    """reads one text through every channel; returns list of (key, nontrivial, sample, fails)"""
    spec, opts, tier, tmpdir = task["spec"], task["opts"], task["tier"], task["tmpdir"]
    only = task.get("only")
    text, exps, _ = build(spec)
    na = nonascii(text)
    out = []
    try:
        ref_las = lasio.read(io.StringIO(text), **opts)
        ref = canon(ref_las)
    except Exception as e:
        return [(("stringio", "-", "LF"), na, None, [("read-does-not-raise", ("stringio", "-", "LF"), "reference StringIO read raised %r" % (e,))])]
    bad = check_expect(ref_las, exps, opts.get("mnemonic_case", "upper"))
    fails = [("non-ascii-header-text-preserved", ("stringio", "-", "LF"), b) for b in bad[:1]]
    out.append((("stringio", "-", "LF"), na, None, fails))
    for n, (chan, enc, eol) in enumerate(cells_for(text, tier, big=spec.get("pad", ["none", 0])[1] > 0)):
        fails = []
        try:
            las = read_channel(text, chan, enc, eol, tmpdir, opts, "%d" % n)
        except Exception as e:
            fails.append(("read-does-not-raise", (chan, enc, eol), "%r" % (e,)))
        else:
            c = canon(las)
            if c != ref:
                fails.append(("same-result-as-stringio", (chan, enc, eol), diff(ref, c)))
            bad = check_expect(las, exps, opts.get("mnemonic_case", "upper"))
            if bad:
                fails.append(("non-ascii-header-text-preserved", (chan, enc, eol), bad[0]))
        out.append(((chan, enc, eol), na, None, fails))
        if only and list(only) == [chan, enc, eol]:
            break
    return out


def matrix_klass(spec, opts, cell):
    chan, enc, eol = cell
    return "cs=%s;chan=%s;enc=%s;eol=%s;engine=%s;case=%s;big=%d;secs=%s;data=%s" % (
        spec["cs"], chan, enc, eol, opts.get("engine", "numpy"), opts.get("mnemonic_case", "upper"),
        int(spec.get("pad", ["none", 0])[1] > 0), spec["secs"], spec["data"])


# ----------------------------------------------------------------------------
# purity scenarios
# ----------------------------------------------------------------------------
ACTIONS = ["edit-items", "append-items", "delete-items", "append-curve", "delete-curve", "inplace-data",
           "set-other", "replace-sections", "write20", "write12", "write-file", "read-neg", "read-neg-mutate",
           "fresh-mutate", "path-reuse", "reread-mutate", "read-v12-wrapped", "read-comma", "read-opts"]
# other texts whose header steers the parser differently (version 1.2 order, WRAP YES, NULL 3.0 - a value that
# occurs in the data of the generated texts -, DLM COMMA): nothing of this may leak into a later read
U_V12 = """~Version Information
VERS.   1.2 : CWLS LOG ASCII STANDARD - VERSION 1.2
WRAP.   YES : Multiple lines per depth step
~Well Information
STRT.M   10.0 : START
STOP.M   11.0 : STOP
STEP.M   0.5 : STEP
NULL.   3.0 : NULL
COMP.   COMPANY : Ünï Öl AG
WELL.   WELL : Bohrung 7
~Curve Information
DEPT.M   : depth
AA.  : a
BB.  : b
CC.  : c
~Parameter
BHT.DEGC  35.5 : temp
~A
10.0
1.0 2.0
3.0
10.5
4.0 5.0
6.0
11.0
7.0 3.0
9.0
"""
U_COMMA = """~Version
VERS.  2.0 : v
WRAP.  NO : w
DLM.   COMMA : d
~Well
STRT.M 1.0 : s
STOP.M 2.0 : s
STEP.M 1.0 : s
NULL.  -1.5 : n
~Curve
DEPT.M : d
X. : x
Y. : y
~A
1.0,2.5,-1.5
2.0,3.5,4.5
"""
READ_OPTS = dict(mnemonic_case="lower", null_policy="all", ignore_comments=("#", "S"), engine="normal", index_unit="ft",
                 read_policy=(), ignore_data_comments="9")
# the "other" text: no ~V/~W/~P (reading it touches the default sections), a hyphen in every data line
U_SPEC = {"cs": "latin", "secs": "C", "nrows": 4, "ncur": 3, "data": "neg", "v": 3}
NSEQ2 = len(ACTIONS) + len(ACTIONS) ** 2
PURITY_CHANS = [("stringio", "-", "LF"), ("path-str-abs", "utf-8-sig", "CRLF"), ("path-obj-rel", "utf-16", "LF"),
                ("fileobj", "latin-1", "CR"), ("string", "-", "CRLF"), ("path-str-rel", "cp1252", "CR"),
                ("path-obj-abs", "utf-8", "CRLF")]


def edit_items(las):
    for key, sec in list(las.sections.items()):
        if isinstance(sec, list):
            for it in items_of(sec):
                it.value = "Ü-mutated"
                it.unit = "µ"
                it.descr = "mutated é"
            if len(sec):
                items_of(sec)[0].mnemonic = "ZZ"


class ReadFailed(Exception):
    pass


def must_read(ctx, f):
    try:
        return f()
    except Exception as e:
        ctx["fails"].append(("interleaved-read-does-not-raise", "%r" % (e,)))
        raise ReadFailed()


def apply_action(a, r1, ctx):
    """mutations act on r1 (an EARLIER result); everything here is ordinary public API use"""
    if a == "edit-items":
        edit_items(r1)
    elif a == "append-items":
        r1.well.append(HeaderItem("NEWÉ", "u", "x", "d"))
        r1.version.append(HeaderItem("VX", "", 5, "d"))
        r1.params["QQ"] = HeaderItem("QQ", "", 1, "d")
        r1.curves.append(lasio.CurveItem("EXTRA", "u", "", "d", data=np.zeros(len(r1.curves[0].data) if len(r1.curves) else 0)))
    elif a == "delete-items":
        for sec in (r1.version, r1.well, r1.params):
            if len(sec):
                del sec[0]
        if "NULL" in r1.well:
            del r1.well["NULL"]
    elif a == "append-curve":
        n = len(r1.curves[0].data) if len(r1.curves) else 3
        r1.append_curve("NEWC", np.arange(n) * 1.5, unit="é", descr="appended")
    elif a == "delete-curve":
        if len(r1.curves) >= 2:
            r1.delete_curve(ix=len(r1.curves) - 1)
    elif a == "inplace-data":
        for c in items_of(r1.curves):
            if isinstance(c.data, np.ndarray) and c.data.dtype.kind == "f":
                c.data[...] = -1.0
    elif a == "set-other":
        r1.other = "changed ü"
    elif a == "replace-sections":
        r1.sections["Version"] = SectionItems()
        r1.sections["Parameter"] = SectionItems([HeaderItem("ONLY", "", 1, "")])
        r1.sections["Brand new"] = "text"
    elif a == "write20":
        r1.write(io.StringIO(), version=2.0)
    elif a == "write12":
        r1.write(io.StringIO(), version=1.2, wrap=True, fmt="%.2f")
    elif a == "write-file":
        r1.write(os.path.join(ctx["tmpdir"], "out.las"), version=2.0)
    elif a == "read-neg":
        got = canon(must_read(ctx, lambda: lasio.read(io.StringIO(ctx["U"]), **ctx["opts"])))
        if got != ctx["U_ref"]():
            ctx["fails"].append(("repeat-read-equal", "other text: " + diff(ctx["U_ref"](), got)))
    elif a == "read-neg-mutate":
        u = must_read(ctx, lambda: lasio.read(io.StringIO(ctx["U"]), **ctx["opts"]))
        edit_items(u)
        u.append_curve("UC", np.arange(len(u.curves[0].data)) * 2.0)
        u.other = "u"
    elif a in ("read-v12-wrapped", "read-comma", "read-opts"):
        txt, kw = {"read-v12-wrapped": (U_V12, {}), "read-comma": (U_COMMA, {}), "read-opts": (ctx["U"], READ_OPTS)}[a]
        first = canon(must_read(ctx, lambda: lasio.read(io.StringIO(txt), **kw)))
        again = canon(must_read(ctx, lambda: lasio.read(txt, **kw)))
        if first != again:
            ctx["fails"].append(("repeat-read-equal", "other text (%s) read twice: %s" % (a, diff(first, again))))
    elif a == "fresh-mutate":
        f = lasio.LASFile()
        edit_items(f)
        f.well.append(HeaderItem("FRESH", "", 1, ""))
        f.append_curve("FC", np.arange(3.0))
        f.params["PP"] = HeaderItem("PP", "", 2, "")
        f.other = "fresh"
    elif a == "path-reuse":
        # the path T was (or will be) read from now holds other content in another codec
        p = ctx["path"]
        store(p, ctx["U"], "utf-16", "CRLF")
        try:
            got = canon(must_read(ctx, lambda: lasio.read(p, encoding="utf-16", **ctx["opts"])))
            if got != ctx["U_ref"]():
                ctx["fails"].append(("result-follows-content-of-path", "after overwriting the path: " + diff(ctx["U_ref"](), got)))
        finally:
            ctx["restore"]()
    elif a == "reread-mutate":
        x = must_read(ctx, ctx["read_T"])
        edit_items(x)
        x.append_curve("XC", np.arange(len(x.curves[0].data)) * 1.0)
    else:
        raise ValueError(a)


def mutable_ids(las):
    ids = {}
    ids[id(las.sections)] = "sections dict"
    for key, sec in las.sections.items():
        if isinstance(sec, list):
            ids[id(sec)] = "SectionItems %s" % key
            for it in items_of(sec):
                ids[id(it)] = "item %s/%s" % (key, it.mnemonic)
    return ids


def shares(a, b):
    ia, ib = mutable_ids(a), mutable_ids(b)
    common_ids = sorted(set(ia) & set(ib))
    msgs = [ia[i] for i in common_ids]
    ca = [c.data for c in items_of(a.curves) if isinstance(c.data, np.ndarray) and c.data.size]
    cb = [c.data for c in items_of(b.curves) if isinstance(c.data, np.ndarray) and c.data.size]
    for i, x in enumerate(ca):
        for j, y in enumerate(cb):
            if np.shares_memory(x, y):
                msgs.append("data of curve %d / curve %d" % (i, j))
    return msgs


def run_purity(task):
    """-> list of (clause, detail)"""
    spec, opts, acts, cell, tmpdir = task["spec"], task["opts"], task["acts"], tuple(task["cell"]), task["tmpdir"]
    chan, enc, eol = cell
    text, _, _ = build(spec)
    U, _, _ = build(U_SPEC)
    fails = []
    is_path = chan.startswith("path")
    os.makedirs(os.path.join(tmpdir, SUBDIR), exist_ok=True)
    name = os.path.join(SUBDIR, "w p.las" if "rel" in chan else "w_p.LAS")
    path = os.path.join(tmpdir, name)

    def restore():
        if is_path:
            store(path, text, enc, eol)

    def read_T():
        if not is_path:
            return read_channel(text, chan, enc, eol, tmpdir, opts, "p")
        kw = dict(opts)
        if enc != "utf-8-sig":
            kw["encoding"] = enc
        ref = {"path-str-abs": path, "path-str-rel": name, "path-obj-abs": pathlib.Path(path), "path-obj-rel": pathlib.Path(name)}[chan]
        return lasio.read(ref, **kw)

    restore()
    uref = []

    def U_ref():
        if not uref:
            uref.append(canon(must_read(ctx, lambda: lasio.read(io.StringIO(U), **opts))))
        return uref[0]

    ctx = {"tmpdir": tmpdir, "opts": opts, "U": U, "U_ref": U_ref, "path": path if is_path else os.path.join(tmpdir, "other.las"),
           "restore": restore, "read_T": read_T, "fails": []}
    try:
        r1 = read_T()
        snap = canon(r1)
        w = read_T()
    except Exception as e:
        return [("read-does-not-raise", "first reads raised %r" % (e,))]
    if canon(w) != snap:
        fails.append(("repeat-read-equal", "second read right after the first: " + diff(snap, canon(w))))
    sh = shares(r1, w)
    if sh:
        fails.append(("results-share-no-mutable-objects", "first and second result share %r" % (sh[:4],)))
    for a in acts:
        try:
            apply_action(a, r1, ctx)
        except Exception:
            pass    # whether a mutation is accepted is not this property's business
    for clause, detail in ctx["fails"]:
        fails.append((clause, detail))
    cw = canon(w)
    if cw != snap:
        fails.append(("result-unchanged-by-activity-on-other-objects", "untouched earlier result changed: " + diff(snap, cw)))
    try:
        r2 = read_T()
    except Exception as e:
        fails.append(("repeat-read-equal", "re-read raised %r" % (e,)))
    else:
        c2 = canon(r2)
        if c2 != snap:
            fails.append(("repeat-read-equal", "re-read after %r: %s" % (acts, diff(snap, c2))))
        sh = shares(r2, r1) + shares(r2, w)
        if sh:
            fails.append(("results-share-no-mutable-objects", "new result shares %r with an earlier one" % (sh[:4],)))
    return fails


def purity_klass(spec, opts, acts, cell):
    return "secs=%s;data=%s;chan=%s;enc=%s;engine=%s;acts=%s" % (spec["secs"], spec["data"], cell[0], cell[1], opts.get("engine", "numpy"), "+".join(acts))


def run_fresh(task):
    a, b = lasio.LASFile(), lasio.LASFile()
    fails = []
    sh = shares(a, b)
    if sh:
        fails.append(("fresh-lasfiles-share-no-item-objects", "two LASFile() share %r" % (sh[:5],)))
    snap = canon(b)
    edit_items(a)
    a.well.append(HeaderItem("Q", "", 1, ""))
    a.append_curve("C", np.arange(3.0))
    a.other = "x"
    if canon(b) != snap:
        fails.append(("fresh-lasfiles-share-no-item-objects", "mutating one fresh LASFile changed another: " + diff(snap, canon(b))))
    return fails


# ----------------------------------------------------------------------------
# process isolation: every task in a newly forked process with its own directory
# ----------------------------------------------------------------------------
def run_task(task):
    d = tempfile.mkdtemp(dir=task["top"])
    try:
        os.chdir(d)
        task = dict(task, tmpdir=d)
        if task["kind"] == "matrix":
            return ("matrix", run_matrix_group(task))
        if task["kind"] == "purity":
            return ("purity", run_purity(task))
        return ("fresh", run_fresh(task))
    except BaseException:
        return ("crash", traceback.format_exc())
    finally:
        os.chdir(task["top"])
        shutil.rmtree(d, ignore_errors=True)


def worker(task):
    """run one task in a newly forked child (own interpreter state, own directory); result comes back through a pipe"""
    r, w = os.pipe()
    pid = os.fork()
    if pid == 0:
        code = 0
        try:
            os.close(r)
            data = pickle.dumps(run_task(task))
            with os.fdopen(w, "wb") as f:
                f.write(data)
        except BaseException:
            code = 1
        finally:
            os._exit(code)
    os.close(w)
    with os.fdopen(r, "rb") as f:
        data = f.read()
    os.waitpid(pid, 0)
    try:
        return pickle.loads(data)
    except Exception:
        return ("crash", "child process of task died without a result")


def worker_chunk(tasks):
    return [worker(t) for t in tasks]


def align_shift(spec, enc, eol, what):
    """number of filler characters in a first comment line such that, stored as (enc, eol), a CRLF pair
    (what='crlf') or a multi-unit character (what='char') straddles the first 8192-byte chunk boundary;
    None when no such alignment exists for this text"""
    text, _, _ = build(dict(spec, shift=0))
    raw_text = text.replace("\n", EOLS[eol])
    base = {"utf-8-sig": "utf-8", "utf-16": "utf-16-le", "utf-32": "utf-32-le"}.get(enc, enc)
    w = len("=".encode(base))
    pos = len("".encode(enc))   # BOM, if the codec writes one
    best = None
    for i, ch in enumerate(raw_text):
        n = len(ch.encode(base))
        hit = (what == "crlf" and ch == "\r" and raw_text[i + 1:i + 2] == "\n") or (what == "char" and n > w)
        if hit:
            target = CHUNK - w
            if pos <= target and (target - pos) % w == 0:
                best = (target - pos) // w
        pos += n
        if pos > CHUNK:
            break
    return best


def matrix_specs(tier):
    specs = []
    full = "VWCPXO"
    for cs in ("latin", "cyr", "sep", "astral", "win", "nlbyte", "ascii"):
        specs.append({"cs": cs, "secs": full, "nrows": 5, "ncur": 4, "data": "plain", "v": 0})
        specs.append({"cs": cs, "secs": full, "nrows": 40, "ncur": 3, "data": "plain", "v": 1, "pad": ["mid", 150]})
        specs.append({"cs": cs, "secs": "VWCOPX", "nrows": 6, "ncur": 2, "data": "runon", "v": 2, "final_nl": False})
        specs.append({"cs": cs, "secs": "CPO", "nrows": 5, "ncur": 3, "data": "neg", "v": 3})
        specs.append({"cs": cs, "secs": "WXP", "nrows": 3, "ncur": 2, "data": "plain", "v": 4, "pad": ["top", 140]})
    # chunk-boundary alignments on the big text
    for cs, enc, eol, what in (("latin", "utf-8", "CRLF", "crlf"), ("latin", "utf-8", "LF", "char"), ("cyr", "utf-16", "CRLF", "crlf"),
                               ("astral", "utf-16", "LF", "char"), ("latin", "latin-1", "CRLF", "crlf"), ("sep", "utf-8-sig", "CRLF", "char")):
        s = {"cs": cs, "secs": full, "nrows": 30, "ncur": 3, "data": "plain", "v": 5, "pad": ["mid", 150]}
        sh = align_shift(s, enc, eol, what)
        if sh is not None:
            specs.append(dict(s, shift=sh))
    if tier == "thorough":
        for cs in ("latin", "cyr", "sep", "astral", "win", "nlbyte"):
            for secs in ("", "V", "W", "C", "P", "O", "X", "VW", "WC", "VWC", "VWCP", "OVWCP", "XOPCWV"):
                for data in ("plain", "neg", "runon"):
                    if data == "neg" and "C" not in secs:
                        continue
                    specs.append({"cs": cs, "secs": secs, "nrows": 4, "ncur": 3, "data": data, "v": len(secs) + 6})
            for padn in (60, 130, 260):
                for where in ("top", "mid"):
                    specs.append({"cs": cs, "secs": full, "nrows": 120 if padn == 260 else 12, "ncur": 5, "data": "plain", "v": padn, "pad": [where, padn]})
            for sh in range(0, 70, 7):
                specs.append({"cs": cs, "secs": full, "nrows": 12, "ncur": 3, "data": "plain", "v": 7, "pad": ["mid", 126], "shift": sh})
    return specs


def option_sets(tier):
    if tier == "thorough":
        return [{"engine": "numpy", "mnemonic_case": "upper"}, {"engine": "normal", "mnemonic_case": "preserve"},
                {"engine": "normal", "mnemonic_case": "lower"}, {"engine": "numpy", "mnemonic_case": "preserve"}]
    return [{"engine": "numpy", "mnemonic_case": "upper"}, {"engine": "normal", "mnemonic_case": "preserve"}]


def matrix_tasks(tier):
    tasks = []
    osets = option_sets(tier)
    n_ascii = 0
    for i, spec in enumerate(matrix_specs(tier)):
        if spec["cs"] == "ascii":       # trivial control: one layout in the quick tier
            n_ascii += 1
            if tier == "quick" and n_ascii > 1:
                continue
        # quick: the option sets alternate over the layouts; thorough: two of the four per layout, rotating
        for opts in ([osets[i % len(osets)]] if tier == "quick" else [osets[i % 4], osets[(i + 1 + i // 4 % 2) % 4]]):
            tasks.append({"kind": "matrix", "spec": spec, "opts": opts, "tier": tier})
    return tasks


def purity_tasks(tier, seed):
    rng = random.Random(seed)
    # the first text (no ~V, ~W, ~P: every default section survives the read) gets every sequence of <= 2 actions
    secs_pool = ["C", "VWCPXO", "", "WCO"] if tier == "quick" else ["C", "VWCPXO", "", "WCO", "CPO", "VC", "VWPO", "W", "V", "P", "VWC", "O", "X"]
    tspecs = []
    for i, secs in enumerate(secs_pool):
        tspecs.append({"cs": "latin", "secs": secs, "nrows": 4, "ncur": 3, "data": "runon" if i % 2 == 0 else "plain", "v": i})
    singles = [(a,) for a in ACTIONS]
    pairs = list(itertools.product(ACTIONS, repeat=2))
    tasks = []
    n = 0
    for k, spec in enumerate(tspecs):
        if k == 0 or (tier == "thorough" and k < 7):
            seqs = singles + pairs
        else:
            seqs = singles + rng.sample(pairs, 24 if tier == "quick" else 60)
        for acts in seqs:
            cell = PURITY_CHANS[n % len(PURITY_CHANS)]
            opts = {"engine": "normal"} if n % 3 == 2 else {}
            n += 1
            tasks.append({"kind": "purity", "spec": spec, "opts": opts, "acts": list(acts), "cell": list(cell)})
    if tier == "thorough":
        for _ in range(3000):
            spec = rng.choice(tspecs)
            acts = [rng.choice(ACTIONS) for _ in range(rng.choice((3, 3, 4)))]
            cell = rng.choice(PURITY_CHANS)
            opts = rng.choice(({}, {"engine": "normal"}, {"mnemonic_case": "preserve"}))
            tasks.append({"kind": "purity", "spec": spec, "opts": opts, "acts": acts, "cell": list(cell)})
    return tasks


def build_run(tier, seed):
    run = Run("C10",
              "a matrix case (text, options, channel, codec, line end) is non-trivial when the text holds non-ASCII header characters; "
              "a purity scenario (text, channel, action sequence) is non-trivial always (>= 1 action between the snapshot and the re-read); "
              "counted: distinct (spec, options, cell) and distinct (spec, options, cell, actions)",
              "generated LAS 2.0 texts with non-ASCII header content x {StringIO, string, str path abs/rel, Path abs/rel, open text file} x "
              "{utf-8 BOM sniffed; utf-8, utf-16, latin-1, cp1252 (+cp1251%s) with encoding=} x {LF, CRLF, CR(files)}; "
              "purity scenarios over an alphabet of %d actions" % (" utf-16-le/be utf-32 koi8_r cp850 iso8859_15" if tier == "thorough" else "", len(ACTIONS)),
              "texts: 6 character families x %s layouts; action sequences of length <= 2: %s" % (
                  "5 + chunk alignments" if tier == "quick" else "~60",
                  "all %d on the text without ~V/~W/~P, %d singles + 24 sampled pairs on 3 more texts" % (NSEQ2, len(ACTIONS)) if tier == "quick"
                  else "all %d on each of 7 texts, %d singles + 60 sampled pairs on 6 more, and 3000 sampled sequences of length 3-4" % (NSEQ2, len(ACTIONS))))
    top = tempfile.mkdtemp(prefix="c10_", dir=os.environ.get("VERIF_SCRATCH", "/var/tmp"))
    try:
        tasks = [{"kind": "fresh"}]
        tasks += matrix_tasks(tier)
        tasks += purity_tasks(tier, seed)
        for t in tasks:
            t["top"] = top
        nproc = 4 if tier == "quick" else 16
        ctx = multiprocessing.get_context("fork")
        chunks = [tasks[i:i + 8] for i in range(0, len(tasks), 8)]
        with ctx.Pool(processes=nproc) as pool:
            results = [r for chunk in pool.map(worker_chunk, chunks, chunksize=1) for r in chunk]
        crashes = 0
        for t, (kind, res) in zip(tasks, results):
            t = {k: v for k, v in t.items() if k != "top"}
            if kind == "crash":
                crashes += 1
                run.fail("harness-task-crashed", "kind=%s" % t["kind"], t, res[-500:])
                continue
            if kind == "matrix":
                for cell, na, _, fails in res:
                    key = json.dumps([t["spec"], t["opts"], list(cell)], sort_keys=True)
                    run.case(key, nontrivial=na, sample={"spec": t["spec"], "opts": t["opts"], "cell": list(cell)} if (na and cell[0] == "fileobj" and cell[1] == "utf-16") else None)
                    for clause, fcell, detail in fails:
                        run.fail(clause, matrix_klass(t["spec"], t["opts"], fcell),
                                 {"kind": "matrix", "spec": t["spec"], "opts": t["opts"], "tier": tier, "cell": list(fcell)}, detail)
            elif kind == "purity":
                key = json.dumps([t["spec"], t["opts"], t["cell"], t["acts"]], sort_keys=True)
                run.case(key, nontrivial=True, n=3 + len(t["acts"]), sample=t if len(t["acts"]) == 2 and t["acts"][0] == "edit-items" else None)
                for clause, detail in res:
                    run.fail(clause, purity_klass(t["spec"], t["opts"], t["acts"], t["cell"]), t, detail)
            else:
                run.case("fresh", nontrivial=True)
                for clause, detail in res:
                    run.fail(clause, "fresh", {"kind": "fresh"}, detail)
        run.notes += [
            "every task (matrix group / purity scenario) runs in a newly forked process: failures do not depend on earlier tasks and replay re-creates the same history",
            "U+2028 / U+0085 (and U+00A0) are placed only INSIDE value/descr/~Other fields, never at a field edge and never in mnemonics, units or titles: they are Unicode white space, and LAS fields are white-space delimited, so an edge occurrence is not clearly 'header text'",
            "generator expectations are checked only for fields that hold non-ASCII text (unit, value, descr, mnemonic via str.upper/lower for mnemonic_case, custom section title as key, ~Other lines by membership); numeric data is compared across channels only",
            "chardet / ad-hoc detection without BOM is not exercised (not part of the statement); a BOM file read with an explicit encoding= is left out; only LAS 2.0 layouts (1.2 descr:value order belongs to C05/C12)",
            "CR line ends only for files (universal newlines); strings/StringIO with LF and CRLF; text file objects are opened with the default newline=None",
            "exceptions raised by a mutation action are ignored (acceptance of a mutation is not part of C10)",
            "chunk-boundary alignments (CRLF or a multi-byte character straddling byte 8192) cross-check the assumed io/codecs theory T-io",
        ]
        if crashes:
            run.notes.append("%d tasks crashed inside the harness" % crashes)
    finally:
        shutil.rmtree(top, ignore_errors=True)
    return run


def replay_one(entry):
    inp = entry["input"]
    top = tempfile.mkdtemp(prefix="c10r_", dir=os.environ.get("VERIF_SCRATCH", "/var/tmp"))
    try:
        task = dict(inp, top=top)
        if inp["kind"] == "matrix":
            task["only"] = inp["cell"]
        kind, res = worker(task)
        if kind == "crash":
            return (entry["clause"] == "harness-task-crashed"), res[-400:]
        found = []
        if kind == "matrix":
            for cell, na, _, fails in res:
                for clause, fcell, detail in fails:
                    found.append((clause, list(fcell), detail))
                    if clause == entry["clause"] and list(fcell) == list(inp["cell"]):
                        return True, detail
        else:
            for clause, detail in res:
                found.append((clause, detail))
                if clause == entry["clause"]:
                    return True, detail
        return False, "clause %s holds on this input now (other failures: %r)" % (entry["clause"], found[:3])
    finally:
        shutil.rmtree(top, ignore_errors=True)


if __name__ == "__main__":
    main("C10", build_run, replay_one)
