"""C11 bounded stand-in / CPython cross-check: lasio's own output is a fixed point
of read->write.

For every accepted input x (example corpus, generated files, single-line mutations
of both) and every writer option set o:

    r0 = read(x); t1 = write(r0, o)             (x is skipped when either raises)
    r1 = read(t1); t2 = write(r1, o); r2 = read(t2)   require canon(r2) == canon(r1)
    t3 = write(r2, o); r3 = read(t3)                  require canon(r3) == canon(r2)
    t4 = write(r3, o); r4 = read(t4)                  require canon(r4) == canon(r3)

canon() is taken directly after each read (write() mutates its LASFile) and is
built by this file from the attributes of the items: per section the list of
(original mnemonic, unit, value, descr) with numeric values compared numerically,
the ~Other text, and the per-curve data arrays compared exactly and NaN-aware.
Nothing is compared against x: only lasio's own output has to be a fixed point.

Clauses: own-output-readable / own-output-rewritable (a re-read or re-write of
lasio's own text raises), same-version-items, same-well-items, same-curve-items,
same-parameter-items, same-other-section, same-curve-data.  All clauses failing at
the first failing cycle are reported (one each).

klass (input shape only, never the symptom, never the file name):
  src=corpus|gen ; mut=<kind>@<section>|none ; ver=<effective>(opt|file) ;
  wrap=<T|F>(opt|file) ; idxfmt=exact|lossy (does fmt reproduce the index values of
  the input?) ; wraplines=row-per-line|uniform-short|ragged|- (token counts of the
  first 22 wrapped lines in a reference layout of the input's data: all equal to the
  number of curves / all equal but different / mixed) ; shape=<1|N>x<1|N> (curves x
  rows) ; dlm=<DLM item of the input> ; strdata=none|plain|spaces ; dotunit=0|1 (a
  header line with '..x' left of the colon, e.g. a .1IN unit) ; for the clauses that
  depend on the data layout also fmt, lnf, sp, mh ; for generated files the name
  scheme, whether ~P is empty and (data clauses) the value kind.
"""
import sys
import os
sys.path.insert(0, os.path.dirname(os.path.abspath(__file__)))
import common
from common import Run, main

import io
import re
import glob
import textwrap
import json
import random
import multiprocessing

import numpy as np
import lasio

PROP = "C11"
MAX_CYCLES = 4          # cycle counts 2..4: comparisons (r1,r2), (r2,r3), (r3,r4)
BIG_ROWS = 2000         # corpus files with more data rows get the reduced option list


# --------------------------------------------------------------------------- corpus

def examples_root():
    for base in (common.REPO, "/repo"):
        p = os.path.join(base, "tests", "examples")
        if os.path.isdir(p):
            return p
    raise RuntimeError("no tests/examples")


def corpus_files():
    root = examples_root()
    out = []
    for sub in ("", "1.2", "2.0"):
        for f in sorted(glob.glob(os.path.join(root, sub, "*.las"))):
            out.append(os.path.relpath(f, root))
    return out


def corpus_text(rel):
    """decoded by this file (for mutations); None when not plain utf-8/ascii"""
    with open(os.path.join(examples_root(), rel), "rb") as f:
        raw = f.read()
    try:
        t = raw.decode("utf-8-sig")
    except UnicodeDecodeError:
        return None
    if "\x00" in t:
        return None
    return "\n".join(t.splitlines()) + "\n"


# ------------------------------------------------------------------------ generated

VALKINDS = ("dec3", "int", "big", "tiny", "neg", "prec", "nulls", "mixed")
IDXKINDS = ("asc", "desc", "irregular", "fine")
NAMEKINDS = ("distinct", "dupes", "blank", "lower")
GEN_NC = (1, 2, 3, 6, 7, 8, 14, 15)
GEN_NR = (1, 2, 3, 5)


def gen_params(rng):
    return {
        "vers": rng.choice(["1.2", "2.0"]),
        "wrap": rng.choice(["NO", "NO", "YES"]),
        "nc": rng.choice(GEN_NC),
        "nr": rng.choice(GEN_NR),
        "idx": rng.choice(IDXKINDS),
        "val": rng.choice(VALKINDS),
        "names": rng.choice(NAMEKINDS),
        "unit": rng.choice(["M", "FT", "", "M", "FT", "", "M", ".1IN"]),
        "other": rng.choice([0, 1]),
        "params": rng.choice([0, 1, 1]),
        "pad": rng.choice([0, 1]),
        "dlm": rng.choice([""] * 7 + ["SPACE", "COMMA", "TAB"]),
        "s": rng.randrange(10 ** 6),
    }


def gen_text(p):
    """a small conformant LAS text determined by the parameter dict"""
    rng = random.Random(p["s"])
    nc, nr = p["nc"], p["nr"]
    if p["idx"] == "asc":
        idx = [1000.0 + 0.5 * i for i in range(nr)]
    elif p["idx"] == "desc":
        idx = [1000.0 - 0.25 * i for i in range(nr)]
    elif p["idx"] == "irregular":
        idx = [10.0, 10.5, 12.25, 12.3, 40.0][:nr]
    else:
        idx = [0.1 + 0.1524 * i for i in range(nr)]

    def val():
        k = p["val"]
        if k == "mixed":
            k = rng.choice(VALKINDS[:-1])
        if k == "dec3":
            return "%.3f" % rng.uniform(0, 200)
        if k == "int":
            return "%d" % rng.randrange(-50, 5000)
        if k == "big":
            return "%.2f" % rng.uniform(1e6, 1e9)
        if k == "tiny":
            return "%.9f" % rng.uniform(0, 1e-4)
        if k == "neg":
            return "%.4f" % rng.uniform(-500, 0)
        if k == "prec":
            return repr(rng.random() * 100)
        return rng.choice(["-999.25", "%.3f" % rng.uniform(0, 10)])

    pool = ["GR", "RHOB", "NPHI", "DT", "CALI", "SP", "ILD", "ILM", "SFLU", "PEF", "DRHO", "RT", "RXO", "TENS"]
    names = []
    for j in range(nc - 1):
        if p["names"] == "distinct":
            names.append(pool[j % len(pool)] + ("" if j < len(pool) else str(j)))
        elif p["names"] == "dupes":
            names.append(pool[j % 3])
        elif p["names"] == "blank":
            names.append("" if j % 2 == 0 else pool[j % len(pool)] + str(j))
        else:
            names.append((pool[j % len(pool)] + ("" if j < len(pool) else str(j))).lower())
    u = p["unit"]
    pad = "  " if p.get("pad", 0) else ""
    step = (idx[1] - idx[0]) if nr > 1 else 0.0
    t = ["~Version Information",
         " VERS.   %s : CWLS LOG ASCII STANDARD" % p["vers"],
         " WRAP.   %s : wrap mode" % p["wrap"]]
    dlm = p.get("dlm", "")
    if dlm:
        t.append(" DLM .   %s : delimiter" % dlm)
    sep = {"": " ", "SPACE": " ", "COMMA": ",", "TAB": "\t"}[dlm]
    t += ["~Well Information",
         " STRT%s.%s  %.4f : START DEPTH" % (pad, u, idx[0]),
         " STOP%s.%s  %.4f : STOP DEPTH" % (pad, u, idx[-1]),
         " STEP%s.%s  %.4f : STEP" % (pad, u, step),
         " NULL.   -999.25 : NULL VALUE"]
    if p["vers"] == "1.2":
        t += [" COMP.   COMPANY : ANY OIL COMPANY INC.", " WELL.   WELL : ANY ET AL 12-34", " UWI .   UNIQUE WELL ID : 100123401234W500"]
    else:
        t += [" COMP.   ANY OIL COMPANY INC. : COMPANY", " WELL.   ANY ET AL 12-34 : WELL", " UWI .   100123401234W500 : UNIQUE WELL ID"]
    t += ["~Curve Information", " DEPT%s.%s   : 1 DEPTH" % (pad, u)]
    for j, n in enumerate(names):
        t.append(" %s.%s  %s : %d curve %d" % (n, ["", "GAPI", "K/M3", "OHMM"][j % 4], ["", "45 310 01 00"][j % 2], j + 2, j))
    t += ["~Parameter Information"]
    if p.get("params", 1):
        t += [" BHT .DEGC  35.5000 : BOTTOM HOLE TEMPERATURE", " MUD .  GEL CHEM : MUD TYPE", " BS  .MM  200 : BIT SIZE"]
    if p["other"]:
        t += ["~Other", "Note: some free text, 1.5 : x.", "  second line"]
    t.append("~A  DEPTH" + "".join("  C%d" % j for j in range(nc - 1)))
    for i in range(nr):
        fields = ["%.4f" % idx[i]] + [val() for _ in range(nc - 1)]
        if p["wrap"] == "YES":
            t.append(fields[0])
            for k in range(1, len(fields), 6):
                t.append(sep.join(fields[k:k + 6]))
        else:
            t.append(sep.join(fields))
    return "\n".join(t) + "\n"


# ------------------------------------------------------------------------ mutations

LONG_WORDS = " ".join(["LONGFIELD%02d" % i for i in range(9)])   # 107 chars, with blanks
LONG_SOLID = "X" * 85

# kind -> (mnemonic, unit, left field, right field); the line is "mnem.unit left : right"
ITEM_KINDS = {
    "blank-mnem-unit": ("", "M", "12", "blank mnemonic with unit"),
    "blank-mnem-nounit": ("", "", "12", "blank mnemonic"),
    "blank-mnem-dotted": ("", "M", "12.5", "blank mnemonic dotted value"),
    "unit=.1IN": ("ODDU", ".1IN", "12.5", "odd unit"),
    "unit=0.1IN": ("ODDU", "0.1IN", "12.5", "odd unit"),
    "unit=1000 psi": ("ODDU", "1000 psi", "12.5", "odd unit"),
    "unit=1000": ("ODDU", "1000", " 12.5", "numeric unit"),
    "unit=[M]": ("ODDU", "[M]", "12.5", "bracketed unit"),
    "unit=[[[M]]]": ("ODDU", "[[[M]]]", "12.5", "nested bracketed unit"),
    "unit=OHM.M": ("ODDU", "OHM.M", "12.5", "dotted unit"),
    "unit=%": ("ODDU", "%", "12.5", "percent unit"),
    "empty-unit": ("EMPU", "M", "", "empty value with unit"),
    "empty-nounit": ("EMPN", "", "", "empty value without unit"),
    "empty-unit-nodescr": ("EMPU", "M", "", ""),
    "empty-all": ("EMPA", "", "", ""),
    "empty-wide-unit": ("EMPW", "U" * 45, "", "empty value, widest unit"),
    "unit=1000-wide": ("ODDW", "1000", " 1234567890123456789012345678901234567890.5", "numeric unit, widest value"),
    "long-left": ("LNGV", "", LONG_WORDS, "long value"),
    "long-left-unit": ("LNGV", "M", LONG_WORDS, "long value"),
    "long-left-solid": ("LNGV", "", LONG_SOLID, "long value"),
    "long-right": ("LNGD", "", "1.5", LONG_WORDS),
    "long-mnem": ("M" * 85, "", "1.5", "long mnemonic"),
    "long-unit": ("LNGU", "U" * 85, "1.5", "long unit"),
    "val=colon-text": ("COLN", "", "a: b", "colon in left field"),
    "val=time": ("TIME", "", "12:30:05", "time"),
    "val=date": ("DATE2", "", "2020-01-31", "date"),
    "val=leading-zero": ("LZER", "", "007", "leading zero"),
    "val=float17": ("F17", "M", "0.30000000000000004", "17 digits"),
    "val=exp": ("EXPO", "", "1E-3", "exponent"),
    # floats whose str() uses an exponent, with a long unit so that the item tends to be the widest of its section
    "val=tiny-float-unit": ("CFTINY", "1/PSI-LONGUNIT", "3.2E-06", "compressibility"),
    "val=huge-float-unit": ("SRCBIG", "N/S-LONGUNIT", "2.5E+17", "source strength"),
    "val=comma-decimal": ("COMD", "", "1,5", "comma decimal"),
    "val=dotted-text": ("DOTT", "", "St. John No. 1", "dots in left field"),
    "val=int-unit": ("INTU", "MM", "200", "int with unit"),
    "val=neg-float": ("NEGF", "", "-0.50", "negative"),
    "right=dotted": ("RDOT", "", "1.5", "descr. with dots."),
    "right=colon": ("RCOL", "", "1.5", "descr: with colon"),
}
DUP_KINDS = ("dup-first", "dup-last", "dup-last-x3", "dup-NULL")
# a duplicated mnemonic whose FIRST occurrence carries the widest unit+value text of the section
WIDE_KINDS = ("widest-first-of-two",)
SECTIONS = ("V", "W", "C", "P")


def all_mutations():
    out = []
    for sec in SECTIONS:
        for k in DUP_KINDS:
            if k == "dup-NULL" and sec != "W":
                continue
            out.append({"kind": k, "section": sec})
        for k in WIDE_KINDS:
            if sec != "V":
                out.append({"kind": k, "section": sec})
        for k in ITEM_KINDS:
            out.append({"kind": k, "section": sec})
    return out


def is_item_line(s):
    s = s.strip()
    return bool(s) and not s.startswith("#") and not s.startswith("~")


def mutate(text, mut):
    """insert header lines into the first section whose title starts with ~<section>;
    None when the section (or the line to duplicate) does not exist"""
    lines = text.split("\n")
    start = None
    for i, ln in enumerate(lines):
        if ln.startswith("~") and ln[1:2].upper() == mut["section"]:
            start = i
            break
    if start is None:
        return None
    end = len(lines)
    for i in range(start + 1, len(lines)):
        if lines[i].strip().startswith("~"):
            end = i
            break
    items = [i for i in range(start + 1, end) if is_item_line(lines[i])]
    k = mut["kind"]
    if k in DUP_KINDS:
        if not items:
            return None
        if k == "dup-first":
            src, n = items[0], 1
        elif k == "dup-last":
            src, n = items[-1], 1
        elif k == "dup-last-x3":
            src, n = items[-1], 2
        else:
            cand = [i for i in items if lines[i].strip().upper().startswith("NULL")]
            if not cand:
                return None
            src, n = cand[0], 1
        new = [lines[src]] * n
        at = src + 1
    elif k in WIDE_KINDS:
        new = ["WDUP.K/M3   45 350 01 00 99 7 the widest text of this section 0123456789 0123456789 0123456789 : first of two",
               "WDUP.K/M3   1 : second of two"]
        at = start + 1
    else:
        m, u, left, right = ITEM_KINDS[k]
        new = ["%s.%s %s : %s" % (m, u, left, right)]
        at = (items[-1] + 1) if items else start + 1
    return "\n".join(lines[:at] + new + lines[at:])


# --------------------------------------------------------------------- writer options

FMTS = ("%.5f", "%.3f", "%g", "%.10g", "%12.4f", "%.2e")
LNFS = (None, -1, 16)
SPACERS = ((" ", " "), ("", " "), ("  ", "  "), (" ", "   "))


def mkopts(version=None, wrap=None, fmt="%.5f", lnf=None, sp=(" ", " "), mh=False):
    return {"version": version, "wrap": wrap, "fmt": fmt, "len_numeric_field": lnf,
            "lhs_spacer": sp[0], "spacer": sp[1], "mnemonics_header": mh}


def single_family_opts():
    out = [mkopts()]
    out += [mkopts(version=v) for v in (1.2, 2.0)]
    out += [mkopts(wrap=w) for w in (True, False)]
    out += [mkopts(fmt=f) for f in FMTS[1:]]
    out += [mkopts(lnf=l) for l in LNFS[1:]]
    out += [mkopts(sp=s) for s in SPACERS[1:]]
    out += [mkopts(mh=True)]
    return out


def all_opts():
    return [mkopts(v, w, f, l, s, m) for v in (None, 1.2, 2.0) for w in (None, True, False) for f in FMTS
            for l in LNFS for s in SPACERS for m in (False, True)]


def header_opts():
    return [mkopts(version=v, wrap=w) for v in (None, 1.2, 2.0) for w in (None, True, False)]


def write_kwargs(o):
    return dict(o)


# ----------------------------------------------------------------------- canonical form

def pyval(v):
    if isinstance(v, (bool, np.bool_)):
        return str(v)
    if isinstance(v, np.integer):
        return int(v)
    if isinstance(v, np.floating):
        return float(v)
    if isinstance(v, (int, float)):
        return v
    return str(v)


def same_value(a, b):
    na, nb = isinstance(a, (int, float)), isinstance(b, (int, float))
    if na and nb:
        if a != a and b != b:
            return True
        return a == b
    return str(a) == str(b)


def canon(las):
    c = {}
    for sec in ("Version", "Well", "Curves", "Parameter"):
        s = las.sections[sec]
        c[sec] = [(str(it.original_mnemonic), str(it.unit), pyval(it.value), str(it.descr)) for it in list.__iter__(s)]
    c["Other"] = str(las.sections["Other"])
    c["data"] = [np.array(it.data, copy=True) for it in list.__iter__(las.sections["Curves"])]
    return c


def same_array(a, b):
    if a.shape != b.shape:
        return False
    if a.dtype.kind in "fiu" and b.dtype.kind in "fiu":
        return bool(np.array_equal(a.astype(float), b.astype(float), equal_nan=True))
    return all(same_value(pyval(x), pyval(y)) for x, y in zip(a.ravel().tolist(), b.ravel().tolist()))


CLAUSE_OF = {"Version": "same-version-items", "Well": "same-well-items", "Curves": "same-curve-items",
             "Parameter": "same-parameter-items"}


def compare(c1, c2):
    """list of (clause, detail); empty when the canonical contents agree"""
    bad = []
    for sec in ("Version", "Well", "Curves", "Parameter"):
        a, b = c1[sec], c2[sec]
        if len(a) != len(b):
            bad.append((CLAUSE_OF[sec], "%d items then %d: %r -> %r" % (len(a), len(b), [x[0] for x in a], [x[0] for x in b])))
            continue
        for x, y in zip(a, b):
            if not (x[0] == y[0] and x[1] == y[1] and same_value(x[2], y[2]) and x[3] == y[3]):
                bad.append((CLAUSE_OF[sec], "(mnemonic, unit, value, descr) %r -> %r" % (x, y)))
                break
    if c1["Other"] != c2["Other"]:
        bad.append(("same-other-section", "%r -> %r" % (c1["Other"][:200], c2["Other"][:200])))
    a, b = c1["data"], c2["data"]
    if len(a) != len(b):
        bad.append(("same-curve-data", "%d curves then %d" % (len(a), len(b))))
    else:
        for j, (x, y) in enumerate(zip(a, b)):
            if not same_array(x, y):
                d = "curve #%d shape %r -> %r" % (j, x.shape, y.shape)
                if x.shape == y.shape:
                    for i, (p, q) in enumerate(zip(x.ravel().tolist(), y.ravel().tolist())):
                        if not same_value(pyval(p), pyval(q)):
                            d = "curve #%d row %d: %r -> %r" % (j, i, p, q)
                            break
                bad.append(("same-curve-data", d))
                break
    return bad


# ------------------------------------------------------------------------- one case

_TEXT_CACHE = {}


def source_input(src):
    """what is handed to lasio.read for the unmutated source, and the text to mutate"""
    key = json.dumps(src, sort_keys=True)
    if key not in _TEXT_CACHE:
        if src["kind"] == "corpus":
            _TEXT_CACHE[key] = (os.path.join(examples_root(), src["file"]), corpus_text(src["file"]))
        else:
            t = gen_text(src["params"])
            _TEXT_CACHE[key] = (t, t)
    return _TEXT_CACHE[key]


def write_text(las, opts):
    buf = io.StringIO()
    las.write(buf, **write_kwargs(opts))
    return buf.getvalue()


def item_get(las, sec, name):
    for it in list.__iter__(las.sections[sec]):
        if str(it.original_mnemonic).strip().upper() == name:
            return it.value
    return None


def auto_field_width(fmt):
    n = 10
    while len(fmt % np.pi) > n - 1:
        n += 1
    return n


def wrapped_line_shape(cols, nc, nullstr, o):
    """token counts of the first physical lines of the wrapped data section, from a
    reference layout (fmt % v, rjust, spacers, textwrap at 79) of the input's own data"""
    L = o["len_numeric_field"]
    if L is None:
        L = auto_field_width(o["fmt"])
    counts = []
    nr = len(cols[0])
    for i in range(nr):
        s = ""
        for j in range(nc):
            v = cols[j][i]
            try:
                tok = nullstr if np.isnan(v) else o["fmt"] % v
            except TypeError:
                tok = str(v)
            s += (o["lhs_spacer"] if j == 0 else o["spacer"]) + (tok if L == -1 else tok.rjust(L))
        counts += [len(ln.split()) for ln in textwrap.wrap(s, width=79)]
        if len(counts) > 22:
            break
    counts = counts[:22]
    if all(c == nc for c in counts):
        return "row-per-line"
    return "uniform-short" if len(set(counts)) == 1 else "ragged"


def text_features(text):
    """dotunit: some header line has '..<non-blank>' left of its first colon (a unit such as .1IN)"""
    if text is None:
        return {"dotunit": "na"}
    dot = 0
    for ln in text.split("\n"):
        st = ln.strip()
        if st[:2].upper() == "~A":
            break
        if not st or st[0] in "#~":
            continue
        if re.search(r"\.\s*\.[^\s.:]", st.split(":")[0]):
            dot = 1
            break
    return {"dotunit": dot}


def features(r, o):
    """shape of the input as first read (before any write), used only for klass"""
    curves = list(list.__iter__(r.sections["Curves"]))
    f = {"nc": len(curves), "vers_in": pyval(item_get(r, "Version", "VERS")),
         "wrap_in": pyval(item_get(r, "Version", "WRAP")), "dlm_in": pyval(item_get(r, "Version", "DLM"))}
    try:
        f["nr"] = int(len(curves[0].data)) if curves else 0
    except Exception:
        f["nr"] = -1
    cols = []
    try:
        cols = [np.asarray(c.data) for c in curves]
    except Exception:
        pass
    sd = "none"
    for a in cols:
        if a.dtype.kind not in "fiub":
            sd = "plain" if sd == "none" else sd
            if any(len(str(x).split()) != 1 for x in a.ravel().tolist()):
                sd = "spaces"
    f["strdata"] = sd
    f["idxfmt"] = "na"
    if cols and cols[0].dtype.kind in "fiu" and cols[0].ndim == 1:
        try:
            f["idxfmt"] = "exact" if all(v != v or float(o["fmt"] % v) == float(v) for v in cols[0].tolist()) else "lossy"
        except Exception:
            f["idxfmt"] = "na"
    wrap = o["wrap"] if o["wrap"] is not None else (str(f["wrap_in"]).upper() == "YES")
    f["wraplines"] = "-"
    if wrap:
        try:
            null = item_get(r, "Well", "NULL")
            f["wraplines"] = wrapped_line_shape(cols, len(cols), str(null), o) if f["nr"] > 0 else "empty"
        except Exception:
            f["wraplines"] = "na"
    return f


def run_case(inp):
    """returns dict(status=skip-*|ok|fail, fails=[(clause, detail)], feat={...})"""
    src, mut, opts = inp["src"], inp.get("mut"), inp["opts"]
    ref, text = source_input(src)
    if mut is not None:
        if text is None:
            return {"status": "skip-undecodable"}
        x = mutate(text, mut)
        if x is None:
            return {"status": "skip-no-such-section"}
    else:
        x = ref
    rkw = {"mnemonic_case": inp["case"]} if inp.get("case") else {}
    try:
        r = lasio.read(x, **rkw)
    except Exception as e:
        return {"status": "skip-first-read-raises", "detail": repr(e)[:200]}
    feat = features(r, opts)
    feat.update(text_features(x if mut is not None else text))
    try:
        t = write_text(r, opts)
    except Exception as e:
        return {"status": "skip-first-write-raises", "detail": repr(e)[:200], "feat": feat}
    prev = None
    fails = []
    compared = 0
    for cycle in range(1, inp.get("cycles", MAX_CYCLES) + 1):
        try:
            r = lasio.read(t, **rkw)
        except Exception as e:
            fails.append(("own-output-readable", "read(t%d) raised %r" % (cycle, e)))
            break
        c = canon(r)
        if prev is not None:
            compared += 1
            bad = compare(prev, c)
            if bad:
                fails += [(cl, "r%d vs r%d: %s" % (cycle - 1, cycle, d)) for cl, d in bad]
                break
        prev = c
        if cycle == inp.get("cycles", MAX_CYCLES):
            break
        try:
            t = write_text(r, opts)
        except Exception as e:
            fails.append(("own-output-rewritable", "write(r%d) raised %r" % (cycle, e)))
            break
    feat["items"] = sum(len(prev[s]) for s in ("Version", "Well", "Curves", "Parameter")) if prev else 0
    return {"status": "fail" if fails else "ok", "fails": fails, "feat": feat, "compared": compared}


# ----------------------------------------------------------------------------- klass

def fmtv(v):
    return "N" if v is None else ("T" if v is True else ("F" if v is False else str(v)))


def klass_of(inp, feat, clause):
    """input shape only: source kind, mutation kind@section, effective version/wrap and where
    they come from, features of the input as first read (index survives fmt?, layout of the
    wrapped lines, 1-column/1-row, DLM, string data) and - for the clauses that depend on the
    data section layout - the data options themselves"""
    src, mut, o = inp["src"], inp.get("mut"), inp["opts"]
    parts = ["src=%s" % src["kind"]]
    parts.append("mut=%s@%s" % (mut["kind"], mut["section"]) if mut else "mut=none")
    if inp.get("case"):
        parts.append("case=%s" % inp["case"])
    ver = o["version"] if o["version"] is not None else feat.get("vers_in")
    wrap = o["wrap"] if o["wrap"] is not None else (str(feat.get("wrap_in")).upper() == "YES")
    parts.append("ver=%s(%s)" % (ver, "opt" if o["version"] is not None else "file"))
    parts.append("wrap=%s(%s)" % (fmtv(bool(wrap)), "opt" if o["wrap"] is not None else "file"))
    parts.append("idxfmt=%s" % feat.get("idxfmt"))
    parts.append("wraplines=%s" % feat.get("wraplines"))
    parts.append("shape=%sx%s" % ("1" if feat.get("nc") == 1 else ("0" if feat.get("nc") == 0 else "N"),
                                  "1" if feat.get("nr") == 1 else ("0" if feat.get("nr") == 0 else "N")))
    parts.append("dlm=%s" % (str(feat.get("dlm_in")).upper() if feat.get("dlm_in") is not None else "-"))
    parts.append("strdata=%s" % feat.get("strdata"))
    parts.append("dotunit=%s" % feat.get("dotunit"))
    datalike = clause in ("same-curve-data", "own-output-readable", "own-output-rewritable", "same-curve-items")
    if datalike:
        parts.append("fmt=%s" % o["fmt"])
        parts.append("lnf=%s" % fmtv(o["len_numeric_field"]))
        parts.append("sp=%d/%d" % (len(o["lhs_spacer"]), len(o["spacer"])))
        parts.append("mh=%d" % bool(o["mnemonics_header"]))
    if src["kind"] == "gen":
        p = src["params"]
        parts.append("gen=%s/p%d" % (p["names"], p.get("params", 1)) + ("/%s" % p["val"] if datalike else "")
                     + ("/dotpad%d" % p.get("pad", 0) if p["unit"].startswith(".") else ""))
    return ";".join(parts)


# ------------------------------------------------------------------------------ plan

def plan(tier, seed):
    rng = random.Random(seed * 7919 + 11)
    cases = []
    files = corpus_files()
    singles = single_family_opts()
    everything = all_opts()
    hdr = header_opts()
    muts = all_mutations()
    thorough = tier != "quick"

    def add(src, mut, opts):
        cases.append({"src": src, "mut": mut, "opts": opts, "cycles": MAX_CYCLES})

    ver3 = [hdr[0], hdr[3], hdr[6]]          # version None / 1.2 / 2.0, wrap from the file
    # 1. corpus, unmutated x option sets
    for f in files:
        src = {"kind": "corpus", "file": f}
        for o in singles:
            add(src, None, o)
        for o in rng.sample(everything, 40 if thorough else 3):
            add(src, None, o)
    # 2. corpus, mutated x header option family
    wide = ["1.2/sample.las", "2.0/sample_2.0.las", "2.0/sample_2.0_wrapped.las"]
    for f in (files if thorough else wide):
        src = {"kind": "corpus", "file": f}
        for m in muts:
            for o in (hdr if (thorough and f in wide) else ver3):
                add(src, m, o)
    # 2b. every read of the cycle with mnemonic_case lower / preserve (the writer's copies and look-ups must keep working on
    #     sections whose mnemonics are not upper case) x version None / 1.2 / 2.0
    for f in (files if thorough else wide):
        for case in ("lower", "preserve"):
            for o in ver3:
                cases.append({"src": {"kind": "corpus", "file": f}, "mut": None, "opts": o, "cycles": MAX_CYCLES, "case": case})
    # 3. generated, unmutated x option sets ; 4. generated, mutated
    ngen = 400 if thorough else 40
    for g in range(ngen):
        src = {"kind": "gen", "params": gen_params(rng)}
        for o in (singles if thorough else [singles[0]]) + rng.sample(everything, 12 if thorough else 4):
            add(src, None, o)
        for m in rng.sample(muts, 40 if thorough else 10):
            add(src, m, rng.choice(hdr))
    return cases


_BIG = {"1.2/sample_big.las", "autodepthindex_point_one_inch.las", "6038187_v1.2.las"}


def _work(arg):
    i, inp = arg
    try:
        return i, run_case(inp)
    except Exception as e:      # a crash of the harness itself
        return i, {"status": "harness-error", "detail": repr(e)}


def build_run(tier, seed):
    run = Run(PROP,
              "one case = (source, mutation, writer options): read, write, then up to %d read/write cycles comparing the "
              "canonical content of consecutive re-reads; a case is non-trivial when the first read and write succeed, at "
              "least 2 consecutive re-reads were compared and the re-read holds >= 1 curve with >= 1 row and >= 4 header items; "
              "distinct by (source, mutation, options)" % MAX_CYCLES,
              "readable files of tests/examples (top level, 1.2/, 2.0/), generated LAS 1.2/2.0 texts, single-line mutations of "
              "both (duplicated/blank mnemonics, odd units, empty values, long fields, value shapes) in ~V/~W/~C/~P  x  writer "
              "options version{None,1.2,2.0} wrap{None,T,F} fmt%r len_numeric_field%r spacers%r mnemonics_header{F,T}"
              % (FMTS, LNFS, SPACERS),
              "cycles 2..%d; tier=%s" % (MAX_CYCLES, tier))
    cases = plan(tier, seed)
    if tier == "quick":
        cases = [c for c in cases if not (c["src"]["kind"] == "corpus" and c["src"]["file"] in _BIG)]
    else:
        keep = json.dumps(mkopts(), sort_keys=True), json.dumps(mkopts(version=1.2, wrap=True), sort_keys=True)
        cases = [c for c in cases if not (c["src"]["kind"] == "corpus" and c["src"]["file"] in _BIG
                                          and (c["mut"] is not None or json.dumps(c["opts"], sort_keys=True) not in keep))]
    nproc = 4 if tier == "quick" else 16
    nproc = max(1, min(nproc, multiprocessing.cpu_count()))
    with multiprocessing.Pool(nproc) as pool:
        results = pool.map(_work, list(enumerate(cases)), chunksize=8)
    results.sort(key=lambda r: r[0])
    skips = {}
    for i, res in results:
        inp = cases[i]
        st = res["status"]
        if st == "harness-error":
            raise RuntimeError("harness error on %r: %s" % (inp, res["detail"]))
        if st.startswith("skip"):
            skips[st] = skips.get(st, 0) + 1
            continue
        feat = res["feat"]
        nontrivial = res["compared"] >= 2 and feat["nc"] >= 1 and feat["nr"] >= 1 and feat["items"] >= 4
        key = json.dumps([inp["src"], inp["mut"], inp["opts"], inp.get("case")], sort_keys=True)
        run.case(key, nontrivial=nontrivial, sample=inp if (i % 97 == 0) else None)
        seen = set()
        for clause, detail in res["fails"]:
            if clause in seen:
                continue
            seen.add(clause)
            run.fail(clause, klass_of(inp, feat, clause), inp, detail)
    run.notes.append("skipped (outside the statement's domain 'lasio can read and then write'): %r" % (skips,))
    run.notes.append("all reads use lasio.read defaults except the 'case=' cases (mnemonic_case lower / preserve on every read of the cycle); texts stay in memory (StringIO), so no encoding round trip is exercised here")
    run.notes.append("spacer='' / ',' and len_numeric_field smaller than the values are left out (not re-readable by construction; "
                     "the docstring requires the field to be wider than every value)")
    run.notes.append("curve data compared exactly (NaN == NaN): both sides are re-reads of text written with the same fmt")
    run.notes.append("custom (non V/W/C/P/O) sections are never written by lasio, hence absent from every re-read and not compared")
    if tier == "quick":
        run.notes.append("quick tier leaves out corpus files with > %d rows: %r" % (BIG_ROWS, sorted(_BIG)))
    return run


def replay_one(entry):
    inp = entry["input"]
    res = run_case(inp)
    if res["status"] not in ("ok", "fail"):
        return False, "input no longer accepted: %r" % (res,)
    for clause, detail in res["fails"]:
        if clause == entry["clause"]:
            return True, detail
    return False, "clause %s holds on this input now (other failures: %r)" % (entry["clause"], res["fails"])


if __name__ == "__main__":
    main(PROP, build_run, replay_one)
