"""C12 bounded stand-in / CPython cross-check: writer options change presentation
only, never content (1.2 <-> 2.0 included).

For a readable input x (corpus file of /repo/tests/examples whose VERS is 1.2 or
2.0, or a generated text) and a pair of SUPPORTED writer configurations (cfg1,
cfg2) with the same numeric format, the real code is run twice

    y_i = lasio.read(write(lasio.read(x, mnemonic_case=incase), cfg_i), mnemonic_case=readcase)

(x is re-read for every write because write() updates STRT/STOP/STEP/WRAP in
place) and the clauses of the statement are checked on (y_1, y_2) directly:
header items of ~Version (apart from VERS and WRAP), ~Well, ~Curves, ~Parameter
equal field by field; curve data equal cell by cell (NaN == NaN).  The oracle is
the equality relation of the statement; nothing of lasio is used to *judge*.

Pairs are the edges of a one-option-at-a-time graph around a few "centre"
configurations: because equality is transitive every disagreement between two
configurations of the connected set shows on at least one edge, and the edge names
the option that is responsible.

The klass of a failure is computed from the input (features of the parsed input,
source id for corpus files) and from the two configurations, never from the symptom.
For data-side options a small reference formatter (own code + textwrap) predicts
how many fields the wrapped lines carry, to keep the "uniform wrapped lines" shape
apart from everything else.
"""
import sys
import os
sys.path.insert(0, os.path.dirname(os.path.abspath(__file__)))
from common import Run, main, REPO

import glob
import io
import math
import multiprocessing
import random
import shutil
import tempfile
import textwrap
import time
import warnings

import numpy as np
import lasio

warnings.simplefilter("ignore")

EXAMPLES = os.path.join(REPO, "tests", "examples")
if not os.path.isdir(EXAMPLES):          # a scratch copy of the package only: the corpus is data, take it from /repo
    EXAMPLES = "/repo/tests/examples"
TABLE = ("STRT", "STOP", "STEP", "NULL", "strt", "stop", "step", "null")
SPECIAL_UP = ("STRT", "STOP", "STEP", "NULL")
READCASES = ("upper", "preserve", "lower")
BIG = 100 * 1024           # corpus files above this size get a reduced plan

# ----------------------------------------------------------------------------
# configurations
# ----------------------------------------------------------------------------
SPACERS = {"s1": (" ", " "), "s2": ("", "  "), "tab": ("   ", "\t")}
DIMS = {
    "version": [1.2, 2.0],
    "wrap": [False, True],
    "lnf": [None, -1, 24],
    "sp": ["s1", "s2", "tab"],
    "dw": [79, 40, 200],
    "dsh": ["~ASCII", "~A", "~ASCII Log Data"],
    "mh": [False, True],
    "hw": [60, 20],
}
DIM_ORDER = ["version", "wrap", "lnf", "sp", "dw", "dsh", "mh", "hw"]


def cfg_key(c):
    return "v%s,w%d,l%s,%s,d%d,h%s,m%d,hw%d,f%s" % (
        c["version"], c["wrap"], c["lnf"], c["sp"], c["dw"], c["dsh"].replace(" ", "_"), c["mh"], c["hw"], c["fmt"])


def write_kwargs(c):
    lhs, sp = SPACERS[c["sp"]]
    return dict(version=c["version"], wrap=c["wrap"], fmt=c["fmt"], len_numeric_field=c["lnf"],
                lhs_spacer=lhs, spacer=sp, data_width=c["dw"], header_width=c["hw"],
                data_section_header=c["dsh"], mnemonics_header=c["mh"])


def neighbours(c):
    out = []
    for d in DIM_ORDER:
        for v in DIMS[d]:
            if v != c[d]:
                n = dict(c)
                n[d] = v
                out.append((d, n))
    return out


CENTRES_FIXED = [
    dict(version=2.0, wrap=False, lnf=None, sp="s1", dw=79, dsh="~ASCII", mh=False, hw=60, fmt="%.5f"),
    dict(version=1.2, wrap=True, lnf=-1, sp="s2", dw=40, dsh="~A", mh=True, hw=60, fmt="%.3f"),
]
FMTS = ["%.5f", "%.3f", "%.7f", "%10.4f", "%g", "%.10g"]


def random_centre(rng):
    c = {d: rng.choice(DIMS[d]) for d in DIM_ORDER}
    c["fmt"] = rng.choice(FMTS)
    return c


# ----------------------------------------------------------------------------
# inputs
# ----------------------------------------------------------------------------
ORDINARY = [
    # (mnemonic, unit, value, descr, tag)
    ("COMP", "", "ANY OIL COMPANY INC", "COMPANY", ""),
    ("Well", "", "A-1 #12", "WELL", ""),
    ("fld", "", "WILDCAT", "FIELD", ""),
    ("LOC", "", "12-34-12-34W5M", "LOCATION", ""),
    ("ELEV", "M", "123.5", "GROUND ELEVATION", ""),
    ("Temp", "degC", "35", "bottom hole temperature", ""),
    ("DATE", "", "13-DEC-86", "LOG DATE", ""),
    ("UWI", "", "100123401234W500", "UNIQUE WELL ID", ""),
    ("API", "", "0412345678", "API NUMBER", ""),
    ("SRVC", "", "ANY LOGGING COMPANY", "", ""),
    ("EMPT", "", "", "EMPTY VALUE", ""),
    ("Dfe", "FT", "0.0", "drill floor elevation", ""),
    ("CTRY", "", "ca", "COUNTRY", ""),
    ("X", "M", "-12.25", "negative with unit", ""),
]
TRIGGERS = [
    ("EU", "M", "", "unit but no value", "unitnoval"),
    ("EUL", "KILOGRAMS/CUBICMETRE/SECOND2", "", "long unit but no value", "unitnoval"),
    ("TIME", "", "12:30", "time of day", "colonvalue"),
    ("DCOL", "", "abc", "note: colon in description", "colondescr"),
    ("Null", "", "-9999", "second null, mixed case", "mixedspecial"),
    ("Strt", "M", "10", "second start, mixed case", "mixedspecial"),
    ("sToP", "M", "20", "second stop, mixed case", "mixedspecial"),
    ("COMP", "", "SECOND COMPANY", "duplicate mnemonic", "dup"),
]
CURVE_POOL = [("GR", "GAPI", "", "gamma ray"), ("Rhob", "K/M3", "45 350 02 00", "bulk density"), ("nphi", "V/V", "", ""),
              ("DT", "US/M", "60 520 32 00", "sonic"), ("SP", "", "", "spontaneous potential"), ("Cali", "mm", "", "caliper"),
              ("ILD", "OHMM", "", "deep"), ("ilm", "OHMM", "", "medium"), ("SFLU", "OHMM", "07 220 04 00", "shallow"),
              ("PEF", "", "", ""), ("DRHO", "K/M3", "", "correction"), ("TENS", "N", "", "tension"),
              ("C13", "", "", ""), ("C14", "", "", ""), ("C15", "", "", ""), ("C16", "", "", "")]
PARAM_POOL = [("BHT", "DEGC", "35.5", "BOTTOM HOLE TEMPERATURE"), ("Bs", "MM", "200.0", "bit size"), ("fd", "K/M3", "1000", "fluid density"),
              ("MATR", "", "SAND", "NEUTRON MATRIX"), ("RMF", "OHMM", "0.216", ""), ("Eng", "", "J SMITH", "engineer")]


def gen_spec(rng):
    """JSON-serialisable description of one generated input"""
    version = rng.choice(["1.2", "2.0"])
    ncurves = rng.choice([1, 2, 3, 4, 5, 7, 8, 14, 15])
    nrows = rng.choice([1, 2, 3, 4, 6, 25])
    null = rng.choice(["-999.25", "-999.25", "-9999", "9999"])
    mode = rng.choice(["plain", "plain", "nan", "nan", "allminus", "allminus+nan"])
    # at most ONE kind of special trigger per generated input, so that two root causes never share an input
    trigger = rng.choice(["", "", "", "", "unitnoval", "colonvalue", "colondescr", "mixedspecial", "mixedspecial-primary", "dup"])
    primary_null = "NULL"
    if trigger == "mixedspecial-primary":
        primary_null = "Null"
        mode = mode.replace("+nan", "").replace("nan", "plain")     # write() looks NULL up by that exact name for NaN cells
    step = rng.choice([0.125, 0.5, 1.0, -0.5])
    start = rng.choice([0.0, 1670.0, 1234567.125, -50.0])
    if "allminus" in mode and rng.random() < 0.5:
        start, step = -1000.0, -0.25
    rows = []
    for i in range(nrows):
        row = [start + i * step]
        for j in range(1, ncurves):
            k = rng.random()
            if "nan" in mode and k < 0.25:
                row.append(None)
            elif k < 0.45:
                row.append(round(rng.uniform(-100, 100), rng.choice([0, 1, 3, 5])))
            elif k < 0.6:
                row.append(float(rng.randint(-5, 5)))
            elif k < 0.7:
                row.append(round(rng.uniform(-1e7, 1e7), 4))
            elif k < 0.8:
                row.append(round(rng.uniform(-1e-3, 1e-3), 7))
            else:
                row.append(round(rng.uniform(0, 3000), 2))
        if "allminus" in mode and not any(v is not None and v < 0 for v in row) and not (None in row and null.startswith("-")):
            if ncurves > 1:
                row[rng.randrange(1, ncurves)] = -abs(round(rng.uniform(0.5, 99), 3))
            else:
                row[0] = -abs(row[0]) - 1.0 - i
        rows.append(row)
    if "nan" in mode and ncurves > 1 and nrows > 0 and not any(None in r for r in rows):
        rows[rng.randrange(nrows)][rng.randrange(1, ncurves)] = None
    depth_unit = rng.choice(["M", "M", "FT", ""])
    well = [["STRT", depth_unit, repr(rows[0][0]), "START DEPTH"], ["STOP", depth_unit, repr(rows[-1][0]), "STOP DEPTH"],
            ["STEP", depth_unit, repr(step if nrows > 1 else 0.0), "STEP"], [primary_null, "", null, "NULL VALUE"]]
    extras = rng.sample(ORDINARY, rng.randint(0, 6))
    cands = [t for t in TRIGGERS if t[4] == trigger]
    if cands:
        extras += rng.sample(cands, rng.randint(1, len(cands)))
    if trigger == "mixedspecial" and rng.random() < 0.5:
        extras = [e for e in extras if e[0] not in ("Strt", "sToP")]       # those make the file unwritable once case-folded
        if TRIGGERS[4] not in extras:
            extras.append(TRIGGERS[4])
    if trigger == "dup" and ORDINARY[0] not in extras:
        extras.append(ORDINARY[0])
    rng.shuffle(extras)
    for e in extras:
        well.insert(rng.randint(4, len(well)) if rng.random() < 0.8 else rng.randint(0, len(well)), list(e[:4]))
    curves = [[rng.choice(["DEPT", "Dept", "DEPTH", "dept"]), depth_unit, "", "1  DEPTH"]]
    pool = list(CURVE_POOL)
    rng.shuffle(pool)
    for j in range(1, ncurves):
        curves.append(list(pool[(j - 1) % len(pool)]))
    params = [list(p) for p in rng.sample(PARAM_POOL, rng.randint(0, 4))]
    return {"version": version, "wrap": rng.choice(["NO", "NO", "YES"]), "well": well, "curves": curves, "params": params,
            "rows": rows, "null": null, "other": rng.choice(["", "free text line"])}


def header_line(m, u, left, right):
    return "%-5s.%-8s %-28s : %s" % (m, u, left, right)


def render_spec(s):
    """own renderer of a generated spec to LAS text (nothing of lasio involved)"""
    L = ["~VERSION INFORMATION"]
    L.append(header_line("VERS", "", s["version"], "CWLS LOG ASCII STANDARD - VERSION " + s["version"]))
    L.append(header_line("WRAP", "", s["wrap"], "wrap mode"))
    L.append("~WELL INFORMATION")
    for m, u, v, d in s["well"]:
        if s["version"] == "1.2" and m not in TABLE:
            L.append(header_line(m, u, d, v))
        else:
            L.append(header_line(m, u, v, d))
    L.append("~CURVE INFORMATION")
    for m, u, v, d in s["curves"]:
        L.append(header_line(m, u, v, d))
    L.append("~PARAMETER INFORMATION")
    for m, u, v, d in s["params"]:
        L.append(header_line(m, u, v, d))
    if s["other"]:
        L.append("~OTHER")
        L.append(s["other"])
    L.append("~A")
    for row in s["rows"]:
        cells = [s["null"] if v is None else repr(v) for v in row]
        if s["wrap"] == "YES" and len(cells) > 1:
            L.append(cells[0])
            rest = cells[1:]
            for k in range(0, len(rest), 6):
                L.append(" ".join(rest[k:k + 6]))
        else:
            L.append(" ".join(cells))
    return "\n".join(L) + "\n"


def list_corpus():
    out = []
    for f in sorted(glob.glob(os.path.join(EXAMPLES, "**", "*"), recursive=True)):
        if os.path.isfile(f) and f.lower().endswith(".las"):
            out.append(os.path.relpath(f, EXAMPLES))
    return out


def read_input(desc, incase):
    if desc["kind"] == "corpus":
        return lasio.read(os.path.join(EXAMPLES, desc["path"]), mnemonic_case=incase)
    return lasio.read(render_spec(desc["spec"]), mnemonic_case=incase)


def src_id(desc):
    return "corpus:" + desc["path"] if desc["kind"] == "corpus" else "gen"


# ----------------------------------------------------------------------------
# features of the parsed input (for klass only)
# ----------------------------------------------------------------------------
def raw_items(section):
    return list(list.__iter__(section))


def input_features(x):
    f = []
    well = raw_items(x.sections.get("Well", []))
    params = raw_items(x.sections.get("Parameter", []))
    if any(it.original_mnemonic.upper() in SPECIAL_UP and it.original_mnemonic not in TABLE for it in well):
        f.append("mixedspecial")
    if any(":" in str(it.value) for it in well):
        f.append("wcolonvalue")
    if any(":" in str(it.descr) for it in well):
        f.append("wcolondescr")
    if any(it.unit and (it.value is None or str(it.value) == "") for it in well + params):
        f.append("unitnoval")
    for sec in ("Version", "Well", "Curves", "Parameter"):
        section = x.sections.get(sec, [])
        fold = (lambda m: m.upper()) if getattr(section, "mnemonic_transforms", False) else (lambda m: m)
        names = [fold(it.original_mnemonic.strip()) for it in raw_items(section)]
        dups = set(n for n in names if names.count(n) > 1)
        if sec == "Well" and any(n.upper() in SPECIAL_UP for n in dups):
            f.append("dupspecial")
        if any(not (sec == "Well" and n.upper() in SPECIAL_UP) for n in dups):
            if "dup" not in f:
                f.append("dup")
    if any(it.original_mnemonic.strip() == "" for sec in ("Well", "Curves", "Parameter") for it in raw_items(x.sections.get(sec, []))):
        f.append("blankname")
    if any("." in it.original_mnemonic for sec in ("Well", "Curves", "Parameter") for it in raw_items(x.sections.get(sec, []))):
        f.append("dotname")
    return f


def cell_text(v, fmt, nulltext):
    try:
        if np.isnan(v):
            return nulltext
        return fmt % v
    except TypeError:
        return str(v)


def data_features(x, c):
    """shape bucket, NaN cells, string columns, '-' on every written line, and the number of
    fields per written line predicted by an own reference formatter"""
    curves = raw_items(x.curves)
    ncols = len(curves)
    nrows = len(curves[0].data) if ncols else 0
    f = ["shape=%sx%s" % (nrows if nrows < 3 else "3+", ncols if ncols < 2 else "2+")]
    if nrows == 0 or ncols == 0:
        return f
    if any(cv.data.dtype.kind not in "fiu" for cv in curves):
        f.append("strdata")
    arr = np.vstack([cv.data for cv in curves]).T        # one common dtype, as the writer sees it
    try:
        nulltext = str(x.well["NULL"].value)
    except Exception:
        nulltext = "?"
    lhs, sp = SPACERS[c["sp"]]
    tw = textwrap.TextWrapper(width=c["dw"])
    counts = []
    allminus = True
    anynan = False
    for i in range(min(nrows, 40)):
        row = ""
        for j in range(ncols):
            v = arr[i, j]
            t = cell_text(v, c["fmt"], nulltext)
            try:
                anynan = anynan or bool(np.isnan(v))
            except TypeError:
                pass
            if c["lnf"] != -1:
                width = c["lnf"]
                if width is None:
                    width = 10
                    while len(c["fmt"] % math.pi) > width - 1:
                        width += 1
                t = t.rjust(width)
            row += (lhs if j == 0 else sp) + t
        lines = tw.wrap(row) if c["wrap"] else [row]
        for ln in lines:
            counts.append(len(ln.split()))
            if "-" not in ln:
                allminus = False
    if anynan:
        f.append("nan")
    if allminus:
        f.append("allminus")
    first = counts[:21]
    if c["wrap"]:
        if len(set(first)) == 1:
            f.append("lines=uniform:%s" % ("ncols" if first[0] == ncols else "lt-ncols"))
        else:
            f.append("lines=mixed")
    return f


# ----------------------------------------------------------------------------
# canonical content and comparison (the clauses of the statement)
# ----------------------------------------------------------------------------
def cval(v):
    if isinstance(v, (bool, np.bool_)):
        return ["b", bool(v)]
    if isinstance(v, (int, float, np.integer, np.floating)):
        v = float(v)
        return ["n", "nan" if v != v else v]
    return ["s", v if isinstance(v, str) else repr(v)]


def canon(las):
    secs = {}
    for name in ("Version", "Well", "Curves", "Parameter"):
        sec = las.sections.get(name)
        items = []
        if sec is not None and not isinstance(sec, str):
            for it in raw_items(sec):
                if name == "Version" and str(it.original_mnemonic).upper() in ("VERS", "WRAP"):
                    continue
                items.append([it.original_mnemonic, it.mnemonic, it.unit, cval(it.value), it.descr])
        secs[name] = items
    data = [np.asarray(c.data) for c in raw_items(las.curves)]
    return secs, data


CLAUSE_OF = {"Version": "version-items-equal-apart-from-vers-wrap", "Well": "well-items-equal",
             "Curves": "curve-items-equal", "Parameter": "parameter-items-equal"}


def cells_equal(a, b):
    if a.shape != b.shape:
        return False, "shapes %r vs %r" % (a.shape, b.shape)
    for i in range(len(a)):
        p, q = a[i], b[i]
        pn = isinstance(p, (float, np.floating)) and p != p
        qn = isinstance(q, (float, np.floating)) and q != q
        if pn and qn:
            continue
        if pn != qn or not (p == q):
            return False, "row %d: %r vs %r" % (i, p, q)
    return True, ""


def compare(ya, yb):
    """list of (clause, detail) for two canonical contents"""
    bad = []
    (sa, da), (sb, db) = ya, yb
    for name in ("Version", "Well", "Curves", "Parameter"):
        a, b = sa[name], sb[name]
        if a != b:
            det = "%d vs %d items" % (len(a), len(b))
            for k in range(min(len(a), len(b))):
                if a[k] != b[k]:
                    det = "item #%d: %r vs %r" % (k, a[k], b[k])
                    break
            bad.append((CLAUSE_OF[name], det))
    if len(da) != len(db):
        bad.append(("curve-data-equal", "%d vs %d curves with data; lengths %r vs %r" % (len(da), len(db), [len(d) for d in da][:4], [len(d) for d in db][:4])))
    else:
        for j in range(len(da)):
            ok, det = cells_equal(da[j], db[j])
            if not ok:
                bad.append(("curve-data-equal", "curve #%d %s" % (j, det)))
                break
    return bad


# ----------------------------------------------------------------------------
# one execution:  input x config x readcase
# ----------------------------------------------------------------------------
def produce(desc, incase, c):
    """write one configuration from a FRESH read of the input; -> ('ok', text, feats) | ('werr', repr, feats)"""
    x = read_input(desc, incase)
    feats = None
    try:
        feats = data_features(x, c)
    except Exception as e:        # the feature extractor must never decide anything
        feats = ["features-failed"]
    buf = io.StringIO()
    try:
        x.write(buf, **write_kwargs(c))
    except Exception as e:
        return ("werr", "%s: %s" % (type(e).__name__, str(e)[:150]), feats)
    return ("ok", buf.getvalue(), feats)


def readback(text, readcase):
    try:
        return ("ok", canon(lasio.read(text, mnemonic_case=readcase)))
    except Exception as e:
        return ("rerr", "%s: %s" % (type(e).__name__, str(e).strip().splitlines()[-1][:150] if str(e).strip() else ""))


U = "lines=uniform:lt-ncols"
HEADER_CLAUSES = ("version-items-equal-apart-from-vers-wrap", "well-items-equal", "curve-items-equal", "parameter-items-equal")


def klass_for(clause, desc, feats_in, dim, ca, cb, fa, fb, incase, readcase):
    """input shape only: source, the option that differs, mnemonic cases, features of the parsed input and (for
    the clauses about the data section) the data context as predicted by the reference formatter"""
    fa, fb = fa or [], fb or []
    src = "src=%s" % src_id(desc)
    diff = "diff=%s:%s|%s" % (dim, str(ca[dim]).replace(" ", "_"), str(cb[dim]).replace(" ", "_"))
    feat = "feat=%s" % ("+".join(feats_in) or "-")
    shape = "+".join(x for x in fa if x.startswith("shape") or x == "strdata")
    if clause in HEADER_CLAUSES:
        return ";".join([src, diff, "in=%s" % incase, "back=%s" % readcase, feat])
    if U in fa or U in fb:
        # one shape of its own: a wrapped output all of whose sampled lines carry the same number (< ncols) of fields
        side = "both" if (U in fa and U in fb) else ("cfg1" if U in fa else "cfg2")
        return ";".join(["src=%s" % desc["kind"], "wrapped-lines-uniform-lt-ncols", "side=%s" % side, shape,
                         "allminus=%d" % (("allminus" in fa) or ("allminus" in fb))])
    ctx = "ctx=v%s,w%d,l%s,%s,d%d,m%d,f%s" % (ca["version"], ca["wrap"], ca["lnf"], ca["sp"], ca["dw"], ca["mh"], ca["fmt"])
    parts = [src, diff, ctx, "dataA=%s" % "+".join(fa)]
    if fb != fa:
        parts.append("dataB=%s" % "+".join(fb))
    if clause == "curve-data-equal":
        parts.append("back=%s" % readcase)
    else:
        parts += ["in=%s" % incase, "back=%s" % readcase, feat]
    return ";".join(parts)


def adapt_centre(desc, incase, centre):
    """a wrapped centre whose own output has the uniform-lines shape would blur every edge around it; move
    data_width / len_numeric_field (deterministically, from the input alone) until it has not, when possible"""
    if not centre["wrap"]:
        return centre
    try:
        x = read_input(desc, incase)
        cands = [centre] + [dict(centre, dw=dw, lnf=lnf) for lnf in (centre["lnf"], None, -1, 24) for dw in (centre["dw"], 79, 200, 40)]
        for c in cands:
            if U not in data_features(x, c):
                return c
    except Exception:
        pass
    return centre


def fields_stay_separated(x):
    """the statement's 'supported configuration': every cell the writer emits must be ONE whitespace-free field.
    The text written for a NaN cell is str(NULL value); string cells are written as they are."""
    curves = raw_items(x.curves)
    if not curves:
        return ""
    try:
        arr = np.vstack([cv.data for cv in curves]).T
    except Exception:
        return ""
    if arr.dtype.kind in "fiu":
        hasnan = bool(np.isnan(arr.astype(float)).any())
    else:
        hasnan = False
        for v in arr.ravel():
            if isinstance(v, str):
                if v == "" or len(v.split()) != 1:
                    return "a string cell %r is not one whitespace-free field" % (v,)
            else:
                try:
                    hasnan = hasnan or bool(np.isnan(v))
                except TypeError:
                    pass
    if hasnan:
        try:
            t = str(x.well["NULL"].value)
        except Exception:
            return ""           # write() raises for every configuration; handled as 'not writable'
        if t == "" or len(t.split()) != 1:
            return "NaN cells would be written as %r, which is not one whitespace-free field" % (t,)
    return ""


def eligible(desc):
    """readable with default options, VERS 1.2 or 2.0, whitespace delimited"""
    try:
        x = read_input(desc, "upper")
    except Exception as e:
        return None, "unreadable (%s)" % type(e).__name__
    try:
        v = x.version["VERS"].value
    except Exception:
        return None, "no VERS item"
    if not (isinstance(v, (int, float, np.integer, np.floating)) and float(v) in (1.2, 2.0)):
        return None, "VERS is %r (statement: inputs of either version 1.2/2.0)" % (v,)
    if "DLM" in x.version and str(x.version["DLM"].value).upper() not in ("", "SPACE"):
        return None, "DLM=%s: whitespace spacers are not a supported configuration for it" % x.version["DLM"].value
    return x, ""


def run_task(task):
    """one input, several (centre, incase) plans; returns plain data for the parent"""
    desc, plans, readcases = task["desc"], task["plans"], task["readcases"]
    out = {"cases": [], "fails": [], "skip": None, "allfail": 0, "unsupported": None, "id": src_id(desc) if desc["kind"] == "corpus" else "gen#%d" % desc["n"]}
    x, why = eligible(desc)
    if x is None:
        out["skip"] = why
        return out
    feats_by_case = {}
    cache = {}

    def get(incase, c, rcs):
        k = (incase, cfg_key(c))
        if k not in cache:
            cache[k] = (produce(desc, incase, c), {})
        st, rb = cache[k]
        if st[0] == "ok":
            for rc in rcs:
                if rc not in rb:
                    rb[rc] = readback(st[1], rc)
        return cache[k]

    for plan in plans:
        incase, centre = plan["incase"], plan["centre"]
        if incase not in feats_by_case:
            try:
                x_in = read_input(desc, incase)
                why_not = fields_stay_separated(x_in)
                feats_by_case[incase] = ["UNSUPPORTED: " + why_not] if why_not else input_features(x_in)
            except Exception as e:
                out["skip"] = "unreadable with mnemonic_case=%s (%s)" % (incase, type(e).__name__)
                continue
        fin = feats_by_case[incase]
        if fin and fin[0].startswith("UNSUPPORTED"):
            out["unsupported"] = fin[0]
            continue
        centre = adapt_centre(desc, incase, centre)
        (sta, rba) = get(incase, centre, readcases)
        nbs = neighbours(centre)
        if plan.get("dims"):
            nbs = [(d, n) for d, n in nbs if d in plan["dims"]]
        # the mnemonic case of the read-back matters for the header clauses, i.e. on the version edge; on the
        # data-side edges `one_case` plans rotate through the three cases instead of running all of them
        rcs_of = []
        for i, (d, n) in enumerate(nbs):
            rcs_of.append(readcases if (d == "version" or not plan.get("one_case")) else [readcases[(i + plan.get("rot", 0)) % len(readcases)]])
        results = [(d, n) + get(incase, n, rcs_of[i]) + (rcs_of[i],) for i, (d, n) in enumerate(nbs)]
        if sta[0] != "ok" and all(r[2][0] != "ok" for r in results):
            out["allfail"] += 1          # not writable in any configuration: outside "written file"
            continue
        for d, n, stb, rbb, rcs in results:
            inp_base = {"desc": desc, "incase": incase, "cfg1": centre, "cfg2": n, "dim": d}
            if sta[0] != "ok" and stb[0] != "ok":
                continue
            for rc in rcs:
                key = "%s|%s|%s|%s|%s" % (out["id"], incase, rc, cfg_key(centre), cfg_key(n))
                nontrivial = sta[0] == "ok" and stb[0] == "ok" and sta[1] != stb[1]
                out["cases"].append((key, nontrivial))
                inp = dict(inp_base, readcase=rc)
                kl = lambda clause: klass_for(clause, desc, fin, d, centre, n, sta[2], stb[2], incase, rc)
                if (sta[0] == "ok") != (stb[0] == "ok"):
                    bad_side = "cfg1" if sta[0] != "ok" else "cfg2"
                    out["fails"].append(("both-outputs-written", kl("both-outputs-written"), inp, "%s does not write: %s" % (bad_side, (sta if sta[0] != "ok" else stb)[1])))
                    break           # independent of the read-back case
                ra, rb_ = rba[rc], rbb[rc]
                if ra[0] != "ok" and rb_[0] != "ok":
                    continue
                if (ra[0] == "ok") != (rb_[0] == "ok"):
                    bad_side = "cfg1" if ra[0] != "ok" else "cfg2"
                    out["fails"].append(("both-outputs-readable", kl("both-outputs-readable"), inp, "output of %s is not readable: %s" % (bad_side, (ra if ra[0] != "ok" else rb_)[1])))
                    continue
                for clause, detail in compare(ra[1], rb_[1]):
                    out["fails"].append((clause, kl(clause), inp, detail))
    return out


# ----------------------------------------------------------------------------
# driver
# ----------------------------------------------------------------------------
DATA_DIMS = ["lnf", "sp", "dw", "dsh", "mh", "hw"]


def make_tasks(tier, seed):
    rng = random.Random(1000003 * seed + 12)
    quick = tier == "quick"
    readcases = list(READCASES)
    corpus, gens = [], []
    for idx, rel in enumerate(list_corpus()):
        size = os.path.getsize(os.path.join(EXAMPLES, rel))
        desc = {"kind": "corpus", "path": rel}
        if size > BIG:
            if quick:
                continue
            if size > 10 * BIG:
                plans = [{"incase": "upper", "centre": CENTRES_FIXED[0], "dims": ["version", "wrap", "lnf"]}]
            else:
                plans = [{"incase": "upper", "centre": CENTRES_FIXED[0]},
                         {"incase": "preserve", "centre": CENTRES_FIXED[1], "dims": ["version", "wrap", "sp", "dw"]}]
            corpus.append({"desc": desc, "plans": plans, "readcases": ["upper"]})
            continue
        if quick:
            two = [DATA_DIMS[(idx + k) % len(DATA_DIMS)] for k in (0, 3)]
            plans = [{"incase": "upper", "centre": CENTRES_FIXED[0], "one_case": True, "rot": idx},
                     {"incase": "preserve", "centre": CENTRES_FIXED[1], "dims": ["version", "wrap"] + two, "one_case": True, "rot": idx + 1}]
        else:
            plans = [{"incase": "upper", "centre": CENTRES_FIXED[0]}, {"incase": "preserve", "centre": CENTRES_FIXED[1]},
                     {"incase": "lower", "centre": random_centre(rng)}, {"incase": "preserve", "centre": random_centre(rng)}]
        corpus.append({"desc": desc, "plans": plans, "readcases": readcases})
    ngen = 60 if quick else 700
    for n in range(ngen):
        spec = gen_spec(rng)
        desc = {"kind": "gen", "n": n, "spec": spec}
        plans = [{"incase": "preserve", "centre": CENTRES_FIXED[n % 2], "one_case": quick, "rot": n},
                 {"incase": rng.choice(["upper", "lower"]), "centre": random_centre(rng), "one_case": quick, "rot": n + 1}]
        if not quick:
            plans.append({"incase": "preserve", "centre": random_centre(rng)})
        gens.append({"desc": desc, "plans": plans, "readcases": readcases})
    # interleave, so that a run cut short by the wall-clock guard still covers both kinds
    tasks = []
    for i in range(max(len(corpus), len(gens))):
        if i < len(gens):
            tasks.append(gens[i])
        if i < len(corpus):
            tasks.append(corpus[i])
    return tasks


def build_run(tier, seed):
    quick = tier == "quick"
    run = Run("C12",
              "a case = (input, mnemonic_case of the first read, mnemonic_case of the read-back, cfg1, cfg2) with cfg1/cfg2 "
              "differing in exactly one writer option; non-trivial when both configurations wrote a file and the two files differ as text",
              "readable corpus files with VERS 1.2/2.0 + generated LAS texts (STRT/STOP/STEP/NULL, ordinary ~Well items with and "
              "without units, mixed-case mnemonics, NaN cells, rows with '-' on every line) x one-option edges of the writer "
              "configuration space {version, wrap, len_numeric_field, spacers, data_width, data_section_header, mnemonics_header, "
              "header_width} with one shared fmt x read-back mnemonic_case",
              "quick: 2 centres per input, 60 generated inputs, corpus files <= 100 kB; thorough: 3-4 centres, 700 generated inputs, whole corpus")
    scratch = tempfile.mkdtemp(dir=os.environ.get("VERIF_SCRATCH", "/var/tmp"))   # nothing is written to disk; kept for the interface
    pool = None
    try:
        tasks = make_tasks(tier, seed)
        nproc = 4 if quick else 12
        budget = 48.0 if quick else 780.0
        t0 = time.time()
        pool = multiprocessing.Pool(nproc)
        results = []
        it = pool.imap(run_task, tasks, chunksize=1)
        cut = None
        for i in range(len(tasks)):
            try:
                results.append(it.next(timeout=max(1.0, budget - (time.time() - t0))))
            except multiprocessing.TimeoutError:
                cut = i
                break
        pool.terminate()
        pool.join()
        pool = None
        skipped = {}
        allfail = []
        unsupported = []
        for task, res in zip(tasks, results):
            if res["skip"]:
                skipped.setdefault(res["skip"], []).append(res["id"])
            if res["allfail"]:
                allfail.append(res["id"])
            if res["unsupported"]:
                unsupported.append("%s (%s)" % (res["id"], res["unsupported"][13:]))
            for key, nontrivial in res["cases"]:
                sample = key if (nontrivial and len(run.samples) < 6 and hash_pick(key)) else None
                run.case(key, nontrivial=nontrivial, sample=sample)
            for clause, kl, inp, detail in res["fails"]:
                run.fail(clause, kl, inp, detail)
        if cut is not None:
            run.notes.append("WALL-CLOCK GUARD: stopped after %d of %d inputs (%.0fs budget on a loaded machine); the inputs done are a deterministic prefix" % (cut, len(tasks), budget))
        for why, ids in sorted(skipped.items()):
            run.notes.append("left out (%s): %s" % (why, ", ".join(sorted(set(ids)))[:600]))
        if unsupported:
            run.notes.append("plans left out because the data fields would not stay whitespace-separated (unsupported configuration): %s" % "; ".join(unsupported)[:900])
        if allfail:
            run.notes.append("plans where NO configuration could be written (no 'written file' to speak of; skipped): %s" % ", ".join(sorted(set(allfail)))[:900])
        run.notes.append("not compared: the free-text ~Other section and custom sections (the statement speaks of header items and curve data); "
                         "comma/empty spacers, DLM!=SPACE inputs, column_fmt and different fmt on the two sides are outside the "
                         "supported/equal-precision domain and are not generated")
        run.notes.append("pairs are one-option edges around centre configurations; by transitivity of equality any disagreement inside a connected set shows on an edge; "
                         "a wrapped centre is moved (data_width/len_numeric_field) off the uniform-lines shape when the reference formatter predicts it")
        run.notes.append("pool wall %.1fs, %d inputs planned, %d done, %d workers" % (time.time() - t0, len(tasks), len(results), nproc))
    finally:
        if pool is not None:
            pool.terminate()
        shutil.rmtree(scratch, ignore_errors=True)
    return run


def hash_pick(key):
    """deterministic thinning for the few written-out samples"""
    return sum(ord(ch) for ch in key) % 97 == 0


def replay_one(entry):
    inp = entry["input"]
    desc, incase, rc = inp["desc"], inp["incase"], inp["readcase"]
    ca, cb = inp["cfg1"], inp["cfg2"]
    sta, stb = produce(desc, incase, ca), produce(desc, incase, cb)
    fails = []
    if sta[0] != "ok" and stb[0] != "ok":
        return False, "neither configuration writes now"
    if (sta[0] == "ok") != (stb[0] == "ok"):
        fails.append(("both-outputs-written", (sta if sta[0] != "ok" else stb)[1]))
    else:
        ra, rb_ = readback(sta[1], rc), readback(stb[1], rc)
        if (ra[0] == "ok") != (rb_[0] == "ok"):
            fails.append(("both-outputs-readable", (ra if ra[0] != "ok" else rb_)[1]))
        elif ra[0] == "ok":
            fails = compare(ra[1], rb_[1])
    for clause, detail in fails:
        if clause == entry["clause"]:
            return True, detail
    return False, "clause %s holds on this input now (other failures: %r)" % (entry["clause"], fails)


if __name__ == "__main__":
    main("C12", build_run, replay_one)
