"""C13 bounded stand-in / CPython cross-check: the same clauses the contracts of
specs/las_items.py state (WF, numbering, originals untouched, resolution), run on
the real SectionItems over all operation sequences up to a bound, plus file
round trips."""
import itertools
import re
import sys
import os
sys.path.insert(0, os.path.dirname(os.path.abspath(__file__)))
from common import Run, main

import io
import lasio
from lasio import HeaderItem, SectionItems, CurveItem

NAMES = ["A", "a", "B", "", "A:1", "A:2"]
SUFFIXLIKE = re.compile(r":\d+$")


def useful(orig):
    return "UNKNOWN" if orig.strip() == "" else orig


def keyf(tr):
    return (lambda x: x.upper()) if tr else (lambda x: x)


def ops_alphabet(n_items):
    ops = []
    for nm in NAMES:
        ops.append(("append", nm))
        for pos in (0, 1, -1):
            ops.append(("insert", pos, nm))
        for idx in range(3):
            ops.append(("replace", idx, nm))
        ops.append(("attr", nm))
    for idx in range(3):
        ops.append(("del_ix", idx))
        ops.append(("del_key", idx))
    return ops


def apply_op(s, op):
    """returns (applied: bool, inserted_item or None)"""
    kind = op[0]
    if kind == "append":
        it = HeaderItem(op[1], value="v")
        s.append(it)
        return True, it
    if kind == "insert":
        it = HeaderItem(op[2], value="v")
        s.insert(op[1], it)
        return True, it
    if kind == "replace":
        if op[1] >= len(s):
            return False, None
        it = HeaderItem(op[2], value="v")
        k = s.keys()[op[1]]
        s[k] = it
        return True, it
    if kind == "attr":
        # section.<NAME> = item : replaces the item of that session name, appends (and re-numbers) when there is none
        it = HeaderItem(op[1], value="v")
        setattr(s, it.mnemonic, it)
        return True, it
    if kind == "del_ix":
        if op[1] >= len(s):
            return False, None
        del s[op[1]]
        return True, None
    if kind == "del_key":
        if op[1] >= len(s):
            return False, None
        del s[s.keys()[op[1]]]
        return True, None
    raise ValueError(op)


def check_state(s, tr, inserted):
    """clauses of C13 on a section state; returns list of (clause, detail)"""
    bad = []
    kf = keyf(tr)
    keys = [it.mnemonic for it in list.__iter__(s)]
    items = list(list.__iter__(s))
    # pairwise distinct under the section's own comparison
    ks = [kf(k) for k in keys]
    if len(set(ks)) != len(ks):
        bad.append(("session-names-pairwise-distinct", "keys=%r" % (keys,)))
    # each session name resolves to its own item
    for i, k in enumerate(keys):
        try:
            got = s[k]
        except Exception as e:
            bad.append(("resolves-to-own-item", "s[%r] raised %r" % (k, e)))
            continue
        if got is not items[i] and len(set(ks)) == len(ks):
            bad.append(("resolves-to-own-item", "s[%r] is item #%d not #%d; keys=%r" % (k, items.index(got), i, keys)))
    # blank -> UNKNOWN ; session is useful or useful:<k>
    for it in items:
        u = useful(it.original_mnemonic)
        if not (it.mnemonic == u or re.fullmatch(re.escape(u) + r":[1-9]\d*", it.mnemonic)):
            bad.append(("session-is-useful-or-suffixed", "orig=%r session=%r" % (it.original_mnemonic, it.mnemonic)))
    # numbering of the group of the item just inserted
    if inserted is not None:
        u = useful(inserted.original_mnemonic)
        grp = [it for it in items if kf(useful(it.original_mnemonic)) == kf(u)]
        if len(grp) > 1:
            exp = [useful(it.original_mnemonic) + ":%d" % (j + 1) for j, it in enumerate(grp)]
            if [it.mnemonic for it in grp] != exp:
                bad.append(("sharing-items-numbered-in-section-order", "got %r expected %r" % ([it.mnemonic for it in grp], exp)))
        elif len(grp) == 1 and inserted.mnemonic != u:
            bad.append(("unique-name-left-untouched", "orig=%r session=%r" % (inserted.original_mnemonic, inserted.mnemonic)))
    return bad


def klass_of(seq, tr, clause):
    names = [x for op in seq for x in op[1:] if isinstance(x, str)]
    sfx = any(SUFFIXLIKE.search(n) for n in names)
    kinds = sorted(set(op[0] for op in seq))
    return "suffixlike=%d;tr=%d;ops=%s" % (sfx, tr, "+".join(kinds))


def run_sequence(seq, tr):
    s = SectionItems()
    if tr:
        s.mnemonic_transforms = True
    origs = {}
    fails = []
    for step, op in enumerate(seq):
        before_sessions = {id(it): it.mnemonic for it in list.__iter__(s)}
        try:
            applied, ins = apply_op(s, op)
        except Exception as e:
            fails.append(("operation-does-not-raise", "%r raised %r" % (op, e)))
            break
        if not applied:
            return None
        for it in list.__iter__(s):
            if id(it) in origs and origs[id(it)][1] != it.original_mnemonic:
                fails.append(("originals-never-altered", "%r -> %r" % (origs[id(it)][1], it.original_mnemonic)))
            origs.setdefault(id(it), (it, it.original_mnemonic))   # keeps the item alive: ids are not reused
        if op[0] in ("del_ix", "del_key"):
            # deletion must not rename the survivors (stale suffixes are allowed)
            for it in list.__iter__(s):
                if before_sessions.get(id(it), it.mnemonic) != it.mnemonic:
                    fails.append(("delete-leaves-names-alone", "%r -> %r" % (before_sessions[id(it)], it.mnemonic)))
        fails += check_state(s, tr, ins if op[0] in ("append", "insert", "replace", "attr") else None)
        if fails:
            break
    return fails


def text_for(names_by_section, version):
    def line(m, i):
        return "%s.   %d : d%d" % (m if m else " ", i, i) if m else " .  %d : d%d" % (i, i)
    t = ["~Version", "VERS. %s : v" % version, "WRAP. NO : w", "~Well", "STRT.M 1 : s", "STOP.M 2 : s", "STEP.M 1 : s", "NULL. -999.25 : n"]
    for i, m in enumerate(names_by_section.get("Well", [])):
        t.append(line(m, i))
    t.append("~Curves")
    t.append("DEPT.M : depth")
    for i, m in enumerate(names_by_section.get("Curves", [])):
        t.append(line(m, i))
    t.append("~Params")
    for i, m in enumerate(names_by_section.get("Parameter", [])):
        t.append(line(m, i))
    ncur = 1 + len(names_by_section.get("Curves", []))
    t.append("~ASCII")
    t.append(" ".join(str(1.0 + j) for j in range(ncur)))
    t.append(" ".join(str(2.0 + j) for j in range(ncur)))
    return "\n".join(t) + "\n"


def roundtrip_case(sec, names, case, version):
    """file round trip: read -> clauses -> write -> read -> same originals and session names"""
    fails = []
    text = text_for({sec: list(names)}, version)
    las = lasio.read(text, mnemonic_case=case)
    s = las.sections[sec]
    tr = case != "preserve"
    cf = {"preserve": str, "upper": str.upper, "lower": str.lower}[case]
    skip = {"Well": 4, "Curves": 1, "Parameter": 0}[sec]
    got_orig = [it.original_mnemonic for it in list.__iter__(s)][skip:]
    if got_orig != [cf(n) for n in names]:
        fails.append(("originals-as-in-file", "wrote %r read %r" % (names, got_orig)))
    fails += check_state(s, tr, None)
    # numbering of every duplicated name after reading
    kf = keyf(tr)
    items = list(list.__iter__(s))
    for u in set(kf(useful(it.original_mnemonic)) for it in items):
        grp = [it for it in items if kf(useful(it.original_mnemonic)) == u]
        if len(grp) > 1:
            exp = [useful(it.original_mnemonic) + ":%d" % (j + 1) for j, it in enumerate(grp)]
            if [it.mnemonic for it in grp] != exp:
                fails.append(("sharing-items-numbered-in-section-order", "got %r expected %r" % ([it.mnemonic for it in grp], exp)))
    buf = io.StringIO()
    las.write(buf, version=float(version))
    las2 = lasio.read(buf.getvalue(), mnemonic_case=case)
    s2 = las2.sections[sec]
    a = [(it.original_mnemonic.strip(), it.mnemonic) for it in list.__iter__(s)]
    b = [(it.original_mnemonic.strip(), it.mnemonic) for it in list.__iter__(s2)]
    if a != b:
        fails.append(("round-trip-keeps-originals-and-session-names", "before %r after %r" % (a, b)))
    return fails


def build_run(tier, seed):
    maxlen = 3 if tier == "quick" else 4
    run = Run("C13", "every operation sequence over append/insert/replace/attribute-assignment/delete with names from %r, "
              "mnemonic_transforms on and off; a case is non-trivial when the section holds >= 2 items at some point; "
              "file round trips over name multisets of size <= 3 per section" % (NAMES,),
              "SectionItems operation sequences; LAS texts", "sequence length <= %d" % maxlen)
    ops = ops_alphabet(3)
    for tr in (False, True):
        for L in range(1, maxlen + 1):
            # prune: sequences are enumerated exhaustively for L<=3; for L=4 the first op is an append
            for seq in itertools.product(ops, repeat=L):
                if seq[0][0] not in ("append", "insert"):
                    continue
                if L >= 4 and (seq[0][0] != "append" or seq[1][0] not in ("append", "insert")):
                    continue
                fails = run_sequence(seq, tr)
                if fails is None:
                    continue
                nappend = sum(1 for o in seq if o[0] in ("append", "insert", "attr"))
                run.case((tr, seq), nontrivial=nappend >= 2, sample={"transforms": tr, "ops": seq} if (L == 3 and nappend >= 2) else None)
                for clause, detail in fails[:1]:
                    run.fail(clause, klass_of(seq, tr, clause), {"kind": "seq", "transforms": tr, "ops": [list(o) for o in seq]}, detail)
    run.exhaustive = True
    # file round trips
    rt_names = ["A", "a", "B", "", "GR"]   # ':' cannot occur in a mnemonic on disk (LAS grammar)
    maxn = 2 if tier == "quick" else 3
    for sec in ("Curves", "Well", "Parameter"):
        for n in range(1, maxn + 1):
            for names in itertools.product(rt_names, repeat=n):
                for case in ("preserve", "upper", "lower"):
                    for version in ("1.2", "2.0"):
                        try:
                            fails = roundtrip_case(sec, names, case, version)
                        except Exception as e:
                            fails = [("file-round-trip-does-not-raise", repr(e))]
                        run.case(("rt", sec, names, case, version), nontrivial=len(names) >= 2)
                        for clause, detail in fails[:1]:
                            sfx = any(SUFFIXLIKE.search(x) for x in names)
                            kl = "file;section=%s;suffixlike=%d;case=%s" % (sec, sfx, "preserve" if case == "preserve" else "normalised")
                            run.fail(clause, kl, {"kind": "file", "section": sec, "names": list(names), "case": case, "version": version}, detail)
    return run


def replay_one(entry):
    inp = entry["input"]
    if inp["kind"] == "seq":
        fails = run_sequence([tuple(o) for o in inp["ops"]], inp["transforms"])
    else:
        try:
            fails = roundtrip_case(inp["section"], tuple(inp["names"]), inp["case"], inp["version"])
        except Exception as e:
            fails = [("file-round-trip-does-not-raise", repr(e))]
    for clause, detail in fails or []:
        if clause == entry["clause"]:
            return True, detail
    return False, "clause %s holds on this input now (other failures: %r)" % (entry["clause"], fails)


if __name__ == "__main__":
    main("C13", build_run, replay_one)
