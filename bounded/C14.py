"""C14 bounded stand-in / CPython cross-check: the curve collection of a LASFile
against a plain Python list model.

Model: a Python list of entries [original name, unit, value, descr, 1-D array].
Every operation of the statement (append_curve, insert_curve, append_curve_item,
insert_curve_item, delete_curve by ix / by mnemonic, update_curve by ix / by
mnemonic, replace_curve_item, las[key] = array / CurveItem, set_data and
las.data = array) is applied to the real LASFile and - by ordinary list
operations - to the model.  After the step the real object is compared with the
model (order, original names, metadata, arrays) and the views keys() / values() /
items() / index / data / las[int] / las[session name] are compared with it.

The model encodes only what the statement promises.  Where the statement leaves
the outcome open the model has a wildcard (resolved by observation):
  * names and metadata of curves that set_data creates for extra columns when no
    name was supplied for them;
  * names of existing curves beyond a names list that is shorter than the curve
    list (kept, or blanked);
  * metadata of a curve created by las[newkey] = array;
  * las[key] = ... where key differs only in case from a session name of a
    case-insensitive (read, mnemonic_case upper) section: updating that curve and
    appending a new one are both accepted.
Which spelling a session name gets (suffixes) is C13's business: session names are
only used as addresses - las[keys()[i]] must be curve i's array.

Every sequence is executed from scratch; arrays and metadata strings are derived
from the step number, so {"start", "ops"} is a complete replay input.
"""
import sys
import os
sys.path.insert(0, os.path.dirname(os.path.abspath(__file__)))
from common import Run, main

import multiprocessing
import random
import time

import numpy as np
import lasio
from lasio import CurveItem

N = 3                      # rows of every generated 1-D array
ANY = ("<any>",)           # wildcard field


class OneOf(tuple):
    """field may equal any member"""


# ----------------------------------------------------------------------------
# start states: the expected initial model is written down by hand next to the text
# ----------------------------------------------------------------------------
HEAD = ("~Version\nVERS. 2.0 : v\nWRAP. NO : w\n~Well\nSTRT.M 1.0 : s\nSTOP.M 3.0 : s\n"
        "STEP.M 1.0 : s\nNULL. -999.25 : n\n~Curves\n")
TEXT_A = HEAD + "DEPT.M : depth\nGR.GAPI : gamma\n~ASCII\n1.0 10.5\n2.0 20.5\n3.0 30.5\n"
TEXT_B = HEAD + "DEPT.M : depth\nGR.GAPI : gamma\ngr.X : second\n~ASCII\n1.0 10.5 7.25\n2.0 20.5 8.25\n3.0 30.5 9.25\n"
COL0, COL1, COL2 = [1.0, 2.0, 3.0], [10.5, 20.5, 30.5], [7.25, 8.25, 9.25]
STARTS = {
    "fresh": (None, None, []),
    "readU": (TEXT_A, "upper", [("DEPT", "M", "", "depth", COL0), ("GR", "GAPI", "", "gamma", COL1)]),
    "readUdup": (TEXT_B, "upper", [("DEPT", "M", "", "depth", COL0), ("GR", "GAPI", "", "gamma", COL1),
                                   ("GR", "X", "", "second", COL2)]),
    "readP": (TEXT_B, "preserve", [("DEPT", "M", "", "depth", COL0), ("GR", "GAPI", "", "gamma", COL1),
                                   ("gr", "X", "", "second", COL2)]),
}
START_NAMES = ["fresh", "readU", "readUdup", "readP"]
PAIRS = [("fresh", "fresh"), ("readU", "readU"), ("fresh", "readU"), ("readUdup", "readP")]


def arr(tag):
    return 1000.0 + 10.0 * tag + np.arange(N, dtype=float)


def mat(tag, rows, width):
    j = np.arange(rows, dtype=float).reshape(rows, 1)
    c = np.arange(width, dtype=float).reshape(1, width)
    return 1.0e6 + 1.0e4 * tag + 100.0 * c + j


# The enumeration executes every sequence from scratch; lasio.read costs ~1.5 ms, ten
# times the rest of a case.  The enumerated part therefore starts from a structural
# clone of ONE real lasio.read result per process and start state.  The clone is made
# by this file (no pickle / deepcopy / __reduce__, which are C17's subject) and is only
# used when snapshot(clone) == snapshot(a second real read); otherwise every case
# re-reads.  Random sequences and --replay always use a real lasio.read.
_ATOMS = (str, bytes, int, float, bool, type(None), complex)


def clone(x, memo):
    if isinstance(x, _ATOMS) or isinstance(x, np.generic):
        return x
    if id(x) in memo:
        return memo[id(x)][1]
    if isinstance(x, np.ndarray):
        y = x.copy()
        memo[id(x)] = (x, y)
        return y
    if isinstance(x, lasio.SectionItems):
        y = type(x)()
        memo[id(x)] = (x, y)
        list.extend(y, [clone(i, memo) for i in list.__iter__(x)])
        for k, v in x.__dict__.items():
            y.__dict__[k] = clone(v, memo)
        return y
    if isinstance(x, lasio.HeaderItem):
        y = type(x).__new__(type(x))
        memo[id(x)] = (x, y)
        for k, v in dict.items(x):
            dict.__setitem__(y, k, clone(v, memo))
        for k, v in x.__dict__.items():
            y.__dict__[k] = clone(v, memo)
        return y
    if isinstance(x, lasio.LASFile):
        y = object.__new__(type(x))
        memo[id(x)] = (x, y)
        for k, v in x.__dict__.items():
            y.__dict__[k] = clone(v, memo)
        return y
    if type(x) is dict:
        y = {}
        memo[id(x)] = (x, y)
        for k, v in x.items():
            y[clone(k, memo)] = clone(v, memo)
        return y
    if type(x) is list:
        y = []
        memo[id(x)] = (x, y)
        y.extend(clone(i, memo) for i in x)
        return y
    if type(x) is tuple:
        return tuple(clone(i, memo) for i in x)
    raise TypeError("clone: unexpected %r" % (type(x),))


def snapshot(x, seen=None):
    seen = {} if seen is None else seen
    if isinstance(x, float):
        return ("float", repr(x))
    if isinstance(x, _ATOMS) or isinstance(x, np.generic):
        return (type(x).__name__, x if not isinstance(x, np.generic) else repr(x))
    if id(x) in seen:
        return ("ref", seen[id(x)])
    seen[id(x)] = len(seen)
    if isinstance(x, np.ndarray):
        return ("ndarray", str(x.dtype), x.shape, x.tobytes())
    if isinstance(x, lasio.SectionItems):
        return (type(x).__name__, [snapshot(i, seen) for i in list.__iter__(x)],
                [(k, snapshot(v, seen)) for k, v in x.__dict__.items()])
    if isinstance(x, lasio.HeaderItem):
        return (type(x).__name__, [(k, snapshot(v, seen)) for k, v in dict.items(x)],
                [(k, snapshot(v, seen)) for k, v in x.__dict__.items()])
    if isinstance(x, lasio.LASFile):
        return (type(x).__name__, [(k, snapshot(v, seen)) for k, v in x.__dict__.items()])
    if type(x) is dict:
        return ("dict", [(snapshot(k, seen), snapshot(v, seen)) for k, v in x.items()])
    if type(x) in (list, tuple):
        return (type(x).__name__, [snapshot(i, seen) for i in x])
    raise TypeError("snapshot: unexpected %r" % (type(x),))


def really_read(start):
    text, case, _init = STARTS[start]
    return lasio.LASFile() if text is None else lasio.read(text, mnemonic_case=case)


_PROTO = {}


def proto_for(start):
    """a real LASFile to clone from, or None when cloning cannot be trusted"""
    if start not in _PROTO:
        try:
            a, b = really_read(start), really_read(start)
            ok = snapshot(clone(a, {})) == snapshot(b) == snapshot(a)
        except Exception:
            ok = False
        _PROTO[start] = a if ok else None
    return _PROTO[start]


class Sim(object):
    def __init__(self, start, cloned=False):
        _text, case, init = STARTS[start]
        self.start = start
        self.ci = case == "upper"
        proto = proto_for(start) if cloned else None
        self.las = clone(proto, {}) if proto is not None else really_read(start)
        self.model = [[nm, u, v, d, np.array(a, dtype=float)] for nm, u, v, d, a in init]


# ----------------------------------------------------------------------------
# operation alphabet
# ----------------------------------------------------------------------------
F = []          # full alphabet
R_IDX = []      # reduced alphabet (indices into F) for the longest enumerated length
P_IDX = []      # alphabet for pairs
GROUP = {}      # op kind -> sampling group


def _add(op, r=False, p=False):
    F.append(op)
    if r:
        R_IDX.append(len(F) - 1)
    if p:
        P_IDX.append(len(F) - 1)


_add(["append_curve", "A"], r=True, p=True)
_add(["append_curve", "GR"], r=True, p=True)
_add(["append_curve", "gr"])
for _pos in (0, 1, -1):
    for _nm in ("A", "gr"):
        _add(["insert_curve", _pos, _nm], r=(_pos, _nm) in ((0, "A"), (-1, "gr")), p=(_pos, _nm) == (0, "A"))
_add(["append_curve_item", "A"])
_add(["append_curve_item", "GR"])
_add(["insert_curve_item", 0, "A"])
_add(["insert_curve_item", -1, "A"], r=True)
for _i in (0, 1, -1, 99, -99):
    _add(["delete_ix", _i], r=_i in (0, -1, 99), p=_i == 0)
for _i in (0, 1, -1):
    _add(["delete_key", _i], r=_i == 1, p=_i == 1)
_add(["delete_name", "ZZ"], r=True)
_add(["update", "ix", 0, "d"], r=True)
_add(["update", "ix", 0, "uvs"])
_add(["update", "ix", -1, "d"])
_add(["update", "ix", -1, "uvs"], r=True, p=True)
_add(["update", "ix", 1, "duvs"])
_add(["update", "ix", 99, "d"])
_add(["update", "key", 0, "d"], p=True)
_add(["update", "key", 1, "duvs"], r=True)
_add(["update", "key", -1, "s"])
_add(["update", "name", "ZZ", "d"])
for _i in (0, 1, -1, -2, 99):
    _add(["replace_item", _i, "A"], r=_i in (0, -1), p=_i == 0)
_add(["replace_item", 0, "GR"])
_add(["replace_item", -1, "GR"])
for _i in (0, 1, -1):
    _add(["set_arr_key", _i], r=_i == 1)
for _nm in ("A", "GR", "gr", "Gr"):
    _add(["set_arr_name", _nm], r=_nm in ("A", "gr"), p=_nm == "A")
for _nm in ("A", "GR", "gr"):
    _add(["set_item_name", _nm], r=_nm in ("A", "gr"), p=_nm == "gr")
for _dw in (0, 1, 2):
    for _nm in ("none", "short", "equal", "dup"):
        _add(["set_data", _dw, _nm, 0, N, "call"],
             r=(_dw, _nm) in ((0, "none"), (1, "dup"), (2, "short")), p=(_dw, _nm) in ((0, "none"), (1, "dup")))
_add(["set_data", 0, "cdup", 0, N, "call"])
_add(["set_data", 0, "none", 0, 2, "call"])
_add(["set_data", 0, "none", 0, N, "prop"], r=True, p=True)
_add(["set_data", 1, "none", 0, N, "prop"])
for _dw in (0, 1):
    for _nm in ("none", "equal"):
        _add(["set_data", _dw, _nm, 1, N, "call"], r=_nm == "none")
assert len(F) < 127
F_IDX = list(range(len(F)))
OP_INDEX = {repr(op): i for i, op in enumerate(F)}

_GROUPS = [("add", 3, ("append_curve", "insert_curve", "append_curve_item", "insert_curve_item")),
           ("del", 2, ("delete_ix", "delete_key", "delete_name")),
           ("upd", 2, ("update",)),
           ("rep", 1, ("replace_item",)),
           ("set", 2, ("set_arr_key", "set_arr_name", "set_item_name")),
           ("dat", 1, ("set_data",))]
GROUP_OPS = [(w, [i for i, op in enumerate(F) if op[0] in kinds]) for _g, w, kinds in _GROUPS]


def enc(space, idxs):
    v = 0
    for i in idxs:
        v = v * 128 + (i + 1)
    return v * 16 + space


# ----------------------------------------------------------------------------
# planning one step: pure function of (model, observed session names, op, tag)
# ----------------------------------------------------------------------------
def valid_ix(i, n):
    return -n <= i < n


def ix_shape(i, n):
    if not valid_ix(i, n):
        return "ix=invalid"
    return "ix=neg" if i < 0 else "ix=nonneg"


def n_shape(n):
    return "n=%s" % ("0" if n == 0 else "1" if n == 1 else "2+")


def dup_shape(name, model):
    if any(e[0] == name for e in model):
        return "dup=exact"
    if any(e[0].upper() == name.upper() for e in model):
        return "dup=case"
    return "dup=no"


def pos_shape(pos, n):
    real = pos if pos >= 0 else n + pos
    where = "front" if real == 0 else "end" if real == n else "mid"
    return "pos=%s%s" % ("neg-" if pos < 0 else "", where)


def new_item(name, tag):
    """(array passed to lasio, keyword metadata, model entry)"""
    a = arr(tag)
    if name == "A":
        kw = {"unit": "u%d" % tag, "value": "v%d" % tag, "descr": "d%d" % tag}
        ent = [name, kw["unit"], kw["value"], kw["descr"], a.copy()]
    else:
        kw = {}
        ent = [name, "", "", "", a.copy()]      # documented defaults of the keyword arguments
    return a, kw, ent


def copy_model(m):
    return [list(e) for e in m]


def plan(sim, op, tag):
    """None when the op is not applicable in this state, else
    (call(las), expect_raise, [candidate next models], shape string)"""
    m = sim.model
    n = len(m)
    kind = op[0]
    if kind in ("append_curve", "append_curve_item"):
        name = op[1]
        a, kw, ent = new_item(name, tag)
        nxt = copy_model(m)
        nxt.append(ent)
        if kind == "append_curve":
            call = lambda las: las.append_curve(name, a, **kw)
        else:
            call = lambda las: las.append_curve_item(CurveItem(name, data=a, **kw))
        return call, False, [nxt], "%s;%s" % (dup_shape(name, m), n_shape(n))
    if kind in ("insert_curve", "insert_curve_item"):
        pos, name = op[1], op[2]
        if not (-n <= pos <= n):
            return None                     # clamping of out-of-range positions is not asserted
        a, kw, ent = new_item(name, tag)
        nxt = copy_model(m)
        nxt.insert(pos, ent)
        if kind == "insert_curve":
            call = lambda las: las.insert_curve(pos, name, a, **kw)
        else:
            call = lambda las: las.insert_curve_item(pos, CurveItem(name, data=a, **kw))
        return call, False, [nxt], "%s;%s;%s" % (pos_shape(pos, n), dup_shape(name, m), n_shape(n))
    if kind == "delete_ix":
        i = op[1]
        call = lambda las: las.delete_curve(ix=i)
        if not valid_ix(i, n):
            return call, True, [m], "%s;%s" % (ix_shape(i, n), n_shape(n))
        nxt = copy_model(m)
        del nxt[i]
        return call, False, [nxt], "%s;%s" % (ix_shape(i, n), n_shape(n))
    if kind == "delete_name":
        name = op[1]
        return (lambda las: las.delete_curve(mnemonic=name)), True, [m], "mnemonic=absent;%s" % n_shape(n)
    if kind in ("delete_key", "set_arr_key") or (kind == "update" and op[1] == "key"):
        i = op[1] if kind != "update" else op[2]
        if not valid_ix(i, n):
            return None
        keys = list(sim.las.keys())
        if len(keys) != n or len(set(keys)) != n:
            return None                     # session names are not usable as addresses (C13)
        k = keys[i]
    if kind == "delete_key":
        nxt = copy_model(m)
        del nxt[i]
        return (lambda las: las.delete_curve(mnemonic=k)), False, [nxt], "by=key;%s" % n_shape(n)
    if kind == "update":
        by, sel, fields = op[1], op[2], op[3]
        kw = {}
        a = arr(tag)
        if "d" in fields:
            kw["data"] = a
        if "u" in fields:
            kw["unit"] = "uu%d" % tag
        if "v" in fields:
            kw["value"] = "vv%d" % tag
        if "s" in fields:
            kw["descr"] = "dd%d" % tag
        if by == "name":
            return (lambda las: las.update_curve(mnemonic=sel, **kw)), True, [m], "by=absent-mnemonic;fields=%s;%s" % (fields, n_shape(n))
        if by == "ix":
            call = lambda las: las.update_curve(ix=sel, **kw)
            if not valid_ix(sel, n):
                return call, True, [m], "by=ix;%s;fields=%s;%s" % (ix_shape(sel, n), fields, n_shape(n))
            shape = "by=ix;%s;fields=%s" % (ix_shape(sel, n), fields)
            i = sel
        else:
            call = lambda las: las.update_curve(mnemonic=k, **kw)
            shape = "by=key;fields=%s" % fields
        nxt = copy_model(m)
        e = nxt[i]
        if "d" in fields:
            e[4] = a.copy()
        if "u" in fields:
            e[1] = kw["unit"]
        if "v" in fields:
            e[2] = kw["value"]
        if "s" in fields:
            e[3] = kw["descr"]
        return call, False, [nxt], shape
    if kind == "replace_item":
        i, name = op[1], op[2]
        a, kw, ent = new_item(name, tag)
        call = lambda las: las.replace_curve_item(i, CurveItem(name, data=a, **kw))
        shape = "%s;%s" % (ix_shape(i, n), n_shape(n))
        if not valid_ix(i, n):
            return call, True, [m], shape
        nxt = copy_model(m)
        nxt[i] = ent
        return call, False, [nxt], shape
    if kind == "set_arr_key":
        a = arr(tag)
        nxt = copy_model(m)
        nxt[i][4] = a.copy()

        def call(las):
            las[k] = a
        return call, False, [nxt], "key=session-name"
    if kind in ("set_arr_name", "set_item_name"):
        name = op[1]
        keys = list(sim.las.keys())
        if len(keys) != n or len(set(keys)) != n:
            return None
        a, kw, ent = new_item(name, tag)
        if kind == "set_arr_name":
            def call(las):
                las[name] = a
            app = [name, ANY, ANY, ANY, a.copy()]

            def upd(j):
                x = copy_model(m)
                x[j][4] = a.copy()
                return x
        else:
            def call(las):
                las[name] = CurveItem(name, data=a, **kw)
            app = ent

            def upd(j):
                x = copy_model(m)
                x[j] = list(ent)
                return x
        if name in keys:
            return call, False, [upd(keys.index(name))], "key=existing"
        civ = [j for j, kk in enumerate(keys) if kk.upper() == name.upper()]
        if sim.ci and civ:
            cands = [upd(j) for j in civ] + [copy_model(m) + [list(app)]]
            return call, False, cands, "key=casevariant"
        shadow = any(e[0] == name for e in m)
        return call, False, [copy_model(m) + [list(app)]], "key=%s" % ("new-shadowing-suffixed" if shadow else "new")
    if kind == "set_data":
        dw, mode, trunc, rows, via = op[1], op[2], op[3], op[4], op[5]
        w = n + dw
        if w < 1 or (trunc and n == 0):
            return None
        fc = n if trunc else w
        if mode == "none":
            names = None
        elif mode == "short":
            if fc < 2:
                return None
            names = ["S%d" % q for q in range(fc - 1)]
        elif mode == "equal":
            names = ["S%d" % q for q in range(fc)]
        elif mode in ("dup", "cdup"):
            if fc < 2:
                return None
            names = ["S%d" % q for q in range(fc)]
            names[1] = "S0" if mode == "dup" else "s0"
        else:
            raise ValueError(op)
        M = mat(tag, rows, w)
        nxt = []
        for q in range(fc):
            col = M[:, q].copy()
            if q < n:
                e = list(m[q])
                if names is not None:
                    e[0] = names[q] if q < len(names) else OneOf((m[q][0], ""))
                e[4] = col
            else:
                e = [names[q] if (names is not None and q < len(names)) else ANY, ANY, ANY, ANY, col]
            nxt.append(e)
        if via == "prop":
            def call(las):
                las.data = M
        else:
            kwargs = {}
            if names is not None:
                kwargs["names"] = list(names)
            if trunc:
                kwargs["truncate"] = True
            call = lambda las: las.set_data(M, **kwargs)
        same_rows = all(len(e[4]) == rows for e in m)
        shape = "truncate=%d;width=%s;names=%s;rows=%s;via=%s;%s" % (
            trunc, "eq" if dw == 0 else "wider", mode, "same" if same_rows else "changed", via, n_shape(n))
        return call, False, [nxt], shape
    raise ValueError(op)


# ----------------------------------------------------------------------------
# comparison with the model
# ----------------------------------------------------------------------------
FIELDS = ("original name", "unit", "value", "descr")


def same_array(got, exp):
    try:
        return np.ndim(got) == 1 and np.shape(got) == exp.shape and bool(np.array_equal(np.asarray(got), exp))
    except Exception:
        return False


def field_ok(obs, spec):
    try:
        if spec is ANY:
            return True
        if isinstance(spec, OneOf):
            return any(isinstance(obs, str) and obs == s for s in spec)
        return isinstance(obs, type(spec)) and bool(obs == spec)
    except Exception:
        return False


def match_core(items, cand):
    """(resolved model, None) or (None, detail)"""
    if len(items) != len(cand):
        return None, "curves hold %d items %r, list model holds %d %r" % (
            len(items), [getattr(it, "original_mnemonic", None) for it in items], len(cand), [e[0] for e in cand])
    res = []
    for q, (it, e) in enumerate(zip(items, cand)):
        obs = (it.original_mnemonic, it.unit, it.value, it.descr)
        if not isinstance(obs[0], str):
            return None, "curve %d: original name %r is not a string" % (q, obs[0])
        for f in range(4):
            if not field_ok(obs[f], e[f]):
                return None, "curve %d %s: got %r, list model has %r (originals got %r, model %r)" % (
                    q, FIELDS[f], obs[f], e[f], [x.original_mnemonic for x in items], [x[0] for x in cand])
        if not same_array(it.data, e[4]):
            return None, "curve %d (%r) array: got %r, list model has %r (originals got %r, model %r)" % (
                q, obs[0], it.data, e[4], [x.original_mnemonic for x in items], [x[0] for x in cand])
        res.append([obs[0], obs[1], obs[2], obs[3], e[4]])
    return res, None


def check_views(las, items, m):
    """first (clause, detail) on which a view disagrees with the model, else None"""
    n = len(m)
    try:
        keys = las.keys()
        values = las.values()
        its = las.items()
    except Exception as e:
        return "keys-values-items-agree", "raised %r" % (e,)
    sess = [it.mnemonic for it in items]
    if list(keys) != sess:
        return "keys-values-items-agree", "keys() %r, session names of the curves %r" % (keys, sess)
    if len(values) != n or not all(same_array(values[q], m[q][4]) for q in range(n)):
        return "keys-values-items-agree", "values() %r, model arrays %r" % (values, [e[4] for e in m])
    if len(its) != n or not all(len(its[q]) == 2 and its[q][0] == sess[q] and same_array(its[q][1], m[q][4]) for q in range(n)):
        return "keys-values-items-agree", "items() %r, model %r" % (its, [(sess[q], m[q][4]) for q in range(n)])
    if n >= 1:
        try:
            ix = las.index
        except Exception as e:
            return "index-is-curve-0", "raised %r" % (e,)
        if not same_array(ix, m[0][4]):
            return "index-is-curve-0", "index %r, curve 0 of the model %r" % (ix, m[0][4])
        if len(set(len(e[4]) for e in m)) == 1:
            try:
                d = las.data
            except Exception as e:
                return "data-column-i-is-curve-i", "raised %r" % (e,)
            if np.ndim(d) != 2 or d.shape != (len(m[0][4]), n) or not all(same_array(d[:, q], m[q][4]) for q in range(n)):
                return "data-column-i-is-curve-i", "data %r, model columns %r" % (d, [e[4] for e in m])
    for q in range(n):
        for i in (q, q - n):
            try:
                got = las[i]
            except Exception as e:
                return "integer-indexing", "las[%d] raised %r" % (i, e)
            if not same_array(got, m[q][4]):
                return "integer-indexing", "las[%d] is %r, model %r" % (i, got, m[q][4])
    for q in range(n):
        try:
            got = las[keys[q]]
        except Exception as e:
            return "mnemonic-indexing", "las[keys()[%d]] = las[%r] raised %r (keys %r)" % (q, keys[q], e, keys)
        if not same_array(got, m[q][4]):
            return "mnemonic-indexing", "las[keys()[%d]] = las[%r] is %r, curve %d of the model is %r (keys %r)" % (
                q, keys[q], got, q, m[q][4], keys)
    return None


def execute(sim, op, p, views):
    """None or (clause, klass, detail)"""
    call, expect_raise, cands, shape = p
    klass = "start=%s;op=%s;%s" % (sim.start, op[0], shape)
    raised = None
    try:
        call(sim.las)
    except Exception as e:
        raised = e
    if expect_raise and raised is None:
        return "invalid-operation-raises", klass, "%r did not raise (%d curves)" % (op, len(sim.model))
    if (not expect_raise) and raised is not None:
        return "valid-operation-does-not-raise", klass, "%r raised %r (originals before %r)" % (op, raised, [e[0] for e in sim.model])
    items = list(list.__iter__(sim.las.curves))
    first = None
    for cand in cands:
        res, detail = match_core(items, cand)
        if res is not None:
            break
        first = first or detail
    else:
        return ("invalid-operation-leaves-state-unchanged" if expect_raise else "state-equals-list-model"), klass, "after %r: %s" % (op, first)
    sim.model = res
    if views:
        v = check_views(sim.las, items, res)
        if v:
            return v[0], klass, "after %r: %s" % (op, v[1])
    return None


def check_bystander(sim, views):
    items = list(list.__iter__(sim.las.curves))
    res, detail = match_core(items, sim.model)
    if res is None:
        return detail
    if views:
        v = check_views(sim.las, items, res)
        if v:
            return "%s: %s" % v
    return None


# ----------------------------------------------------------------------------
# running sequences
# ----------------------------------------------------------------------------
NA, OK, FAIL = "na", "ok", "fail"


def run_single(start, ops, full, cloned=False):
    """(status, payload): payload = number of curves for OK, (clause, klass, detail) for FAIL"""
    sim = Sim(start, cloned)
    for step, op in enumerate(ops):
        p = plan(sim, op, step + 1)
        if p is None:
            return NA, step
        r = execute(sim, op, p, full or step == len(ops) - 1)
        if r:
            return FAIL, r
    return OK, len(sim.model)


def run_pair(pair, wops, full, cloned=False):
    """wops: [[which, op], ...]"""
    sims = [Sim(pair[0], cloned), Sim(pair[1], cloned)]
    for step, (which, op) in enumerate(wops):
        sim, other = sims[which], sims[1 - which]
        p = plan(sim, op, step + 1)
        if p is None:
            return NA, step
        views = full or step == len(wops) - 1
        r = execute(sim, op, p, views)
        if r:
            return FAIL, r
        d = check_bystander(other, views)
        if d:
            return FAIL, ("other-lasfile-unaffected", "starts=%s+%s;edited=%d;op=%s" % (pair[0], pair[1], which, op[0]),
                          "after %r on LASFile #%d, LASFile #%d: %s" % (op, which, 1 - which, d))
    return OK, len(sims[0].model) + len(sims[1].model)


class Acc(object):
    def __init__(self):
        self.ev = 0
        self.keys = []
        self.fails = {}     # (clause, klass) -> [count, [(len, input, detail)]]
        self.samples = []

    def fail(self, clause, klass, inp, detail, size):
        rec = self.fails.setdefault((clause, klass), [0, []])
        rec[0] += 1
        rec[1].append((size, inp, detail))
        rec[1].sort(key=lambda t: (t[0], repr(t[1])))
        del rec[1][3:]

    def pack(self):
        return {"ev": self.ev, "keys": self.keys, "fails": self.fails, "samples": self.samples,
                "cloned": {k: v is not None for k, v in _PROTO.items()}}


def dfs_single(acc, space, start, alph, maxlen, count_from, prefix):
    ops = [F[i] for i in prefix]
    status, payload = run_single(start, ops, False, True)
    if status == NA:
        return
    counted = len(prefix) >= count_from
    if counted:
        acc.ev += 1
    if status == FAIL:
        if counted:
            acc.fail(payload[0], payload[1], {"mode": "single", "start": start, "ops": ops}, payload[2], len(ops))
        return
    if counted and payload >= 2:
        acc.keys.append(enc(space, prefix))
        if len(prefix) == 3 and len(acc.samples) < 1 and len(set(o[0] for o in ops)) == 3 and prefix[0] % 11 == 0:
            acc.samples.append({"start": start, "ops": ops})
    if len(prefix) < maxlen:
        for i in alph:
            dfs_single(acc, space, start, alph, maxlen, count_from, prefix + [i])


def dfs_pair(acc, space, pair, alph, maxlen, prefix):
    wops = [[d % 2, F[i]] for d, i in enumerate(prefix)]
    status, payload = run_pair(pair, wops, False, True)
    if status == NA:
        return
    acc.ev += 1
    if status == FAIL:
        acc.fail(payload[0], payload[1], {"mode": "pair", "starts": list(pair), "ops": wops}, payload[2], len(wops))
        return
    if payload >= 2 and len(prefix) >= 2:
        acc.keys.append(enc(space, prefix))
    if len(prefix) < maxlen:
        for i in alph:
            dfs_pair(acc, space, pair, alph, maxlen, prefix + [i])


def pick_op(rng):
    tot = sum(w for w, _ in GROUP_OPS)
    x = rng.random() * tot
    for w, idxs in GROUP_OPS:
        if x < w:
            return idxs[rng.randrange(len(idxs))]
        x -= w
    return GROUP_OPS[-1][1][0]


def rand_single(acc, space, start, rng, length):
    sim = Sim(start)
    idxs, ops = [], []
    peak = 0
    for step in range(length):
        for _attempt in range(30):
            i = pick_op(rng)
            p = plan(sim, F[i], step + 1)
            if p is not None:
                break
        else:
            break
        idxs.append(i)
        ops.append(F[i])
        r = execute(sim, F[i], p, True)
        if r:
            acc.ev += 1
            acc.fail(r[0], r[1], {"mode": "single", "start": start, "ops": ops}, r[2], len(ops))
            return
        peak = max(peak, len(sim.model))
    acc.ev += 1
    if peak >= 2:
        acc.keys.append(enc(space, idxs))


def rand_pair(acc, space, pair, rng, length):
    sims = [Sim(pair[0]), Sim(pair[1])]
    idxs, wops = [], []
    for step in range(length):
        which = step % 2
        sim = sims[which]
        for _attempt in range(30):
            i = pick_op(rng)
            p = plan(sim, F[i], step + 1)
            if p is not None:
                break
        else:
            break
        idxs.append(i)
        wops.append([which, F[i]])
        r = execute(sim, F[i], p, True)
        if not r:
            d = check_bystander(sims[1 - which], True)
            if d:
                r = ("other-lasfile-unaffected", "starts=%s+%s;edited=%d;op=%s" % (pair[0], pair[1], which, F[i][0]),
                     "after %r on LASFile #%d, LASFile #%d: %s" % (F[i], which, 1 - which, d))
        if r:
            acc.ev += 1
            acc.fail(r[0], r[1], {"mode": "pair", "starts": list(pair), "ops": wops}, r[2], len(wops))
            return
    acc.ev += 1
    if len(sims[0].model) + len(sims[1].model) >= 2 and len(idxs) >= 2:
        acc.keys.append(enc(space, idxs))


def work(task):
    acc = Acc()
    kind = task[0]
    if kind == "dfs":
        _, si, alph, maxlen, count_from, first = task
        dfs_single(acc, si, START_NAMES[si], alph, maxlen, count_from, [first])
    elif kind == "pairdfs":
        _, pi, alph, maxlen, first = task
        dfs_pair(acc, 4 + pi, PAIRS[pi], alph, maxlen, [first])
    elif kind == "rand":
        _, si, count, seedstr, lo, hi = task
        rng = random.Random(seedstr)
        for _ in range(count):
            rand_single(acc, si, START_NAMES[si], rng, rng.randint(lo, hi))
    elif kind == "randpair":
        _, pi, count, seedstr, lo, hi = task
        rng = random.Random(seedstr)
        for _ in range(count):
            rand_pair(acc, 4 + pi, PAIRS[pi], rng, rng.randint(lo, hi))
    else:
        raise ValueError(task)
    return acc.pack()


def initial_state_check(run):
    """the hand-written initial models agree with what lasio.read delivers (sanity of the harness' domain)"""
    for start in START_NAMES:
        sim = Sim(start)
        d = check_bystander(sim, True)
        run.case(("initial", start), nontrivial=len(sim.model) >= 2)
        if d:
            run.fail("initial-state-as-authored", "start=%s" % start, {"mode": "single", "start": start, "ops": []}, d)


def build_run(tier, seed):
    thorough = tier != "quick"
    lf, lr, lp = (3, 4, 4) if thorough else (2, 3, 3)
    nrand, nrandpair = (6000, 2500) if thorough else (120, 60)
    nworkers = min(16 if thorough else 4, os.cpu_count() or 1, int(os.environ.get("VERIF_WORKERS", "16") or 16))
    run = Run(
        "C14",
        "operation sequences over the %d-op alphabet F (append_curve, insert_curve, append/insert_curve_item, delete_curve by ix/"
        "mnemonic, update_curve by ix/mnemonic, replace_curve_item, las[key]=array/CurveItem, set_data, las.data=) from the start "
        "states %r and on the pairs %r edited alternately; a case is one applicable sequence executed from scratch and compared "
        "with the list model after its last step (enumeration; every prefix is a case of its own) or after every step (random); "
        "it is non-trivial when the collection (pair: both together) holds >= 2 curves at the end (random: at some step)"
        % (len(F), START_NAMES, PAIRS),
        "edit histories of LASFile curve collections; names from {A, GR, gr, Gr, S<k>, s0}, positions {0, 1, -1, -2, 99, -99}, "
        "2-D arrays with 0/1/2 columns more than curves, names lists none/shorter/equal/duplicate/case-duplicate, truncate 0/1",
        "all sequences of length <= %d over F (%d ops) and of length <= %d over the reduced alphabet (%d ops), per start state; "
        "pairs: all alternating sequences of length <= %d over %d ops; plus %d random sequences of length 4..10 per start state "
        "and %d of length 4..10 per pair" % (lf, len(F), lr, len(R_IDX), lp, len(P_IDX), nrand, nrandpair))
    initial_state_check(run)
    tasks = []
    for si in range(len(START_NAMES)):
        for first in F_IDX:
            tasks.append(("dfs", si, F_IDX, lf, 1, first))
        for first in R_IDX:
            # sequences of length <= lf over the reduced alphabet are a subset of the above: executed only to prune
            tasks.append(("dfs", si, R_IDX, lr, lf + 1, first))
        chunk = max(1, nrand // 8)
        for c in range(0, nrand, chunk):
            tasks.append(("rand", si, min(chunk, nrand - c), "C14/%d/single/%d/%d" % (seed, si, c), 4, 10))
    for pi in range(len(PAIRS)):
        for first in P_IDX:
            tasks.append(("pairdfs", pi, P_IDX, lp, first))
        chunk = max(1, nrandpair // 8)
        for c in range(0, nrandpair, chunk):
            tasks.append(("randpair", pi, min(chunk, nrandpair - c), "C14/%d/pair/%d/%d" % (seed, pi, c), 4, 10))
    if nworkers > 1:
        ctx = multiprocessing.get_context("fork")
        pool = ctx.Pool(nworkers)
        try:
            results = pool.map(work, tasks, chunksize=1)
        finally:
            pool.close()
            pool.join()
    else:
        results = [work(t) for t in tasks]
    merged = {}
    clone_ok = {}
    for res in results:          # task order: deterministic
        for k, v in res["cloned"].items():
            clone_ok[k] = clone_ok.get(k, True) and v
        run.evaluations += res["ev"]
        run.nontrivial.update(res["keys"])
        for s in res["samples"]:
            if len(run.samples) < 6:
                run.samples.append(s)
        for k, (cnt, exs) in res["fails"].items():
            rec = merged.setdefault(k, [0, []])
            rec[0] += cnt
            rec[1] += exs
    for (clause, klass) in sorted(merged):
        cnt, exs = merged[(clause, klass)]
        exs.sort(key=lambda t: (t[0], repr(t[1])))
        shown = set()
        for size, inp, detail in exs:
            if repr(inp) in shown or len(shown) >= 3:
                continue
            shown.add(repr(inp))
            run.fail(clause, klass, inp, detail)
        run.counts["%s|%s" % (clause, klass)] = cnt
    run.exhaustive = True
    run.notes += [
        "enumerated cases start from a structural clone of a real lasio.read result (verified equal to a second real read by a "
        "full snapshot, per process); clone trusted per start state: %r; random cases and --replay call lasio.read every time"
        % (sorted(clone_ok.items()),),
        "exhaustive refers to the enumerated part (bound above); the random sequences are a sample",
        "left out (statement silent or ambiguous): insert positions outside [-n, n] (clamping); delete_curve/update_curve given "
        "both ix and mnemonic; las[key] = CurveItem whose mnemonic differs from key; names that end in ':<digits>' and blank names "
        "passed by the caller (C13 domain); 2-D arrays narrower than the curve list, with zero rows/columns, or names lists longer "
        "than the result; set_data(truncate=True) on an empty curve list; pandas DataFrames (set_data_from_df); an absent mnemonic "
        "is only ever 'ZZ' and a mnemonic differing in case from a session name is never used with delete_curve/update_curve",
        "accepted alternatives: las[k] = x with k differing only in case from a session name of a case-insensitive section may "
        "update that curve or append; curves beyond a shorter names list may keep their name or become ''; names/metadata of curves "
        "created by set_data for unnamed extra columns and metadata of curves created by las[newkey] = array are not constrained",
        "data (column i == curve i) is only evaluated when all curves have the same length; index/data are not evaluated on an "
        "empty collection",
        "a failure's klass is computed from the start state, the operation at the first deviating step and the shape of the model "
        "state before it (not from the symptom); sequences stop at their first deviation",
    ]
    return run


def replay_one(entry):
    inp = entry["input"]
    if inp["mode"] == "single":
        if not inp["ops"]:
            d = check_bystander(Sim(inp["start"]), True)
            status, payload = (FAIL, ("initial-state-as-authored", "start=%s" % inp["start"], d)) if d else (OK, 0)
        else:
            status, payload = run_single(inp["start"], inp["ops"], True)
    else:
        status, payload = run_pair(tuple(inp["starts"]), inp["ops"], True)
    if status == FAIL and payload[0] == entry["clause"]:
        return True, payload[2]
    return False, "clause %s holds on this input now (status %s, %r)" % (entry["clause"], status, payload)


if __name__ == "__main__":
    main("C14", build_run, replay_one)
