"""C15 bounded stand-in / CPython cross-check: lookup by key, attribute, membership
and get() agree, on the real SectionItems.

States: every section reachable by an operation sequence (append / insert /
replace / rename an item / delete by index / delete by key) of bounded length over a small name
alphabet, with mnemonic_transforms off and on (set right after construction, as
the reader does).  Sequences that reach the same observable state (the same list
of (original, session) mnemonics) are merged at every step and the first
(shortest, enumeration-order) sequence is kept as the witness.

Probes: for every state, string keys (present, other case, padded, blank,
integer-like, absent), integer keys (in range, negative, out of range) and
slices.  Before every probe the section is put back exactly as the sequence
left it (class State: same item objects, same order, all attributes reset, then
compared with the snapshot), so probes cannot interfere.  copy.deepcopy is
deliberately NOT used to isolate the probes: it goes through
HeaderItem.__reduce__, which is property C17's subject, and rebuilding the
sequence for each of the ~10^7 probes costs 3x the time for the same states.

Oracle: a plain list of the session mnemonics read straight off the items
(list.__iter__, attribute read) and Python's own ==/.upper()/list indexing.
"""
import sys
import os
sys.path.insert(0, os.path.dirname(os.path.abspath(__file__)))
from common import Run, main, MAX_PER_KLASS

import keyword
import multiprocessing

import lasio
from lasio import HeaderItem, SectionItems

NAMES = ["A", "a", "B", "", "1", "A ", "A:1"]
FIXED_KEYS = ["A", "a", "B", "b", "", " ", "1", "2", "A ", " A", "UNKNOWN", "unknown", "Unknown",
              "Z", "A:1", "a:1", "A:2", "B:1"]
SLICES = [(None, None, None), (0, 1, None), (1, None, None), (None, None, -1), (-1, None, None),
          (None, None, 2), (5, None, None), (1, 0, None), (-2, -1, None), (0, 9, None)]
NEWVALS = ["NEW", 7]


# ---------------------------------------------------------------- building states

def ops_alphabet():
    ops = []
    for nm in NAMES:
        ops.append(("append", nm))
        for pos in (0, 1, -1):
            ops.append(("insert", pos, nm))
        for idx in range(3):
            ops.append(("replace", idx, nm))
        for idx in range(2):
            ops.append(("rename", idx, nm))
    for idx in range(3):
        ops.append(("del_ix", idx))
        ops.append(("del_key", idx))
    return ops


OPS = ops_alphabet()


def mk(nm, j):
    return HeaderItem(nm, unit="u", value="v%d" % j, descr="d%d" % j)


def raw_items(s):
    return list(list.__iter__(s))


def build(seq, tr):
    """the section built by `seq`; None when an operation does not apply or raises
    (building the states is C13's business, not this property's)"""
    s = SectionItems()
    if tr:
        s.mnemonic_transforms = True
    try:
        for j, op in enumerate(seq):
            kind = op[0]
            n = list.__len__(s)
            if kind == "append":
                s.append(mk(op[1], j))
            elif kind == "insert":
                s.insert(op[1], mk(op[2], j))
            elif kind == "replace":
                if op[1] >= n:
                    return None
                s[raw_items(s)[op[1]].mnemonic] = mk(op[2], j)
            elif kind == "rename":
                # item.mnemonic = name, as LASFile.set_data(names=...) does: session names are NOT renumbered,
                # which is how a section comes to hold equal session names ("the FIRST item whose ...")
                if op[1] >= n:
                    return None
                raw_items(s)[op[1]].mnemonic = op[2]
            elif kind == "del_ix":
                if op[1] >= n:
                    return None
                del s[op[1]]
            elif kind == "del_key":
                if op[1] >= n:
                    return None
                del s[raw_items(s)[op[1]].mnemonic]
            else:
                raise ValueError(op)
    except ValueError:
        raise
    except Exception:
        return None
    for it in raw_items(s):
        if not isinstance(it.mnemonic, str):
            return None
    return s


def signature(s):
    return tuple((it.original_mnemonic, it.mnemonic) for it in raw_items(s))


def enumerate_states(maxlen, tr):
    """{signature: witness sequence}, breadth first, merging equal observable states"""
    seen = {(): ()}
    level = [()]
    for depth in range(1, maxlen + 1):
        nxt = []
        for sig in level:
            seq = seen[sig]
            for op in OPS:
                s = build(seq + (op,), tr)
                if s is None:
                    continue
                sig2 = signature(s)
                if sig2 not in seen:
                    seen[sig2] = seq + (op,)
                    nxt.append(sig2)
        level = nxt
    return seen


# ---------------------------------------------------------------- oracle

def eq(tr, a, b):
    return a.upper() == b.upper() if tr else a == b


def first_match(tr, sess, k):
    for i, m in enumerate(sess):
        if eq(tr, m, k):
            return i
    return None


def snapshot(s):
    return [(id(it), it.original_mnemonic, it.mnemonic, it.unit, it.value, it.descr) for it in raw_items(s)]


def ids(s):
    return [id(it) for it in raw_items(s)]


def has_dup(tr, sess):
    ks = [m.upper() if tr else m for m in sess]
    return int(len(set(ks)) != len(ks))


def klass_str(tr, sess, probe, k):
    matches = [i for i, m in enumerate(sess) if eq(tr, m, k)]
    if matches:
        kk = "exact" if sess[matches[0]] == k else "case"
    elif k.strip() == "":
        kk = "blank"
    elif any(eq(tr, m.strip(), k.strip()) for m in sess):
        kk = "pad"
    elif any(m.upper() == k.upper() for m in sess):
        kk = "othercase"
    else:
        kk = "none"
    return "tr=%d;probe=%s;key=str-%s;nmatch=%d;digit=%d;dup=%d" % (
        tr, probe, kk, min(len(matches), 2), int(k.isdigit()), has_dup(tr, sess))


def klass_int(tr, sess, probe, i):
    n = len(sess)
    kk = "inrange" if 0 <= i < n else ("neg-inrange" if -n <= i < 0 else "out")
    return "tr=%d;probe=%s;key=int-%s;dup=%d;digitname=%d" % (
        tr, probe, kk, has_dup(tr, sess), int(any(m.isdigit() for m in sess)))


def klass_slice(tr, sess, probe, sl):
    return "tr=%d;probe=%s;key=slice;step=%s;dup=%d" % (tr, probe, "none" if sl[2] is None else sl[2], has_dup(tr, sess))


def attr_ok(k):
    return (k.isidentifier() and not keyword.iskeyword(k) and not hasattr(SectionItems, k)
            and k != "mnemonic_transforms" and not k.startswith("_"))


def string_keys(sess):
    out = list(FIXED_KEYS)
    for m in sess:
        out += [m, m.swapcase(), m.lower(), m.upper(), m + " ", " " + m]
    res, seen = [], set()
    for k in out:
        if k not in seen:
            seen.add(k)
            res.append(k)
    return res


# ---------------------------------------------------------------- probes
# each returns (n_executions, [(clause, detail)])

def exc_name(e):
    return "%s(%s)" % (type(e).__name__, str(e)[:120])


def probe_str_read(s, tr, k, restore=None):
    """`in`, [], getattr, get() on one section that must not move"""
    bad = []
    n = 0
    items = raw_items(s)
    sess = [it.mnemonic for it in items]
    exp = first_match(tr, sess, k)
    snap = snapshot(s)
    # membership
    n += 1
    try:
        r = k in s
        rerr = None
    except Exception as e:
        r, rerr = None, e
    # item access
    n += 1
    got = err = None
    try:
        got = s[k]
        ok = True
    except Exception as e:
        ok, err = False, e
    if rerr is not None:
        bad.append(("contains-iff-getitem-succeeds", "%r in s raised %s; sessions=%r" % (k, exc_name(rerr), sess)))
    elif bool(r) != ok:
        bad.append(("contains-iff-getitem-succeeds", "(%r in s)=%r but s[%r] %s; sessions=%r" % (
            k, r, k, "succeeded" if ok else "raised " + exc_name(err), sess)))
    if exp is not None:
        if not ok:
            bad.append(("getitem-returns-first-match", "s[%r] raised %s although session #%d equals it; sessions=%r" % (k, exc_name(err), exp, sess)))
        elif got is not items[exp]:
            where = [i for i, it in enumerate(items) if it is got]
            bad.append(("getitem-returns-first-match", "s[%r] returned item at %r, first match is #%d; sessions=%r" % (k, where or repr(got), exp, sess)))
    else:
        if ok:
            bad.append(("missing-key-raises-keyerror", "s[%r] returned %r; sessions=%r" % (k, got, sess)))
        elif not isinstance(err, KeyError):
            bad.append(("missing-key-raises-keyerror", "s[%r] raised %s, not KeyError; sessions=%r" % (k, exc_name(err), sess)))
    # attribute access
    if attr_ok(k):
        n += 1
        try:
            g = getattr(s, k)
            aok, aerr = True, None
        except Exception as e:
            g, aok, aerr = None, False, e
        if exp is not None:
            if not aok:
                bad.append(("attribute-returns-same-item", "getattr(s,%r) raised %s; sessions=%r" % (k, exc_name(aerr), sess)))
            elif g is not items[exp]:
                bad.append(("attribute-returns-same-item", "getattr(s,%r) returned %r, first match is #%d; sessions=%r" % (k, g, exp, sess)))
        elif aok:
            bad.append(("attribute-agrees-on-missing-key", "getattr(s,%r) returned %r for a key not in the section; sessions=%r" % (k, g, sess)))
    moved = snapshot(s) != snap
    if moved and restore is not None:       # a lookup changed the section (not this property's clause): undo, then probe get()
        s = restore()
        moved = snapshot(s) != snap
    # get() without add
    if not moved:
        n += 1
        try:
            g = s.get(k)
            gok, gerr = True, None
        except Exception as e:
            g, gok, gerr = None, False, e
        after = snapshot(s)
        if after != snap:
            bad.append(("get-without-add-leaves-section", "get(%r): before %r after %r" % (k, [x[1:] for x in snap], [x[1:] for x in after])))
            moved = True
        if exp is not None:
            if not gok:
                bad.append(("get-agrees-with-getitem", "get(%r) raised %s; sessions=%r" % (k, exc_name(gerr), sess)))
            elif g is not items[exp]:
                bad.append(("get-agrees-with-getitem", "get(%r) returned %r, first match is #%d; sessions=%r" % (k, g, exp, sess)))
        # key missing and get() raising: the statement is silent, not checked
    return n, bad, moved


def probe_after_renaming_append(s, tr, k):
    """operation history: look the key up (membership, item, attribute, get), then append an item whose name duplicates the
    matched item's name (append re-numbers the session names of that group), then run the read probes again on the new
    state - a lookup must not remember anything that the later append invalidates"""
    items = raw_items(s)
    sess = [it.mnemonic for it in items]
    exp = first_match(tr, sess, k)
    if exp is None:
        return 0, []
    try:
        k in s; s[k]; s.get(k)
        if attr_ok(k):
            getattr(s, k)
    except Exception:
        return 0, []            # the plain read probe reports that
    s.append(HeaderItem(items[exp].original_mnemonic, "", "dup", "appended after the lookup"))
    n, bad, _moved = probe_str_read(s, tr, k)
    return n + 5, bad


def probe_get_add(s, tr, k):
    items = raw_items(s)
    sess = [it.mnemonic for it in items]
    exp = first_match(tr, sess, k)
    before = ids(s)
    try:
        s.get(k, add=True)
    except Exception as e:
        return 1, [("get-add-appends-exactly-one" if exp is None else "get-add-present-appends-none",
                    "get(%r, add=True) raised %s; sessions=%r" % (k, exc_name(e), sess))]
    after = ids(s)
    if exp is None:
        if len(after) != len(before) + 1 or after[:len(before)] != before or after[-1] in before:
            return 1, [("get-add-appends-exactly-one", "get(%r, add=True) on %r: %d items -> %d items %r" % (
                k, sess, len(before), len(after), [it.mnemonic for it in raw_items(s)]))]
    elif after != before:
        return 1, [("get-add-present-appends-none", "get(%r, add=True) on %r (present): -> %r" % (
            k, sess, [it.mnemonic for it in raw_items(s)]))]
    return 1, []


def check_only_value(s, snap, pos, newval, what):
    after = snapshot(s)
    want = list(snap)
    t = want[pos]
    want[pos] = (t[0], t[1], t[2], t[3], newval, t[5])
    if after != want or type(after[pos][4]) is not type(newval):
        return "%s: before %r after %r" % (what, [x[1:] for x in snap], [x[1:] for x in after])
    return None


def probe_set_value(s, tr, k, newval):
    """only for a present key"""
    sess = [it.mnemonic for it in raw_items(s)]
    exp = first_match(tr, sess, k)
    snap = snapshot(s)
    try:
        s[k] = newval
    except Exception as e:
        return 1, [("set-value-changes-only-that-item", "s[%r]=%r raised %s; sessions=%r" % (k, newval, exc_name(e), sess))]
    d = check_only_value(s, snap, exp, newval, "s[%r]=%r (first match #%d)" % (k, newval, exp))
    return 1, ([("set-value-changes-only-that-item", d)] if d else [])


def probe_del_key(s, tr, k):
    sess = [it.mnemonic for it in raw_items(s)]
    exp = first_match(tr, sess, k)
    before = ids(s)
    try:
        del s[k]
        err = None
    except Exception as e:
        err = e
    after = ids(s)
    if exp is None:
        if err is None:
            return 1, [("missing-key-raises-keyerror", "del s[%r] did not raise; sessions=%r -> %r" % (k, sess, [it.mnemonic for it in raw_items(s)]))]
        if not isinstance(err, KeyError):
            return 1, [("missing-key-raises-keyerror", "del s[%r] raised %s, not KeyError; sessions=%r" % (k, exc_name(err), sess))]
        return 1, []
    if err is not None:
        return 1, [("delete-by-key-removes-exactly-that-item", "del s[%r] raised %s; sessions=%r" % (k, exc_name(err), sess))]
    want = before[:exp] + before[exp + 1:]
    if after != want:
        return 1, [("delete-by-key-removes-exactly-that-item", "del s[%r] on %r (first match #%d) left %r" % (
            k, sess, exp, [it.mnemonic for it in raw_items(s)]))]
    return 1, []


def probe_int_read(s, tr, i):
    items = raw_items(s)
    sess = [it.mnemonic for it in items]
    try:
        want, werr = items[i], None
    except IndexError as e:
        want, werr = None, e
    try:
        got, err = s[i], None
    except Exception as e:
        got, err = None, e
    if werr is not None:
        if err is None or not isinstance(err, IndexError):
            return 1, [("integer-key-addresses-position", "s[%d] on %d items: %s, a list raises IndexError; sessions=%r" % (
                i, len(items), "returned %r" % (got,) if err is None else "raised " + exc_name(err), sess))]
    elif err is not None or got is not want:
        return 1, [("integer-key-addresses-position", "s[%d] %s, a list gives item #%d; sessions=%r" % (
            i, "raised " + exc_name(err) if err is not None else "returned %r" % (got,), i % len(items), sess))]
    return 1, []


def probe_int_del(s, tr, i):
    sess = [it.mnemonic for it in raw_items(s)]
    before = ids(s)
    want = list(before)
    try:
        del want[i]
        werr = None
    except IndexError as e:
        werr = e
    try:
        del s[i]
        err = None
    except Exception as e:
        err = e
    after = ids(s)
    if werr is not None:
        if err is None or not isinstance(err, IndexError):
            return 1, [("delete-by-index-removes-exactly-that-item", "del s[%d] on %d items: %s, a list raises IndexError; sessions=%r" % (
                i, len(before), "did not raise" if err is None else "raised " + exc_name(err), sess))]
        return 1, []
    if err is not None or after != want:
        return 1, [("delete-by-index-removes-exactly-that-item", "del s[%d] on %r: %s; left %r" % (
            i, sess, "raised " + exc_name(err) if err is not None else "wrong item removed", [it.mnemonic for it in raw_items(s)]))]
    return 1, []


def probe_int_set(s, tr, i, newval):
    """only for an in-range index"""
    sess = [it.mnemonic for it in raw_items(s)]
    snap = snapshot(s)
    try:
        s[i] = newval
    except Exception as e:
        return 1, [("set-value-by-index-changes-only-that-item", "s[%d]=%r raised %s; sessions=%r" % (i, newval, exc_name(e), sess))]
    d = check_only_value(s, snap, i % len(snap), newval, "s[%d]=%r" % (i, newval))
    return 1, ([("set-value-by-index-changes-only-that-item", d)] if d else [])


def probe_slice_read(s, tr, sl):
    items = raw_items(s)
    sess = [it.mnemonic for it in items]
    want = [id(x) for x in items[slice(*sl)]]
    try:
        got = s[slice(*sl)]
        got = [id(x) for x in list.__iter__(got)]
    except Exception as e:
        return 1, [("slice-addresses-positions", "s[%r] raised %s; sessions=%r" % (slice(*sl), exc_name(e), sess))]
    if got != want:
        pos = {id(x): j for j, x in enumerate(items)}
        return 1, [("slice-addresses-positions", "s[%r] on %r gave positions %r, a list gives %r" % (
            slice(*sl), sess, [pos.get(g, "?") for g in got], [pos[w] for w in want]))]
    return 1, []


# ---------------------------------------------------------------- one (state, key) case

def key_to_json(k):
    if isinstance(k, str):
        return {"s": k}
    if isinstance(k, int):
        return {"i": k}
    return {"sl": list(k)}


def key_from_json(j):
    if "s" in j:
        return j["s"]
    if "i" in j:
        return j["i"]
    return tuple(j["sl"])


class State(object):
    """the section built by a sequence, with an exact undo: after a probe the very same item objects are put
    back in the very same order and every attribute of the items and of the section is reset, so each probe
    sees the state as the operation sequence left it (checked against the snapshot)"""

    def __init__(self, seq, tr):
        self.seq, self.tr = seq, tr
        self.s = build(seq, tr)
        if self.s is not None:
            self._take()

    def _take(self):
        self.items = raw_items(self.s)
        self.dicts = [dict(it.__dict__) for it in self.items]
        self.sdict = dict(self.s.__dict__)
        self.snap = snapshot(self.s)

    def fresh(self):
        s = self.s
        list.__setitem__(s, slice(None), self.items)
        for it, d in zip(self.items, self.dicts):
            it.__dict__.clear()
            it.__dict__.update(d)
            if dict.__len__(it):
                dict.clear(it)
        s.__dict__.clear()
        s.__dict__.update(self.sdict)
        if snapshot(s) != self.snap:        # cannot happen; rebuild rather than go on with a damaged state
            self.s = build(self.seq, self.tr)
            self._take()
        return self.s


def run_key(st, k):
    """all probes of one key on the state `st`.  returns (n_executions, [(clause, klass, probe, detail)])"""
    out = []
    n = 0
    tr = st.tr
    fresh = st.fresh
    sess = [x[2] for x in st.snap]
    if isinstance(k, str):
        exp = first_match(tr, sess, k)
        c, bad, moved = probe_str_read(fresh(), tr, k, fresh)
        n += c
        out += [(cl, klass_str(tr, sess, "read", k), "read", d) for cl, d in bad]
        c, bad = probe_get_add(fresh(), tr, k)
        n += c
        out += [(cl, klass_str(tr, sess, "get-add", k), "get-add", d) for cl, d in bad]
        c, bad = probe_after_renaming_append(fresh(), tr, k)
        n += c
        out += [(cl, klass_str(tr, sess, "read-after-renaming-append", k), "read-after-renaming-append", d) for cl, d in bad]
        c, bad = probe_del_key(fresh(), tr, k)
        n += c
        out += [(cl, klass_str(tr, sess, "del", k), "del", d) for cl, d in bad]
        if exp is not None:
            for v in NEWVALS:
                c, bad = probe_set_value(fresh(), tr, k, v)
                n += c
                out += [(cl, klass_str(tr, sess, "set-%s" % type(v).__name__, k), "set-%s" % type(v).__name__, d) for cl, d in bad]
    elif isinstance(k, int):
        c, bad = probe_int_read(fresh(), tr, k)
        n += c
        out += [(cl, klass_int(tr, sess, "read", k), "read", d) for cl, d in bad]
        c, bad = probe_int_del(fresh(), tr, k)
        n += c
        out += [(cl, klass_int(tr, sess, "del", k), "del", d) for cl, d in bad]
        if -len(sess) <= k < len(sess):
            c, bad = probe_int_set(fresh(), tr, k, NEWVALS[0])
            n += c
            out += [(cl, klass_int(tr, sess, "set", k), "set", d) for cl, d in bad]
    else:
        c, bad = probe_slice_read(fresh(), tr, k)
        n += c
        out += [(cl, klass_slice(tr, sess, "read", k), "read", d) for cl, d in bad]
    return n, out


def keys_for(sess):
    n = len(sess)
    return string_keys(sess) + list(range(-(n + 2), n + 2)) + list(SLICES)


def run_state(task):
    """worker: all keys of one state"""
    tr, seq = task
    st = State(seq, tr)
    if st.s is None:
        return None
    sess = [x[2] for x in st.snap]
    nexec = 0
    ncases = 0
    fails = []
    for k in keys_for(sess):
        n, out = run_key(st, k)
        nexec += n
        ncases += 1
        for clause, klass, probe, detail in out:
            fails.append((clause, klass, {"transforms": bool(tr), "ops": [list(o) for o in seq], "key": key_to_json(k), "probe": probe}, detail))
    return (tr, seq, sess, nexec, ncases, fails)


def run_chunk(tasks):
    res = []
    for t in tasks:
        r = run_state(t)
        if r is None:
            continue
        tr, seq, sess, nexec, ncases, fails = r
        # keep the chunk's answer small: at most MAX_PER_KLASS inputs per (clause, klass), but exact counts
        kept, counts = [], {}
        for f in fails:
            kk = (f[0], f[1])
            counts[kk] = counts.get(kk, 0) + 1
            if counts[kk] <= MAX_PER_KLASS:
                kept.append(f)
        res.append((tr, seq, sess, nexec, ncases, kept, counts))
    return res


QUICK_SAMPLE = 3000


def _enum(args):
    return enumerate_states(*args)


def build_run(tier, seed):
    quick = tier == "quick"
    full = 3 if quick else 5                # every state reachable within this many operations is probed
    maxlen = 4 if quick else 5
    nproc = 4 if quick else min(16, os.cpu_count() or 1)
    bound = ("sequence length <= %d, complete (sequences reaching the same observable state merged at every step; "
             "insert positions 0,1,-1; replace/delete positions 0..2; rename positions 0..1)" % full)
    if quick:
        bound += "; in addition %d of the states first reached at length 4, drawn with --seed (not part of the exhaustive claim)" % QUICK_SAMPLE
    run = Run("C15",
              "one case = (transforms, section state, probe key); a case is non-trivial when the section holds >= 2 items. "
              "States are distinct as lists of (original, session) mnemonics and keys are distinct per state, so the count is exact",
              "SectionItems built by append/insert/replace/rename/delete sequences over names %r x transforms {off,on} x "
              "string keys (fixed %r + every session name, its case variants and blank-padded variants), "
              "integers -(n+2)..n+1, slices %r" % (NAMES, FIXED_KEYS, SLICES),
              bound)
    ctx = multiprocessing.get_context("fork")
    with ctx.Pool(2) as pool:
        both = pool.map(_enum, [(maxlen, 0), (maxlen, 1)], chunksize=1)
    tasks, extra = [], []
    for tr, states in zip((0, 1), both):
        for sig in states:
            (tasks if len(states[sig]) <= full else extra).append((tr, states[sig]))
    if extra:
        import random
        extra.sort(key=repr)
        tasks += random.Random(seed).sample(extra, min(QUICK_SAMPLE, len(extra)))
    nchunks = max(1, min(len(tasks), nproc * 8))
    chunks = [tasks[i::nchunks] for i in range(nchunks)]
    if nproc > 1 and len(tasks) > 200:
        ctx = multiprocessing.get_context("fork")
        with ctx.Pool(nproc) as pool:
            results = pool.map(run_chunk, chunks, chunksize=1)
    else:
        results = [run_chunk(c) for c in chunks]
    flat = [r for res in results for r in res]
    flat.sort(key=lambda r: (r[0], len(r[1]), repr(r[1])))      # deterministic, shortest witnesses first
    nontrivial = 0
    for tr, seq, sess, nexec, ncases, kept, counts in flat:
        run.evaluations += nexec
        if len(sess) >= 2:
            nontrivial += ncases
        if len(run.samples) < 6 and len(seq) == full and len(sess) >= 2 and (len(run.samples) % 2 == tr):
            run.samples.append({"transforms": bool(tr), "ops": [list(o) for o in seq], "sessions": sess, "keys_probed": ncases})
        for clause, klass, inp, detail in kept:
            k = "%s|%s" % (clause, klass)
            lst = run.failures.setdefault(k, [])
            if len(lst) < MAX_PER_KLASS:
                lst.append({"clause": clause, "klass": klass, "input": inp, "detail": str(detail)[:600]})
        for (clause, klass), c in counts.items():
            k = "%s|%s" % (clause, klass)
            run.counts[k] = run.counts.get(k, 0) + c
    run.nontrivial = range(nontrivial)      # measured count of distinct cases (distinct by construction); only len() is used
    run.exhaustive = True
    run.notes += [
        "%d distinct section states (%d with transforms off, %d on)" % (len(flat), sum(1 for r in flat if not r[0]), sum(1 for r in flat if r[0])),
        "--seed only selects the extra length-4 states of the quick tier; the thorough tier enumerates, nothing is sampled",
        "probes are isolated by an exact undo of the built section (same item objects, attributes reset, checked against a snapshot); "
        "copy.deepcopy is not used (it rewrites original mnemonics, property C17)",
        "case folding is compared with str.upper on an ASCII alphabet only; non-ASCII mnemonics are left out",
        "attribute access is probed only for identifier-like keys that are not attributes of the class (keys, get, append, json ... are shadowed by the methods: left out)",
        "left out because the statement is silent: del/assignment with a slice (documented key types there are str,int), `int in s`, "
        "HeaderItem objects as keys, assignment of a plain value to a missing key or out-of-range index, assignment through an attribute, "
        "get() of a missing key raising, what the item added by get(add=True) looks like, the type/transforms flag of a slice result, bool keys",
        "get(k, add=True) with k present is required to append nothing (reading of 'appends exactly one item' given in the task notes)",
        "states whose construction raises are skipped (construction is property C13)",
        "the name 'A:1' and the rename operation (item.mnemonic = name, what LASFile.set_data(names=) does) are in the alphabet because "
        "they are the only ways to reach sections with EQUAL session names, without which 'the FIRST item' is never exercised",
    ]
    return run


def replay_one(entry):
    inp = entry["input"]
    seq = tuple(tuple(o) for o in inp["ops"])
    tr = 1 if inp["transforms"] else 0
    k = key_from_json(inp["key"])
    st = State(seq, tr)
    if st.s is None:
        return False, "the state can no longer be built by %r" % (seq,)
    n, out = run_key(st, k)
    for clause, klass, probe, detail in out:
        if clause == entry["clause"] and probe == inp.get("probe", probe):
            return True, detail
    return False, "clause %s holds on this input now (other failures: %r)" % (entry["clause"], [(o[0], o[3]) for o in out])


if __name__ == "__main__":
    main("C15", build_run, replay_one)
