"""C16 bounded stand-in / CPython cross-check: write() is deterministic, leaves data
alone and states STRT/STOP/STEP truthfully.

For every case (history x index shape x header variant x unit case x curve count x
writer options) the REAL LASFile.write() is called three times on the same object.
A full snapshot (every field of every item of every section, curve bytes/dtype/shape,
index_unit, section keys and order) is taken before and after every write and compared
with an oracle that knows only the statement:

  * first write: nothing differs except the documented fields;
  * later writes: snapshot identical to the one after the first write, text identical;
  * the OUTPUT text is parsed by a small parser of this file (not lasio's reader) and,
    when the index was created / changed in memory / the file's STOP disagreed with its
    data, STRT/STOP/STEP are compared with the index column actually written.
"""
import sys
import os
sys.path.insert(0, os.path.dirname(os.path.abspath(__file__)))
from common import Run, main

import io
import itertools
import math
import multiprocessing
import random
import re

import numpy as np
import lasio
from lasio import HeaderItem

# --------------------------------------------------------------------------- space

HISTS_SCRATCH = ["scratch_append", "scratch_setdata"]
HISTS_READ = ["read", "read_stop_far", "read_stop_tiny",
              "idx_inplace_shift", "idx_inplace_last", "idx_rebound", "setdata_rebound", "setdata_crop_top", "idx_delcurve",
              "other_inplace", "other_rebound_int", "hdr_edit", "hdr_edit_sss", "hdr_edit_stop"]
HISTS = HISTS_SCRATCH + HISTS_READ
# histories for which the statement demands a truthful STRT/STOP/STEP in the output
TRUTH_DEMANDED = {"scratch_append", "scratch_setdata", "read_stop_far", "read_stop_tiny", "idx_inplace_shift",
                  "idx_inplace_last", "idx_rebound", "setdata_rebound", "setdata_crop_top", "idx_delcurve"}
NEEDS_OTHER_CURVE = {"idx_delcurve", "other_inplace", "other_rebound_int"}

SHAPES = ["inc", "dec", "single", "irr", "big"]
HVS = ["plain", "empties", "widest", "v12"]
UNITS = ["agree", "differ", "curveblank"]
NCS = [1, 3, 9]
VERSIONS = [None, 1.2, 2.0]
WRAPS = [None, True, False]
FMTS = {
    "F0": ({}, 5),
    "F1": ({"fmt": "%.2f"}, 2),
    "F2": ({"fmt": "%.8f"}, 8),
    "F3": ({"fmt": "%.3f", "column_fmt": {0: "%.6f"}}, 6),
    "F4": ({"fmt": "%10.4f", "len_numeric_field": -1}, 4),
    "F5": ({"mnemonics_header": True, "data_width": 40, "header_width": 70}, 5),
    # coarse general format, finer format for the index column: the header must follow the index column as written
    "F6": ({"fmt": "%.1f", "column_fmt": {0: "%.4f"}}, 4),
}
HEADER_DECIMALS = 5          # update_start_stop_step formats with "%.5f"
NWRITES = 3
SSS = ("STRT", "STOP", "STEP")

E = ""                        # the empty value


def header_variant(hv):
    """(file version, extra ~W items, ~P items, ~O text); items are (mnemonic, unit, value, descr).
    The object of variant "empties" additionally says WRAP YES (so wrap=None writes wrapped data)."""
    if hv == "plain":
        return "2.0", [("COMP", "", "ACME", "COMPANY")], [("BHT", "DEGC", 35.5, "bottom hole temp")], ""
    if hv in ("empties", "v12"):
        return ("1.2" if hv == "v12" else "2.0",
                [("COMP", "", "ACME", "COMPANY"), ("ELEV", "M", E, "ELEVATION"), ("FLD", "", E, "FIELD")],
                [("BHT", "DEGC", 35.5, "bottom hole temp"), ("RMF", "OHMM", E, "mud filtrate"), ("MUD", "", E, "mud type")],
                "a note in the other section")
    if hv == "widest":
        return "2.0", [("COMP", "", "A", "COMPANY"), ("ELEVATIONREF", "METRESABOVEMSL", E, "ELEVATION")], \
               [("RMF", "OHMM", E, "mud filtrate")], ""
    raise ValueError(hv)


def unit_case(units, scratch):
    """(unit of STRT/STOP/STEP, unit of the index curve)"""
    if units == "agree":
        return ("m", "m") if scratch else ("M", "M")
    if units == "differ":
        return ("m", "FT") if scratch else ("FT", "M")
    return ("m", "") if scratch else ("M", "")


def q5(v):
    return float("%.5f" % v)


def make_index(shape, seed, rseed):
    if rseed == 0:
        if shape == "inc":
            v = [100.0 + 0.5 * i for i in range(5)]
        elif shape == "dec":
            v = [300.0 - 0.25 * i for i in range(5)]
        elif shape == "single":
            v = [1500.125]
        elif shape == "irr":
            v = [10.0, 10.5, 11.75, 14.0, 14.125]
        elif shape == "big":
            v = [123456.78901 + 0.5 * i for i in range(4)]
        else:
            raise ValueError(shape)
        return [q5(x) for x in v]
    rnd = random.Random("%d/%d/%s" % (seed, rseed, shape))
    n = rnd.randint(2, 9)
    start = round(rnd.uniform(-50.0, 5000.0), 3)
    step = rnd.choice([0.1524, 0.5, 1.0 / 3.0, 0.001, 2.0, 0.0625, 0.00011])
    if shape == "inc":
        v = [start + step * i for i in range(n)]
    elif shape == "dec":
        v = [start - step * i for i in range(n)]
    elif shape == "single":
        v = [start]
    elif shape == "irr":
        v = [start]
        for _ in range(n - 1):
            v.append(v[-1] + step * rnd.choice([1, 2, 3, 7]) + rnd.choice([0.0, 0.00123]))
    elif shape == "big":
        start = round(rnd.uniform(100000.0, 900000.0), 5)
        v = [start + step * i for i in range(n)]
    else:
        raise ValueError(shape)
    v = [q5(x) for x in v]
    # the shape label must stay honest after rounding to the file's 5 decimals
    if len(set(v)) != len(v):
        return make_index(shape, seed, 0)
    return v


def make_others(idx, nc):
    cols = []
    for j in range(1, nc):
        col = [q5(i * 1.5 + j * 10.25) for i in range(len(idx))]
        if j == 2 and len(idx) >= 2:
            col[1] = float("nan")
        cols.append(col)
    return cols


def file_text(filever, wextra, params, other, uh, uc, idx, others, strt, stop, step, wrapped=False):
    def item(m, u, v, d, order):
        v = "" if v == E else str(v)
        if order == "vd":
            return "%s.%s %s : %s" % (m, u, v, d)
        return "%s.%s %s : %s" % (m, u, d, v)
    t = ["~Version information",
         "VERS. %s : CWLS LOG ASCII STANDARD" % filever,
         "WRAP. %s : wrap mode of this file" % ("YES" if wrapped else "NO"),
         "~Well information",
         "STRT.%s %.5f : START" % (uh, strt),
         "STOP.%s %.5f : STOP" % (uh, stop),
         "STEP.%s %.5f : STEP" % (uh, step),
         "NULL. -999.25 : NULL"]
    for (m, u, v, d) in wextra:
        t.append(item(m, u, v, d, "dv" if filever == "1.2" else "vd"))
    t.append("~Curve information")
    t.append("DEPT.%s : depth" % uc)
    for j in range(len(others)):
        t.append("C%d.%s : curve %d" % (j + 1, ["V", "", "GAPI"][j % 3], j + 1))
    t.append("~Parameter information")
    for (m, u, v, d) in params:
        t.append(item(m, u, v, d, "vd"))
    if other:
        t.append("~Other")
        t.append(other)
    t.append("~ASCII")
    for i in range(len(idx)):
        row = [idx[i]] + [c[i] for c in others]
        t.append(" ".join("-999.25" if (isinstance(x, float) and math.isnan(x)) else "%.5f" % x for x in row))
    return "\n".join(t) + "\n"


def same_numbers(a, b):
    a = np.asarray(a, dtype=float)
    b = np.asarray(b, dtype=float)
    return a.shape == b.shape and bool(np.all((a == b) | (np.isnan(a) & np.isnan(b))))


class SetupSkip(Exception):
    pass


def build(case, seed):
    """the LASFile under test, constructed with the public API only"""
    hist, shape, hv, units, nc = case["hist"], case["shape"], case["hv"], case["units"], case["nc"]
    idx = make_index(shape, seed, case.get("rseed", 0))
    others = make_others(idx, nc)
    filever, wextra, params, other = header_variant(hv)
    scratch = hist in HISTS_SCRATCH
    uh, uc = unit_case(units, scratch)
    n = len(idx)
    if scratch:
        las = lasio.LASFile()
        if filever == "1.2":
            las.version["VERS"].value = 1.2
        if hv == "empties":
            las.version["WRAP"].value = "YES"
        if hist == "scratch_append":
            las.append_curve("DEPT", np.array(idx), unit=uc, descr="depth")
            for j, col in enumerate(others):
                las.append_curve("C%d" % (j + 1), np.array(col), unit=["V", "", "GAPI"][j % 3], descr="curve %d" % (j + 1))
        else:
            las.set_data(np.array([idx] + others).T, names=["DEPT"] + ["C%d" % (j + 1) for j in range(len(others))])
        # in memory the empty value is None for items with a unit and '' otherwise, so both normalisations occur
        for (m, u, v, d) in wextra:
            las.well[m] = HeaderItem(m, u, (None if (v == E and u) else v), d)
        for (m, u, v, d) in params:
            las.params[m] = HeaderItem(m, u, (None if (v == E and not u) else v), d)
        las.other = other
        return las
    step = (idx[1] - idx[0]) if (n > 1 and shape != "irr") else 0.0
    stop = idx[-1]
    if hist == "read_stop_far":
        stop = idx[-1] + 1000.0
    elif hist == "read_stop_tiny":
        stop = idx[-1] + 0.00002
    text = file_text(filever, wextra, params, other, uh, uc, idx, others, idx[0], stop, step, wrapped=(hv == "empties"))
    want = np.array([idx] + others).T
    las = None
    for engine in ("numpy", "normal"):
        try:
            cand = lasio.read(text, engine=engine)
            if same_numbers(cand.data, want) and len(cand.curves) == nc and cand.well["STOP"].value == q5(stop):
                las = cand
                break
        except Exception:
            pass
    if las is None:
        raise SetupSkip("reader did not deliver the intended object")
    sign = -1.0 if shape == "dec" else 1.0
    if hist == "idx_inplace_shift":
        las.curves[0].data += 0.25
    elif hist == "idx_inplace_last":
        las.curves[0].data[-1] += sign * 0.5
    elif hist == "idx_rebound":
        las.curves[0].data = np.array(idx) * 1.0 + 10.0
    elif hist == "setdata_rebound":
        new = want.copy()
        new[:, 0] = new[:, 0] - 3.5
        las.set_data(new)
    elif hist == "setdata_crop_top":
        # rows dropped at the top through set_data: the last sample still equals the header STOP, STRT (and nothing else) is stale
        if n < 3:
            raise SetupSkip("cropping needs at least three rows")
        las.set_data(want[1:].copy())
    elif hist == "idx_delcurve":
        las.delete_curve(ix=0)
    elif hist == "other_inplace":
        las.curves[1].data[0] = 42.0
    elif hist == "other_rebound_int":
        las.curves[1].data = np.arange(n, dtype=np.int64) * 3
    elif hist == "hdr_edit":
        las.well["COMP"].value = None
        las.well["NEWU"] = HeaderItem("NEWU", "KG", "", "new item with a unit")
        las.params["PNONE"] = HeaderItem("PNONE", "", None, "none value")
        if "BHT" in las.params:
            las.params["BHT"].descr = "edited description"
        if "FLD" in las.well:
            del las.well["FLD"]
    elif hist == "hdr_edit_sss":
        las.well["STRT"].value = 12345.0
        las.well["STEP"].value = 7.0
    elif hist == "hdr_edit_stop":
        las.well["STOP"].value = idx[-1] + 1000.0
    return las


# --------------------------------------------------------------------------- snapshot

def vrepr(v):
    return (type(v).__name__, repr(v))


def snapshot(las):
    snap = {"__sections__": list(las.sections.keys()), "__index_unit__": vrepr(las.index_unit)}
    for name in las.sections:
        sec = las.sections[name]
        if isinstance(sec, str):
            snap[name] = ("text", sec)
            continue
        items = []
        for it in list.__iter__(sec):
            d = {"mnemonic": it.mnemonic, "original_mnemonic": it.original_mnemonic,
                 "unit": vrepr(it.unit), "value": vrepr(it.value), "descr": vrepr(it.descr),
                 "_unit": it.unit, "_value": it.value}
            data = getattr(it, "data", None)
            if isinstance(data, np.ndarray):
                d["data"] = (str(data.dtype), tuple(data.shape), np.ascontiguousarray(data).tobytes())
            else:
                d["data"] = vrepr(data)
            items.append(d)
        snap[name] = ("items", items)
    return snap


FIELDS = ("mnemonic", "original_mnemonic", "unit", "value", "descr", "data")


def diff(a, b):
    """list of (section, position, field, before, after)"""
    out = []
    if a["__sections__"] != b["__sections__"]:
        out.append(("__sections__", None, "keys", a["__sections__"], b["__sections__"]))
    if a["__index_unit__"] != b["__index_unit__"]:
        out.append(("__index_unit__", None, "index_unit", a["__index_unit__"], b["__index_unit__"]))
    for name in a["__sections__"]:
        if name not in b:
            continue
        ka, va = a[name]
        kb, vb = b[name]
        if ka != kb or ka == "text":
            if (ka, va) != (kb, vb):
                out.append((name, None, "text", va, vb))
            continue
        if len(va) != len(vb):
            out.append((name, None, "length", [i["mnemonic"] for i in va], [i["mnemonic"] for i in vb]))
            continue
        for p, (ia, ib) in enumerate(zip(va, vb)):
            for f in FIELDS:
                if ia[f] != ib[f]:
                    x, y = ia[f], ib[f]
                    if f == "data":
                        x = x[:2] if len(x) == 3 else x
                        y = y[:2] if len(y) == 3 else y
                    out.append((name, p, f, x, y))
    return out


def is_empty(v):
    return v is None or (isinstance(v, str) and v == "")


def allowed_first_write(d, before, wrap):
    """is this difference one of the documented ones?"""
    name, p, f, _x, _y = d
    if p is None:
        return False
    ia = before[name][1][p]
    if name == "Well" and ia["mnemonic"].upper() in SSS and f in ("unit", "value"):
        return True
    if name == "Curves" and p == 0 and f == "unit":
        return True
    if name == "Version" and ia["mnemonic"].upper() == "WRAP" and wrap is not None and f != "data":
        return True
    if name in ("Well", "Parameter") and f == "value" and is_empty(ia["_value"]):
        after_t, after_r = d[4]
        if ia["_unit"]:
            return after_t in ("int", "float") and after_r in ("0", "0.0")
        if ia["_value"] is None:
            return (after_t, after_r) == ("str", "''")
    return False


def clause_of(d):
    name, p, f, _x, _y = d
    if f == "data":
        return "curve-data-unchanged"
    if name == "Curves" and f in ("mnemonic", "original_mnemonic", "length"):
        return "curve-order-and-mnemonics-unchanged"
    if f == "descr":
        return "descriptions-unchanged"
    return "other-header-fields-unchanged"


# --------------------------------------------------------------------------- output parser

def parse_output(text, ncols):
    sec = None
    well = {}
    curve_units = []
    tokens = []
    for ln in text.split("\n"):
        if ln.startswith("~"):
            sec = ln[1:2].upper()
            continue
        if sec == "A":
            tokens += ln.split()
        elif sec in ("W", "C"):
            if not ln.strip() or ln.lstrip().startswith("#"):
                continue
            dot = ln.find(".")
            if dot < 0:
                continue
            mn = ln[:dot].strip()
            rest = ln[dot + 1:]
            unit = re.match(r"\S*", rest).group(0)
            after = rest[len(unit):]
            colon = after.find(":")
            val = after[:colon].strip() if colon >= 0 else after.strip()
            if sec == "W":
                well.setdefault(mn.upper(), (unit, val))
            else:
                curve_units.append(unit)
    if ncols == 0 or len(tokens) % ncols != 0:
        return None
    nrows = len(tokens) // ncols
    try:
        idx = [float(tokens[i * ncols]) for i in range(nrows)]
    except ValueError:
        return None
    return {"well": well, "curve_units": curve_units, "index": idx}


def check_output(text, ncols, dec_data):
    """[(clause, detail)] for the truthfulness part; None when the output cannot be parsed by this file's parser"""
    po = parse_output(text, ncols)
    if po is None or not po["index"] or not po["curve_units"]:
        return None
    bad = []
    idx = po["index"]
    scale = max(1.0, abs(idx[0]), abs(idx[-1]))
    slack = 1e-9 * scale
    h = 0.5 * 10.0 ** (-HEADER_DECIMALS)
    g = 0.5 * 10.0 ** (-dec_data)
    tol_pt = slack if dec_data == HEADER_DECIMALS else h + g + slack
    tol_step = h + 2 * g + slack          # difference of two written (rounded) values against the rounded difference

    def num(m):
        if m not in po["well"]:
            return None, "no %s line in the output" % m
        try:
            return float(po["well"][m][1]), None
        except ValueError:
            return None, "%s value %r is not a number" % (m, po["well"][m][1])
    for m, clause, target in (("STRT", "output-strt-equals-first-written-index", idx[0]),
                              ("STOP", "output-stop-equals-last-written-index", idx[-1])):
        v, err = num(m)
        if err:
            bad.append((clause, err))
        elif abs(v - target) > tol_pt:
            bad.append((clause, "%s=%r but the index column written has %r (tolerance %.3g)" % (m, po["well"][m][1], target, tol_pt)))
    if len(idx) >= 2:
        v, err = num("STEP")
        inc = idx[1] - idx[0]
        if err:
            bad.append(("output-step-equals-first-increment", err))
        elif abs(v - inc) > tol_step:
            bad.append(("output-step-equals-first-increment", "STEP=%r but first written increment is %r (tolerance %.3g)" % (po["well"]["STEP"][1], inc, tol_step)))
    cu = po["curve_units"][0]
    for m in SSS:
        if m in po["well"] and po["well"][m][0] != cu:
            bad.append(("output-units-equal-index-curve-unit", "%s unit %r, index curve unit %r" % (m, po["well"][m][0], cu)))
            break
    return bad


# --------------------------------------------------------------------------- classification (from the input alone)

def predict_normwidest(before, eff_version, refresh, single):
    """sections (W, P) whose column width, as a function of the item texts, differs between the
    not-yet-normalised and the normalised empty values; computed from the input object only"""
    out = ""
    for name, letter in (("Well", "W"), ("Parameter", "P")):
        if name not in before or before[name][0] != "items":
            continue
        pre, post = [0], [0]
        for it in before[name][1]:
            m = it["mnemonic"].upper()
            u = "" if it["_unit"] is None else str(it["_unit"])
            v = it["_value"]
            uses_value = not (name == "Well" and eff_version == 1.2 and m not in ("STRT", "STOP", "STEP", "NULL"))
            if not uses_value:
                w = len(u) + 1 + len(str(it["descr"][1]))
                pre.append(w)
                post.append(w)
                continue
            if name == "Well" and m in SSS and refresh:
                s = "None" if (m == "STEP" and single) else "x" * 9
                pre.append(len(u) + 1 + len(s))
                post.append(len(u) + 1 + len(s))
                continue
            nv = v
            if is_empty(v):
                nv = 0 if u else ""
            pre.append(len(u) + 1 + len(str(v)))
            post.append(len(u) + 1 + len(str(nv)))
        if max(pre) != max(post):
            out += letter
    return out or "-"


def klass_of(case, clause, normwidest, eff_version, single):
    """features of the INPUT that can matter for the clause (never the symptom)"""
    nc = "1" if case["nc"] == 1 else ("le7" if case["nc"] <= 7 else "gt7")
    if clause.startswith("output-"):
        return "hist=%s;shape=%s;units=%s;nc=%s;ver=%s;fmt=%s" % (case["hist"], case["shape"], case["units"], nc, eff_version, case["fmt"])
    if clause.startswith("repeated-write-"):
        return "hist=%s;single=%d;hv=%s;ver=%s;wrapgiven=%d;normwidest=%s" % (
            case["hist"], single, case["hv"], eff_version, case["wrap"] is not None, normwidest)
    return "hist=%s;single=%d;hv=%s;units=%s;nc=%s;ver=%s;veropt=%s;wrap=%s;normwidest=%s" % (
        case["hist"], single, case["hv"], case["units"], nc, eff_version, case["version"], case["wrap"], normwidest)


# --------------------------------------------------------------------------- one case

def run_case(case, seed):
    """returns dict(fails=[(clause, klass, detail)], writes=n, nontrivial=bool, skipped=str|None, unparsed=bool)"""
    res = {"fails": [], "writes": 0, "nontrivial": False, "skipped": None, "unparsed": False}
    try:
        las = build(case, seed)
    except SetupSkip as e:
        res["skipped"] = str(e)
        return res
    opts, dec_data = FMTS[case["fmt"]]
    kwargs = dict(opts)
    if "column_fmt" in kwargs:
        kwargs["column_fmt"] = dict(kwargs["column_fmt"])
    if case["version"] is not None:
        kwargs["version"] = case["version"]
    if case["wrap"] is not None:
        kwargs["wrap"] = case["wrap"]
    before = snapshot(las)
    vers_mem = las.version["VERS"].value
    eff_version = case["version"] if case["version"] is not None else vers_mem
    ncols = len(las.curves)
    single = len(las.curves[0].data) == 1
    demanded = case["hist"] in TRUTH_DEMANDED
    refresh_pred = demanded or case["hist"] == "hdr_edit_stop"
    normwidest = predict_normwidest(before, float(eff_version), refresh_pred, single)
    has_empty = any(is_empty(it["_value"]) for nm in ("Well", "Parameter") for it in before[nm][1] if it["mnemonic"].upper() not in SSS)
    res["nontrivial"] = bool(demanded or has_empty or case["wrap"] is not None or case["version"] is not None)

    def fail(clause, detail):
        res["fails"].append((clause, klass_of(case, clause, normwidest, eff_version, int(single)), detail))

    texts = []
    snaps = [before]
    for k in range(NWRITES):
        buf = io.StringIO()
        try:
            las.write(buf, **kwargs)
        except Exception as e:
            res["writes"] += 1
            fail("write-does-not-raise", "write #%d raised %r" % (k + 1, e))
            return res
        res["writes"] += 1
        texts.append(buf.getvalue())
        snaps.append(snapshot(las))
        if k == 0:
            seen = set()
            for d in diff(snaps[0], snaps[1]):
                if allowed_first_write(d, snaps[0], case["wrap"]):
                    continue
                name, p, f, x, y = d
                if name == "Version" and p is not None and snaps[0][name][1][p]["mnemonic"].upper() == "VERS":
                    clause = "in-memory-vers-untouched"
                else:
                    clause = clause_of(d)
                if clause not in seen:
                    seen.add(clause)
                    who = snaps[0][name][1][p]["mnemonic"] if p is not None else ""
                    fail(clause, "after write #1: %s[%s %s].%s: %r -> %r" % (name, p, who, f, x, y))
            if demanded:
                bad = check_output(texts[0], ncols, dec_data)
                if bad is None:
                    res["unparsed"] = True
                else:
                    for clause, detail in bad:
                        fail(clause, detail)
        else:
            if texts[k] != texts[0]:
                a, b = texts[0].split("\n"), texts[k].split("\n")
                where = next((i for i in range(min(len(a), len(b))) if a[i] != b[i]), min(len(a), len(b)))
                fail("repeated-write-byte-identical", "write #%d differs from write #1 at line %d: %r vs %r" % (
                    k + 1, where + 1, a[where] if where < len(a) else None, b[where] if where < len(b) else None))
            dd = diff(snaps[1], snaps[k + 1])
            if dd:
                name, p, f, x, y = dd[0]
                fail("repeated-write-no-further-in-memory-change", "write #%d: %s[%s].%s: %r -> %r" % (k + 1, name, p, f, x, y))
            if res["fails"]:
                break
    return res


def applicable(case):
    if case["hist"] in NEEDS_OTHER_CURVE and case["nc"] < 2:
        return False
    return True


def gen_cases(tier, seed):
    if tier == "quick":
        combos = [("plain", "agree", 1), ("empties", "differ", 3), ("widest", "curveblank", 9), ("v12", "agree", 3)]
        rseeds = [0]
    else:
        combos = list(itertools.product(HVS, UNITS, NCS))
        rseeds = [0, 1]
    seen = set()
    for hist in HISTS:
        for shape in SHAPES:
            for (hv, units, nc) in combos:
                for version in VERSIONS:
                    for wrap in WRAPS:
                        for fmt in sorted(FMTS):
                            for rseed in rseeds:
                                if rseed and shape == "single" and hist not in TRUTH_DEMANDED:
                                    continue
                                # quick tier: where no truthful STRT/STOP/STEP is demanded the data format and the
                                # direction of the index play no part in the clauses checked -> thinner grid
                                if tier == "quick" and hist not in TRUTH_DEMANDED and (fmt not in ("F0", "F5") or shape in ("dec", "irr")):
                                    continue
                                # set_data creates unit-less curves: the unit cases coincide there
                                u = "agree" if hist == "scratch_setdata" else units
                                case = {"hist": hist, "shape": shape, "hv": hv, "units": u, "nc": nc,
                                        "version": version, "wrap": wrap, "fmt": fmt, "rseed": rseed}
                                key = tuple(str(v) for v in case.values())
                                if applicable(case) and key not in seen:
                                    seen.add(key)
                                    yield case


def _work(args):
    chunk, seed = args
    out = []
    for case in chunk:
        try:
            r = run_case(case, seed)
        except Exception as e:      # a crash of the harness itself on this case: surfaced, never hidden
            import traceback
            r = {"fails": [], "writes": 0, "nontrivial": False, "skipped": "HARNESS ERROR %r %s" % (e, traceback.format_exc()[-400:]), "unparsed": False}
        out.append((case, r))
    return out


def build_run(tier, seed):
    nproc = int(os.environ.get("C16_WORKERS", "4" if tier == "quick" else "16"))
    run = Run("C16",
              "a case is one LASFile history x index shape x header variant x unit case x curve count x writer options, written %d times; "
              "it is non-trivial when the statement obliges write() to do or to refrain from something observable: the index was "
              "created/changed or the file's STOP is wrong, or an empty ~W/~P value is present, or wrap=/version= is given" % NWRITES,
              "LASFile objects: built from scratch (append_curve / set_data), read from text, read then edited "
              "(index in place / rebound / set_data / first curve deleted; other curve in place / rebound as int64; header items "
              "edited, added, deleted; STRT/STEP or STOP overwritten in memory; file STOP wrong by 1000 and by 2e-5) x index shapes %r x "
              "version %r x wrap %r x formats %r" % (SHAPES, VERSIONS, WRAPS, {k: v[0] for k, v in FMTS.items()}),
              "rows <= 9, curves in {1,3,9}; %s" % ("header variant/unit case/curve count coupled in 4 combinations, canonical indexes; histories without a truthfulness obligation only with formats F0/F5 and shapes inc/single/big"
                                                   if tier == "quick" else "full cross of header variant x unit case x curve count; canonical + 1 seeded random index per shape"))
    cases = list(gen_cases(tier, seed))
    chunks = [cases[i:i + 200] for i in range(0, len(cases), 200)]
    if nproc > 1:
        ctx = multiprocessing.get_context("fork")
        with ctx.Pool(nproc) as pool:
            results = pool.imap(_work, [(c, seed) for c in chunks])
            results = [x for part in results for x in part]
    else:
        results = [x for c in chunks for x in _work((c, seed))]
    skipped = {}
    unparsed = 0
    for case, r in results:
        if r["skipped"]:
            skipped[r["skipped"][:120]] = skipped.get(r["skipped"][:120], 0) + 1
            if r["skipped"].startswith("HARNESS ERROR"):
                raise RuntimeError(r["skipped"])
            continue
        key = tuple(sorted((k, str(v)) for k, v in case.items()))
        sample = None
        if r["nontrivial"] and case["hist"] in ("read_stop_tiny", "hdr_edit", "scratch_append") and case["fmt"] == "F1" and case["wrap"] is True:
            sample = case
        run.case(key, nontrivial=r["nontrivial"], sample=sample, n=r["writes"])
        unparsed += 1 if r["unparsed"] else 0
        for clause, klass, detail in r["fails"]:
            run.fail(clause, klass, dict(case, seed=seed), detail)
    run.exhaustive = False
    run.notes.append("truthfulness of STRT/STOP/STEP is demanded only for histories %s; an in-memory overwrite of STOP/STRT/STEP "
                     "(hdr_edit_stop, hdr_edit_sss) is checked for the frame and determinism clauses only, because the statement's "
                     "condition speaks of the FILE's STOP" % sorted(TRUTH_DEMANDED))
    run.notes.append("'to format precision': header values are printed with %%.%df, the index column with the data format; the comparison allows half a unit "
                     "of each (exact equality of the two decimal texts when both have %d decimals); STEP is not checked for a single sample "
                     "(there is no first increment)" % (HEADER_DECIMALS, HEADER_DECIMALS))
    run.notes.append("left out: objects without curves, missing STRT/STOP/STEP/WRAP/VERS items, non-numeric or NaN index, %g/%e formats, "
                     "mnemonic_case other than the default, explicit STRT=/STOP=/STEP= (outside the quantification), identity of item objects, "
                     "LASFile.index_initial (internal), extra custom sections")
    run.notes.append("normalisation of empty values is permitted, not demanded (the statement lists it as an allowed change)")
    if skipped:
        run.notes.append("setup skipped (reader did not return the intended object with either engine): %r" % skipped)
    if unparsed:
        run.notes.append("outputs this file's parser could not split into rows (not counted as failures): %d" % unparsed)
    return run


def replay_one(entry):
    inp = dict(entry["input"])
    seed = inp.pop("seed", 0)
    r = run_case(inp, seed)
    if r["skipped"]:
        return False, "setup skipped: %s" % r["skipped"]
    for clause, _klass, detail in r["fails"]:
        if clause == entry["clause"]:
            return True, detail
    return False, "clause %s holds on this input now (other failures: %r)" % (entry["clause"], [f[0] for f in r["fails"]])


if __name__ == "__main__":
    main("C16", build_run, replay_one)
