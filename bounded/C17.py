"""C17 bounded stand-in / CPython cross-check: pickle (protocols 0..5) and
copy.deepcopy of a LASFile, of each of its sections and of single items must give
an observably equal, independent object.

The oracle never calls lasio to decide equality: it reads the attributes the
statement lists (session and original mnemonic, unit, value, descr, curve array
bytes and dtype, index_unit) directly off the original and off the copy, probes
SectionItems.__getitem__ with other-case keys on both, and compares the two
write() texts byte by byte.  Independence: the copy is mutated (item fields, curve
data in place, appends) and the original's snapshot is compared with the one taken
before.
"""
import os
import sys
sys.path.insert(0, os.path.dirname(os.path.abspath(__file__)))
import common
from common import Run, main

import copy
import hashlib
import io
import itertools
import multiprocessing
import pickle
import random

import numpy as np
import lasio
from lasio import HeaderItem, CurveItem, SectionItems

MECHS = ["p0", "p1", "p2", "p3", "p4", "p5", "dc"]
CASES = ["upper", "preserve", "lower"]
BIG = 200 * 1024
HUGE = 1024 * 1024
POOL = ["A", "a", "B", ""]
RPOOL = ["A", "a", "B", "", "GR", "gr"]
STD_SECTIONS = ("Version", "Well", "Curves", "Parameter")
WORDS = ["sand", "shale", "lime"]


def corpus_dir():
    for base in (common.REPO, "/repo"):
        d = os.path.join(base, "tests", "examples")
        if os.path.isdir(d):
            return d
    raise RuntimeError("no example corpus")


def corpus_files():
    d = corpus_dir()
    out = []
    for sub in ("", "1.2", "2.0"):
        dd = os.path.join(d, sub) if sub else d
        for fn in sorted(os.listdir(dd)):
            if fn.lower().endswith(".las"):
                out.append(os.path.join(sub, fn) if sub else fn)
    return out


# ----------------------------------------------------------------------------
# inputs

def hline(m, unit, value, descr):
    return "%s.%s %s : %s" % (m if m.strip() else " ", unit, value, descr)


def gen_text(spec):
    names = spec["names"]
    L = ["~Version", "VERS. %s : v" % spec["vers"], "WRAP. NO : w"]
    for i, m in enumerate(names.get("Version", [])):
        L.append(hline(m, "", "v%d" % i, "vd%d" % i))
    L += ["~Well", "STRT.M 1.0 : s", "STOP.M 3.0 : s", "STEP.M 1.0 : s", "NULL. -999.25 : n"]
    for i, m in enumerate(names.get("Well", [])):
        L.append(hline(m, "U%d" % i, "%d" % (i + 5), "wd%d" % i))
    L += ["~Curves", "DEPT.M : depth"]
    for i, m in enumerate(names.get("Curves", [])):
        L.append(hline(m, "u%d" % i, "", "cd%d" % i))
    L.append("~Params")
    for i, m in enumerate(names.get("Parameter", [])):
        L.append(hline(m, "", "p%d" % i, "pd%d" % i))
    ncur = 1 + len(names.get("Curves", []))
    text_cols = set(spec.get("text_cols") or [])
    L.append("~ASCII")
    for r in range(3):
        row = []
        for j in range(ncur):
            if j in text_cols and j > 0:
                row.append(WORDS[(r + j) % 3])
            elif j > 0 and r == 1 and j % 2 == 0:
                row.append("-999.25")
            else:
                row.append("%.1f" % (r + 1 + 10 * j))
        L.append(" ".join(row))
    return "\n".join(L) + "\n"


def gen_read_kwargs(spec):
    kw = {"mnemonic_case": spec["case"]}
    d = spec.get("dtypes")
    if d:
        ncur = 1 + len(spec["names"].get("Curves", []))
        cols = [c for c in d["str_cols"] if c < ncur]
        if d["form"] == "list":
            kw["dtypes"] = [str if j in cols else float for j in range(ncur)]
        else:
            cf = {"upper": str.upper, "lower": str.lower, "preserve": str}[spec["case"]]
            allnames = ["DEPT"] + list(spec["names"].get("Curves", []))
            tr = spec["case"] != "preserve"
            keyf = (lambda s: s.upper()) if tr else (lambda s: s)
            dd = {}
            for j in cols:
                n = allnames[j]
                # only curves whose session name is predictable without lasio: unique, non-blank
                if n.strip() and sum(1 for x in allnames if x.strip() and keyf(x) == keyf(n)) == 1:
                    dd[cf(n)] = str
            kw["dtypes"] = dd if dd else "auto"
    return kw


def build_object(name):
    """LASFiles / items made through the public API rather than by reading text"""
    if name == "api-dup-blank-all-sections":
        las = lasio.LASFile()
        las.append_curve("DEPT", np.array([1.0, 2.0, 3.0]), unit="m")
        las.append_curve("GR", np.array([1.0, np.nan, 3.0]), unit="gAPI", descr="first")
        las.append_curve("GR", np.array([4.0, 5.0, 6.0]), descr="second")
        las.append_curve("", np.array([7.0, 8.0, 9.0]))
        las.well.append(HeaderItem("X", "u", 1, "one"))
        las.well.append(HeaderItem("X", "u", 2.5, "two"))
        las.well.append(HeaderItem("", "", "blank", "three"))
        las.params.append(HeaderItem("P", "", "a", "pa"))
        las.params.append(HeaderItem("P", "", "b", "pb"))
        las.version.append(HeaderItem("", "", "x", "blank in version"))
        return las
    if name == "api-unique-with-str-curve":
        las = lasio.LASFile()
        las.append_curve("DEPT", np.array([1.0, 2.0, 3.0]), unit="m")
        las.append_curve("LITH", np.array(["sand", "shale", "lime"]))
        las.append_curve("A:1", np.array([1.0, 2.0, 3.0]))     # a literal colon, unique: session == original
        las.params.append(HeaderItem("P", "", 1, "p"))
        return las
    if name == "api-stale-suffix-after-delete":
        las = lasio.LASFile()
        las.append_curve("DEPT", np.array([1.0, 2.0, 3.0]), unit="m")
        las.append_curve("GR", np.array([1.0, 2.0, 3.0]))
        las.append_curve("GR", np.array([4.0, 5.0, 6.0]))
        las.delete_curve(mnemonic="GR:1")
        las.params.append(HeaderItem("P", "", "a", "pa"))
        las.params.append(HeaderItem("P", "", "b", "pb"))
        del las.params["P:1"]
        return las
    if name == "api-default-empty":
        return lasio.LASFile()
    if name == "api-consistent-strt-stop-step":
        # never read from a file (no index snapshot), header already agrees with the index numerically
        las = lasio.LASFile()
        las.append_curve("DEPT", np.array([1000.0, 1000.5, 1001.0]), unit="m")
        las.append_curve("GR", np.array([50.0, 51.0, 52.0]), unit="gAPI")
        las.well["STRT"].value = 1000.0
        las.well["STOP"].value = 1001.0
        las.well["STEP"].value = 0.5
        return las
    if name == "read-then-rows-trimmed":
        # read from a file (so an index snapshot exists), then the first rows are dropped: STOP still agrees with the data,
        # STRT does not - write() must notice the changed index on the original and on every copy alike
        text = "\n".join(["~Version", " VERS. 2.0 : v", " WRAP. NO : w", "~Well", " STRT.M 1.0 : s", " STOP.M 5.0 : e", " STEP.M 1.0 : i",
                          " NULL. -999.25 : n", "~Curves", " DEPT.M : depth", " GR.GAPI : gamma", "~A",
                          " 1.0 10.0", " 2.0 20.0", " 3.0 30.0", " 4.0 40.0", " 5.0 50.0", ""])
        las = lasio.read(text)
        for cv_ in list.__iter__(las.curves):
            cv_.data = cv_.data[2:]
        return las
    if name.startswith("read-then-case-variant-duplicates:"):
        # a case-insensitive section (read with upper/lower) that later receives case variants of a duplicated name
        case = name.split(":")[1]
        text = "\n".join(["~Version", " VERS. 2.0 : v", " WRAP. NO : w", "~Well", " STRT.M 1.0 : s", " STOP.M 3.0 : e", " STEP.M 1.0 : i",
                          " NULL. -999.25 : n", "~Curves", " DEPT.M : depth", " GR.GAPI : gamma", "~Parameter", " P. 1 : p", "~A",
                          " 1.0 10.0", " 2.0 20.0", " 3.0 30.0", ""])
        las = lasio.read(text, mnemonic_case=case)
        las.append_curve("gr", np.array([1.0, 2.0, 3.0]))
        las.append_curve("GR", np.array([4.0, 5.0, 6.0]))
        las.params.append(HeaderItem("p", "", 2, "lower"))
        las.params.append(HeaderItem("P", "", 3, "upper again"))
        return las
    raise ValueError(name)


BUILT = ["api-dup-blank-all-sections", "api-unique-with-str-curve", "api-stale-suffix-after-delete", "api-default-empty",
         "api-consistent-strt-stop-step", "read-then-rows-trimmed", "read-then-case-variant-duplicates:upper", "read-then-case-variant-duplicates:lower",
         "read-then-case-variant-duplicates:preserve"]

STANDALONE = {
    "header-blank": lambda: HeaderItem("", "u", 1.5, "d"),
    "header-named": lambda: HeaderItem("KB", "m", 12, "kelly"),
    "curve-blank-float": lambda: CurveItem("", "u", "", "d", data=[1.0, np.nan, 3.0]),
    "curve-named-str": lambda: CurveItem("LITH", "", "", "d", data=["a", "bb", "c"]),
    "curve-whitespace-name": lambda: CurveItem("  ", "", "v", "d", data=[1.0]),
}


def load(spec):
    if spec["kind"] == "corpus":
        return lasio.read(os.path.join(corpus_dir(), spec["file"]), mnemonic_case=spec["case"])
    if spec["kind"] == "gen":
        return lasio.read(gen_text(spec), **gen_read_kwargs(spec))
    if spec["kind"] == "built":
        return build_object(spec["name"])
    raise ValueError(spec)


# ----------------------------------------------------------------------------
# the oracle: snapshots read straight off the objects

def arr_snap(a):
    if a.dtype == object:
        body = repr(a.tolist())
    else:
        body = hashlib.sha1(np.ascontiguousarray(a).tobytes()).hexdigest()
    return ["ndarray", str(a.dtype), list(a.shape), body, repr(a.ravel()[:4].tolist())]


def canon(v):
    if isinstance(v, np.ndarray):
        return arr_snap(v)
    return [type(v).__module__ + "." + type(v).__name__, repr(v)]


def raw_items(sec):
    return list(list.__iter__(sec))


def item_snap(it):
    return {
        "cls": type(it).__name__,
        "session": it.mnemonic,
        "original": it.original_mnemonic,
        "unit": canon(it.unit), "value": canon(it.value), "descr": canon(it.descr),
        "data": canon(it.data),
    }


def probes_of(sec):
    ks = []
    for it in raw_items(sec):
        m = it.mnemonic
        if isinstance(m, str):
            for k in (m, m.lower(), m.upper(), m.swapcase()):
                if k not in ks:
                    ks.append(k)
    return ks


def lookups(sec, probes):
    """for every probe key: index of the item sec[key] gives, or the exception's class name"""
    items = raw_items(sec)
    out = []
    for k in probes:
        try:
            got = sec[k]
        except Exception as e:
            out.append([k, type(e).__name__])
            continue
        ix = [i for i, it in enumerate(items) if it is got]
        out.append([k, ix[0] if ix else "not-an-item-of-the-section"])
    return out


def section_snap(sec, probes=None):
    if isinstance(sec, SectionItems):
        if probes is None:
            probes = probes_of(sec)
        return {"kind": "items", "items": [item_snap(it) for it in raw_items(sec)],
                "probes": probes, "lookups": lookups(sec, probes)}
    return {"kind": "other", "value": canon(sec)}


def las_snap(las, ref=None):
    secs = {}
    for name, sec in las.sections.items():
        pr = None
        if ref is not None and name in ref["sections"] and ref["sections"][name]["kind"] == "items":
            pr = ref["sections"][name]["probes"]
        secs[name] = section_snap(sec, pr)
    return {"names": list(las.sections.keys()), "sections": secs, "index_unit": canon(las.index_unit)}


def cmp_items(a, b, where):
    """a, b: lists of item snapshots -> [(clause, detail)]"""
    bad = []
    if [x["cls"] for x in a] != [x["cls"] for x in b]:
        bad.append(("same-items", "%s: item classes %r -> %r" % (where, [x["cls"] for x in a], [x["cls"] for x in b])))
        return bad
    for f, clause in (("session", "session-mnemonic-equal"), ("original", "original-mnemonic-equal")):
        if [x[f] for x in a] != [x[f] for x in b]:
            bad.append((clause, "%s: %r -> %r" % (where, [x[f] for x in a], [x[f] for x in b])))
    for i, (x, y) in enumerate(zip(a, b)):
        for f in ("unit", "value", "descr"):
            if x[f] != y[f]:
                bad.append(("unit-value-descr-equal", "%s item #%d (%r) %s: %r -> %r" % (where, i, x["session"], f, x[f], y[f])))
                break
        else:
            continue
        break
    for i, (x, y) in enumerate(zip(a, b)):
        if x["data"] != y["data"]:
            bad.append(("curve-arrays-and-dtypes-equal", "%s item #%d (%r) data: %r -> %r" % (where, i, x["session"], x["data"], y["data"])))
            break
    return bad


def cmp_section(a, b, where):
    if a["kind"] != b["kind"]:
        return [("same-sections", "%s: %s -> %s" % (where, a["kind"], b["kind"]))]
    if a["kind"] == "other":
        return [] if a == b else [("same-sections", "%s: %r -> %r" % (where, a["value"], b["value"]))]
    bad = cmp_items(a["items"], b["items"], where)
    if a["lookups"] != b["lookups"]:
        diff = [(x, y) for x, y in zip(a["lookups"], b["lookups"]) if x != y]
        bad.append(("case-insensitive-lookup-equal", "%s: section[key] -> item index, original vs copy: %r" % (where, diff[:4])))
    return bad


def cmp_las(a, b):
    if a["names"] != b["names"]:
        return [("same-sections", "section names %r -> %r" % (a["names"], b["names"]))]
    bad = []
    for n in a["names"]:
        bad += cmp_section(a["sections"][n], b["sections"][n], "section %r" % n)
    if a["index_unit"] != b["index_unit"]:
        bad.append(("index-unit-equal", "%r -> %r" % (a["index_unit"], b["index_unit"])))
    return bad


def first_per_clause(bad):
    seen, out = set(), []
    for c, d in bad:
        if c not in seen:
            seen.add(c)
            out.append((c, d))
    return out


# ----------------------------------------------------------------------------
# mutation of the copy

def mutate_item(it):
    it.value = "MUTATED"
    it.unit = "MU"
    it.descr = "mutated descr"
    d = it.data
    if isinstance(d, np.ndarray) and d.size:
        try:
            if d.dtype.kind == "f":
                d += 1000.0
                d[0] = -12345.0
            elif d.dtype.kind in "US":
                d[...] = "X"
            elif d.dtype.kind in "iu":
                d += 7
            else:
                d[...] = d.ravel()[-1]
        except (ValueError, TypeError):
            pass
    it.mnemonic = "RENAMED"


def mutate_section(sec):
    items = raw_items(sec)
    first_orig = items[0].original_mnemonic if items else "ZZ"
    cls = type(items[0]) if items else HeaderItem
    # an append that shares the first item's name re-numbers the copy's items
    sec.append(cls(first_orig, "nu", "nv", "nd"))
    sec.append(cls("ZZNEW", "nu", "nv", "nd"))
    for it in items:
        mutate_item(it)
    if len(raw_items(sec)) > 2:
        list.__delitem__(sec, 0)
    sec.mnemonic_transforms = not sec.mnemonic_transforms


def mutate_las(las):
    for name in list(las.sections.keys()):
        sec = las.sections[name]
        if isinstance(sec, SectionItems):
            mutate_section(sec)
        else:
            las.sections[name] = "mutated"
    las.index_unit = "zz"
    las.sections["ZZNEWSECTION"] = SectionItems()


# ----------------------------------------------------------------------------
# classification of the input (from the ORIGINAL object only)

def names_class(items):
    blank = dup = False
    for it in items:
        o = it.original_mnemonic
        b = (not isinstance(o, str)) or o.strip() == ""
        blank = blank or b
        if it.mnemonic != ("UNKNOWN" if b else o):
            dup = True
    return {(False, False): "unique", (True, False): "dup", (False, True): "blank", (True, True): "dup+blank"}[(dup, blank)]


def data_class(items):
    curves = [it for it in items if isinstance(it, CurveItem)]
    if not curves:
        return "nocurve"
    kinds = set()
    for c in curves:
        d = c.data
        if not isinstance(d, np.ndarray):
            kinds.add("other")
        elif d.size == 0:
            continue
        elif d.dtype.kind == "f":
            kinds.add("float")
        elif d.dtype.kind in "US":
            kinds.add("str")
        else:
            kinds.add("other")
    return "+".join(sorted(kinds)) if kinds else "empty"


def mech_class(mech):
    if mech == "dc":
        return "deepcopy"
    return "pickle01" if mech in ("p0", "p1") else "pickle2+"


def sec_label(name):
    return name if name in STD_SECTIONS else "custom"


def tr_class(secs):
    vals = set(bool(s.mnemonic_transforms) for s in secs)
    if not vals:
        return "-"
    return "mixed" if len(vals) > 1 else str(int(vals.pop()))


def make_klass(level, mech, items, tr):
    return "level=%s;mech=%s;names=%s;tr=%s;data=%s" % (level, mech_class(mech), names_class(items), tr, data_class(items))


def apply_mech(obj, mech):
    if mech == "dc":
        return copy.deepcopy(obj)
    return pickle.loads(pickle.dumps(obj, protocol=int(mech[1:])))


def write_text(las):
    buf = io.StringIO()
    las.write(buf)
    return buf.getvalue()


def first_diff(a, b):
    la, lb = a.split("\n"), b.split("\n")
    for i, (x, y) in enumerate(zip(la, lb)):
        if x != y:
            return "line %d: original %r / copy %r" % (i + 1, x, y)
    return "lengths %d / %d lines" % (len(la), len(lb))


def select_items(spec, name, sec):
    items = raw_items(sec)
    if spec["kind"] != "corpus" or len(items) <= 6:
        return list(range(len(items)))
    pick = [0, 1, len(items) - 1]
    special = [i for i, it in enumerate(items) if names_class([it]) != "unique"]
    for i in special[:8]:
        if i not in pick:
            pick.append(i)
    return sorted(pick)


# ----------------------------------------------------------------------------
# one source -> all levels x mechanisms

class Unreadable(Exception):
    pass


class Out:
    def __init__(self, spec, only):
        self.spec, self.only = spec, only
        self.cases = []      # (key, nontrivial)
        self.fails = []      # (clause, klass, input, detail)
        self.skipped_write = 0

    def want(self, level, mech):
        return self.only is None or (self.only[0] == level and self.only[1] == mech)

    def inp(self, level, mech):
        d = dict(self.spec)
        d["level"], d["mech"] = level, mech
        return d

    def case(self, level, mech, nontrivial):
        self.cases.append(("%s|%s|%s" % (spec_key(self.spec), level, mech), bool(nontrivial)))

    def fail(self, level, mech, klass, bad):
        for clause, detail in first_per_clause(bad):
            self.fails.append((clause, klass, self.inp(level, mech), detail))


def spec_key(spec):
    if spec["kind"] == "corpus":
        return "corpus:%s:%s" % (spec["file"], spec["case"])
    if spec["kind"] == "gen":
        return "gen:%s:%s:%s:%s:%s" % (spec["case"], spec["vers"], sorted(spec["names"].items()), spec.get("text_cols"), spec.get("dtypes"))
    return "%s:%s" % (spec["kind"], spec["name"])


class Source:
    """the object under test; re-made from the spec whenever a check found that the original was changed"""

    def __init__(self, spec):
        self.spec = spec
        self.reload()

    def reload(self):
        try:
            self.las = load(self.spec)
        except Exception as e:
            raise Unreadable("%s: %s" % (type(e).__name__, str(e)[:100]))

    def sections(self):
        return [(n, s) for n, s in self.las.sections.items() if isinstance(s, SectionItems)]


def check_item_level(out, level, klass_level, make, dirty):
    """make() -> the original item; dirty() is called when the original was found changed"""
    for mech in MECHS:
        if not out.want(level, mech):
            continue
        it = make()
        snap = item_snap(it)
        klass = make_klass(klass_level, mech, [it], "-")
        out.case(level, mech, names_class([it]) != "unique")
        try:
            cp = apply_mech(it, mech)
        except Exception as e:
            out.fail(level, mech, klass, [("copy-does-not-raise", repr(e))])
            continue
        bad = []
        if type(cp) is not type(it):
            bad.append(("same-items", "type %s -> %s" % (type(it).__name__, type(cp).__name__)))
        else:
            try:
                bad += cmp_items([snap], [item_snap(cp)], "item")
            except Exception as e:
                bad.append(("same-items", "the copy cannot be inspected: %r" % (e,)))
            try:
                mutate_item(cp)
            except Exception as e:
                bad.append(("copy-independent-of-original", "mutating the copy raised %r" % (e,)))
        after = item_snap(it)
        if after != snap:
            bad.append(("copy-independent-of-original", "original item changed: %r -> %r" % (snap, after)))
            dirty()
        out.fail(level, mech, klass, bad)


def process(spec, only=None):
    """run every (level, mechanism) on one source; `only` = (level, mech) for replays"""
    out = Out(spec, only)
    if spec["kind"] == "standalone":
        check_item_level(out, "item", "item:standalone", STANDALONE[spec["name"]], lambda: None)
        return out
    src = Source(spec)

    # ---- items and sections first, on the not yet written object
    for name, sec0 in src.sections():
        for ix in select_items(spec, name, sec0):
            level = "item:%s:%d" % (name, ix)
            if only is not None and only[0] != level:
                continue
            check_item_level(out, level, "item:%s" % sec_label(name),
                             (lambda n=name, i=ix: raw_items(src.las.sections[n])[i]), src.reload)
        level = "section:%s" % name
        if only is not None and only[0] != level:
            continue
        for mech in MECHS:
            if not out.want(level, mech):
                continue
            sec = src.las.sections[name]
            items = raw_items(sec)
            klass = make_klass("section:%s" % sec_label(name), mech, items, tr_class([sec]))
            out.case(level, mech, names_class(items) != "unique")
            snap = section_snap(sec)
            try:
                cp = apply_mech(sec, mech)
            except Exception as e:
                out.fail(level, mech, klass, [("copy-does-not-raise", repr(e))])
                continue
            bad = []
            if type(cp) is not type(sec):
                bad.append(("same-sections", "type %s -> %s" % (type(sec).__name__, type(cp).__name__)))
            else:
                try:
                    bad += cmp_section(snap, section_snap(cp, snap["probes"]), "section %r" % name)
                except Exception as e:
                    bad.append(("same-sections", "the copy cannot be inspected: %r" % (e,)))
                try:
                    mutate_section(cp)
                except Exception as e:
                    bad.append(("copy-independent-of-original", "mutating the copy raised %r" % (e,)))
            after = section_snap(sec, snap["probes"])
            if after != snap:
                d = cmp_section(snap, after, "ORIGINAL section %r" % name)
                bad.append(("copy-independent-of-original", "original changed after mutating the copy: %r" % (d[:2],)))
                src.reload()
            out.fail(level, mech, klass, bad)

    # ---- the LASFile
    if only is not None and only[0] != "lasfile":
        return out
    las = src.las
    all_secs = src.sections()
    all_items = [it for n, s in all_secs for it in raw_items(s)]
    snap0 = las_snap(las)
    klasses, copies, bads = {}, {}, {}
    for mech in MECHS:
        if not out.want("lasfile", mech):
            continue
        klasses[mech] = make_klass("lasfile", mech, all_items, tr_class([s for n, s in all_secs]))
        out.case("lasfile", mech, names_class(all_items) != "unique")
        try:
            cp = apply_mech(las, mech)
        except Exception as e:
            out.fail("lasfile", mech, klasses[mech], [("copy-does-not-raise", repr(e))])
            continue
        bad = []
        if type(cp) is not type(las):
            bad.append(("same-sections", "type %s -> %s" % (type(las).__name__, type(cp).__name__)))
        else:
            try:
                bad += cmp_las(snap0, las_snap(cp, snap0))
            except Exception as e:
                bad.append(("same-sections", "the copy cannot be inspected: %r" % (e,)))
            copies[mech] = cp
        bads[mech] = bad
    # write: the original and every copy are written once, all copies having been taken before
    try:
        ref = write_text(las)
    except Exception as e:
        ref = None
        out.skipped_write = 1
    snapw = las_snap(las, snap0)
    for mech, cp in copies.items():
        bad = bads[mech]
        if ref is not None:
            try:
                got = write_text(cp)
                if got != ref:
                    bad.append(("write-output-byte-identical", first_diff(ref, got)))
            except Exception as e:
                bad.append(("write-output-byte-identical", "original written, write() of the copy raised %r" % (e,)))
        try:
            mutate_las(cp)
        except Exception as e:
            bad.append(("copy-independent-of-original", "mutating the copy raised %r" % (e,)))
        after = las_snap(las, snap0)
        if after != snapw:
            d = cmp_las(snapw, after)
            bad.append(("copy-independent-of-original", "original changed after mutating the copy: %r" % (d[:2],)))
            snapw = after
    for mech in bads:
        out.fail("lasfile", mech, klasses[mech], bads[mech])
    return out


def worker(spec):
    try:
        out = process(spec)
    except Unreadable as e:
        return {"spec": spec, "unreadable": str(e)}
    agg = {}
    for clause, klass, inp, detail in out.fails:
        k = (clause, klass)
        a = agg.setdefault(k, [0, []])
        a[0] += 1
        if len(a[1]) < common.MAX_PER_KLASS:
            a[1].append((inp, detail))
    return {"spec": spec, "cases": out.cases, "fails": [(k[0], k[1], v[0], v[1]) for k, v in agg.items()],
            "skipped_write": out.skipped_write}


# ----------------------------------------------------------------------------
# enumeration

def gen_specs(tier, seed):
    specs = []
    maxn = 2 if tier == "quick" else 3
    verss = ["2.0"] if tier == "quick" else ["2.0", "1.2"]
    base = {"Version": [], "Well": [], "Curves": ["GR"], "Parameter": ["P"]}
    quick = tier == "quick"
    for sec in STD_SECTIONS:
        for n in range(1, maxn + 1):
            for names in itertools.product(POOL, repeat=n):
                # 'upper' and 'lower' take the same path through SectionItems; quick keeps both only for ~Curves
                for case in (CASES if (sec == "Curves" or not quick) else ["upper", "preserve"]):
                    for vers in verss:
                        nm = dict((k, list(v)) for k, v in base.items())
                        nm[sec] = list(names)
                        ncur = 1 + len(nm["Curves"])
                        modes = [(None, None)]
                        if sec == "Curves":
                            modes += [([ncur - 1], None)]
                            if n == 1 or not quick:
                                modes += [(None, {"form": "list", "str_cols": [ncur - 1]}),
                                          (None, {"form": "dict", "str_cols": list(range(1, ncur))})]
                            if n == 1:
                                # a str index curve as well (write() of such an original raises: content clauses only)
                                modes += [(None, {"form": "dict", "str_cols": [0, 1]})]
                        elif n == 1:
                            modes += [([1], None)]
                        for tc, dt in modes:
                            specs.append({"kind": "gen", "names": nm, "vers": vers, "case": case, "text_cols": tc, "dtypes": dt})
    # duplicated VERS / WRAP themselves (write() of the original may then be impossible)
    for names in (["VERS"], ["WRAP"], ["vers", "VERS"]):
        for case in CASES:
            nm = dict((k, list(v)) for k, v in base.items())
            nm["Version"] = names
            specs.append({"kind": "gen", "names": nm, "vers": "2.0", "case": case, "text_cols": None, "dtypes": None})
    # all sections at once, sampled
    rng = random.Random(1000003 * seed + 17)
    nrand = 60 if tier == "quick" else 900
    for _ in range(nrand):
        nm = {}
        for sec in STD_SECTIONS:
            nm[sec] = [rng.choice(RPOOL) for _ in range(rng.randint(0, 3))]
        ncur = 1 + len(nm["Curves"])
        tc = sorted(rng.sample(range(1, ncur), rng.randint(0, ncur - 1))) if ncur > 1 else []
        form = rng.choice([None, None, "list", "dict"])
        dt = None
        if form:
            cand = list(range(1, ncur)) if (ncur > 1 and rng.random() < 0.85) else list(range(ncur))
            dt = {"form": form, "str_cols": sorted(rng.sample(cand, rng.randint(1, len(cand))))}
            # a text column must be read as str or the read itself fails: keep the input readable
            if form == "list":
                dt["str_cols"] = sorted(set(dt["str_cols"]) | set(tc))
            else:
                tc = []
        specs.append({"kind": "gen", "names": nm, "vers": rng.choice(["1.2", "2.0"]), "case": rng.choice(CASES),
                      "text_cols": tc or None, "dtypes": dt})
    return specs


def all_specs(tier, seed):
    specs = []
    d = corpus_dir()
    sized = []
    for f in corpus_files():
        sized.append((os.path.getsize(os.path.join(d, f)), f))
    sized.sort(key=lambda t: (-t[0], t[1]))
    for size, f in sized:
        if tier == "quick":
            if size > HUGE:
                continue
            cases = ["upper"] if size > BIG else ["upper", "preserve"]
        else:
            cases = CASES
        for case in cases:
            specs.append({"kind": "corpus", "file": f, "case": case})
    for name in BUILT:
        specs.append({"kind": "built", "name": name})
    for name in sorted(STANDALONE):
        specs.append({"kind": "standalone", "name": name})
    specs += gen_specs(tier, seed)
    return specs


def build_run(tier, seed):
    run = Run("C17",
              "a case = (LASFile source, mnemonic_case, copied object: the LASFile / one section / one item, mechanism "
              "p0..p5 or deepcopy); non-trivial when the copied object holds at least one item whose mnemonic is blank or "
              "was given a :n suffix (session mnemonic != original mnemonic)",
              "example corpus (top level, 1.2/, 2.0/; readable files) x mnemonic_case in upper/preserve/lower; generated "
              "LAS texts with names from %r per section, float / text / dtypes-forced str curves; LASFiles built through "
              "the API; free-standing items" % (POOL,),
              "names per section <= %d exhaustively for one section at a time, plus sampled all-section mixes" % (2 if tier == "quick" else 3))
    specs = all_specs(tier, seed)
    nproc = 4 if tier == "quick" else min(16, max(1, (os.cpu_count() or 4)))
    unreadable = {}
    skipped_write = 0
    sources = 0
    per_level = {}
    with multiprocessing.Pool(nproc) as pool:
        for res in pool.imap(worker, specs, chunksize=4):
            spec = res["spec"]
            if "unreadable" in res:
                k = spec.get("file") or spec_key(spec)
                unreadable[k] = res["unreadable"]
                continue
            sources += 1
            skipped_write += res["skipped_write"]
            for key, nt in res["cases"]:
                lvl = key.split("|")[-2].split(":")[0]
                per_level[lvl] = per_level.get(lvl, 0) + 1
                run.case(key, nontrivial=nt)
            if len(run.samples) < 6 and res["cases"] and spec["kind"] in ("gen", "built") and any(nt for _, nt in res["cases"]):
                run.samples.append({"source": spec, "cases": len(res["cases"])})
            for clause, klass, count, kept in res["fails"]:
                for inp, detail in kept:
                    run.fail(clause, klass, inp, detail)
                k = "%s|%s" % (clause, klass)
                run.counts[k] += count - len(kept)
    run.notes.append("sources processed: %d; (level -> evaluations): %r" % (sources, per_level))
    run.notes.append("sources that lasio cannot read (outside the domain, skipped): %r" % (unreadable,))
    run.notes.append("sources whose ORIGINAL cannot be written (write clause not applicable there): %d" % skipped_write)
    run.notes.append("write() is compared for the default keyword arguments only; sections and items cannot be written on their own, "
                     "so the write clause is evaluated at LASFile level only")
    run.notes.append("left out: sections holding two items with the SAME session mnemonic (reachable only by renaming an item behind the "
                     "section's back, a C13 matter): deepcopy re-appends and would re-number them; attributes other than those the statement "
                     "lists (index_initial, encoding, user-added attributes) are not compared; corpus sections with more than 6 items: the "
                     "item level takes items 0, 1, last and up to 8 duplicate/blank ones")
    if tier == "quick":
        run.notes.append("quick tier: corpus files are read with mnemonic_case upper and preserve (lower only in the thorough tier), "
                         "files above %d bytes with upper only, files above %d bytes (1.2/sample_big.las) only in the thorough tier" % (BIG, HUGE))
    return run


def replay_one(entry):
    inp = dict(entry["input"])
    level, mech = inp.pop("level"), inp.pop("mech")
    out = process(inp, only=(level, mech))
    for clause, klass, i, detail in out.fails:
        if clause == entry["clause"]:
            return True, detail
    return False, "clause %s holds on this input now (other failures: %r)" % (entry["clause"], [(f[0], f[3]) for f in out.fails])


if __name__ == "__main__":
    main("C17", build_run, replay_one)
