"""C18 bounded stand-in / CPython cross-check: the JSON, CSV, Excel, DataFrame and
depth views of a LASFile are compared with the values the harness itself put into
the object (header items of every value type, float and text curves, NaN,
duplicates, the empty file), using only stdlib json/csv, openpyxl and pandas as
readers.  Five areas, each with its own clause names and klass prefix:

  json-*   (klass json;...)   strict json.loads, header values, curve samples
  csv-*    (klass csv;...)    to_csv x option combinations, parsed by csv.reader
  xlsx-*   (klass xlsx;...)   to_excel + openpyxl.load_workbook
  df-* / setdf-* (klass df;...)  df(), set_data_from_df(df())
  units-*  (klass units;...)  index_unit detection, depth_m / depth_ft

LASFiles are built through the public object API (LASFile(), HeaderItem,
append_curve) or - via=read - by reading a small conformant LAS text (so that the
value types are those the reader produces: np.int64 / np.float64 / str arrays).
index_unit is only ever computed by LASFile.read, so area 5 always reads a text.
"""
import sys
import os
sys.path.insert(0, os.path.dirname(os.path.abspath(__file__)))
from common import Run, main

import csv
import io
import itertools
import json
import math
import random
import re
import shutil
import tempfile

import numpy as np
import lasio
from lasio import HeaderItem

SECTIONS = [("Version", "vers"), ("Well", "well"), ("Parameter", "para"), ("Curves", "curv")]
FEET_TO_M = 0.3048

# the recognised spellings of the statement ("the recognised sets"), pinned here so that a
# spelling dropped from lasio.defaults.DEPTH_UNITS is noticed; spellings lasio has in
# addition are tested as well (see unit_table()).
REF_UNITS = {
    "FT": ("FT", "F", "FEET", "FOOT"),
    "M": ("M", "METER", "METERS", "METRE", "METRES", u"метер", u"м"),
    ".1IN": (".1IN", "0.1IN", ".1INCH", "0.1INCH"),
}
UNRECOGNISED = ["XX", "KM", "CM", "MM", "IN", "INCH", "S", "MS", "FTS", "MTR", "FATHOM", "1IN", "METERZ", u"км"]


# --------------------------------------------------------------------------- values

def mkval(vt, v):
    if vt == "int":
        return int(v)
    if vt == "np.int64":
        return np.int64(v)
    if vt == "float":
        return float(v)
    if vt == "np.float64":
        return np.float64(v)
    if vt in ("str", "str-empty"):
        return v
    if vt == "float-nan":
        return float("nan")
    if vt == "np.float64-nan":
        return np.float64("nan")
    raise ValueError(vt)


def vtype_of(value):
    """narrow name of the python type of a header value (from the object state)"""
    if isinstance(value, bool):
        return "bool"
    if isinstance(value, np.integer):
        return "np." + type(value).__name__
    if isinstance(value, np.floating):
        return "np." + type(value).__name__ + ("-nan" if np.isnan(value) else "")
    if isinstance(value, int):
        return "int"
    if isinstance(value, float):
        return "float" + ("-nan" if math.isnan(value) else "")
    if isinstance(value, str):
        return "str" if value else "str-empty"
    return type(value).__name__


def is_num(x):
    return isinstance(x, (int, float, np.integer, np.floating)) and not isinstance(x, (bool, np.bool_))


def is_missing(x):
    if x is None:
        return True
    try:
        import pandas as pd
        if x is pd.NA or x is pd.NaT:
            return True
    except ImportError:
        pass
    return is_num(x) and math.isnan(float(x))


def same_sample(kind, got, exp):
    """got (from a view) equals the sample the harness put in; exp None = NaN"""
    if kind == "float":
        if exp is None:
            return is_missing(got)
        return is_num(got) and float(got) == exp
    return isinstance(got, str) and got == exp


# --------------------------------------------------------------------------- building LASFiles

def las_text(version_items, well_units, well_nums, well_items, curve_lines, param_items, rows):
    def il(it):
        mn, unit, vtxt, descr = it
        return "%s.%s %s : %s" % (mn, unit, vtxt, descr)
    t = ["~Version", "VERS. 2.0 : v", "WRAP. NO : w"] + [il(i) for i in version_items]
    t += ["~Well"]
    for mn, u, v in zip(("STRT", "STOP", "STEP"), well_units, well_nums):
        t.append("%s.%s %s : %s" % (mn, u, v, mn.lower()))
    t.append("NULL. -999.25 : null")
    t += [il(i) for i in well_items]
    t += ["~Curves"] + [il(i) for i in curve_lines]
    t += ["~Params"] + [il(i) for i in param_items]
    t += ["~ASCII"] + [" ".join(r) for r in rows]
    return "\n".join(t) + "\n"


def vtext(vt, v):
    return v if vt in ("str", "str-empty") else repr(v)


def spec_text(spec):
    items = {"Version": [], "Well": [], "Parameter": []}
    for sec, mn, unit, vt, v, descr in spec["items"]:
        items[sec].append((mn, unit, vtext(vt, v), descr))
    cl = []
    for c in spec["curves"]:
        cl.append((c["mn"], c["unit"], "" if c["vt"] == "str-empty" else vtext(c["vt"], c["v"]), c["descr"]))
    n = len(spec["curves"][0]["vals"])
    rows = []
    for r in range(n):
        rows.append([("-999.25" if c["vals"][r] is None else repr(c["vals"][r])) if c["kind"] == "float" else c["vals"][r]
                     for c in spec["curves"]])
    idx = spec["curves"][0]["vals"]
    nums = [repr(idx[0]), repr(idx[-1]), repr(idx[1] - idx[0] if n > 1 else 0.0)]
    return las_text(items["Version"], ("M", "M", "M"), nums, items["Well"], cl, items["Parameter"], rows)


READ_TYPES = {"np.int64": np.int64, "np.float64": np.float64, "str": str, "str-empty": str}


def build(spec):
    """-> LASFile, or None when a via=read text did not come back as the spec says (that is
    the reader's business - other properties - and puts the case outside this harness)"""
    if spec["via"] == "read":
        try:
            las = lasio.read(spec_text(spec))
        except Exception:
            return None
        for sec in ("Version", "Well", "Parameter"):
            want = [i for i in spec["items"] if i[0] == sec]
            skip = {"Version": 2, "Well": 4, "Parameter": 0}[sec]
            got = list(list.__iter__(las.sections[sec]))[skip:]
            if len(got) != len(want):
                return None
            for it, (_, mn, unit, vt, v, descr) in zip(got, want):
                if it.original_mnemonic != mn or it.unit != unit or type(it.value) is not READ_TYPES[vt] or it.value != v:
                    return None
        if len(las.curves) != len(spec["curves"]):
            return None
        for cur, c in zip(list.__iter__(las.curves), spec["curves"]):
            if cur.original_mnemonic != c["mn"] or cur.unit != c["unit"]:
                return None
            if type(cur.value) is not READ_TYPES[c["vt"]] or cur.value != c["v"]:
                return None
            if cur.data.dtype.kind != ("f" if c["kind"] == "float" else "U") or len(cur.data) != len(c["vals"]):
                return None
            for g, e in zip(cur.data, c["vals"]):
                if not same_sample(c["kind"], g.item() if c["kind"] == "float" else str(g), e):
                    return None
        return las
    las = lasio.LASFile()
    if spec["strt"] == "set":
        idx = spec["curves"][0]["vals"] if spec["curves"] else [0.0, 1.0]
        las.well["STRT"].value = idx[0]
        las.well["STOP"].value = idx[-1]
        las.well["STEP"].value = (idx[1] - idx[0]) if len(idx) > 1 else 0.0
    for sec, mn, unit, vt, v, descr in spec["items"]:
        las.sections[sec].append(HeaderItem(mn, unit, mkval(vt, v), descr))
    for c in spec["curves"]:
        if c["kind"] == "float" and c.get("objarr"):
            # the same float samples held in an object-dtype array (what set_data with a mixed float/text array,
            # append_curve with an object array or set_data_from_df(las.df()) with a text curve leave behind)
            data = np.array([float("nan") if x is None else float(x) for x in c["vals"]], dtype=object)
        elif c["kind"] == "float":
            data = np.array([np.nan if x is None else x for x in c["vals"]], dtype=float)
        else:
            data = np.array(list(c["vals"]))
        las.append_curve(c["mn"], data, unit=c["unit"], descr=c["descr"], value=mkval(c["vt"], c["v"]))
    return las


def header_state(las):
    out = []
    for sec, _ in SECTIONS:
        for it in list.__iter__(las.sections[sec]):
            out.append((sec, it.mnemonic, it.original_mnemonic, it.unit, it.value, it.descr))
    return out


def shape_of(spec):
    cs = spec["curves"]
    others = sorted(set(c["kind"] for c in cs[1:]))
    names = [c["mn"] for c in cs]
    dup = "none"
    if len(set(names)) != len(names):
        dup = "index" if names.count(names[0]) > 1 else "others"
    nan = int(any(x is None for c in cs if c["kind"] == "float" for x in c["vals"]))
    nrows = len(cs[0]["vals"]) if cs else 0
    return {"empty": int(not cs), "others": "+".join(others) if others else "none", "nan": nan, "dup": dup,
            "nrows": "1" if nrows == 1 else ("0" if nrows == 0 else "n")}


def shape_klass(area, spec, extra=""):
    s = shape_of(spec)
    return "%s;via=%s;empty=%d;others=%s;nan=%d;dup=%s;nrows=%s%s" % (
        area, spec["via"], s["empty"], s["others"], s["nan"], s["dup"], s["nrows"], extra)


# --------------------------------------------------------------------------- area 1: JSON

def _reject_constant(c):
    raise ValueError("not strict JSON: constant %s" % c)


def check_json(spec):
    las = build(spec)
    if las is None:
        return None
    hs = header_state(las)
    nan_types = sorted(set(vtype_of(h[4]) for h in hs if vtype_of(h[4]).endswith("-nan")))
    kfile = shape_klass("json", spec, ";hdrnan=%s" % ("+".join(nan_types) if nan_types else "none"))
    session = [c.mnemonic for c in list.__iter__(las.curves)]
    fails = []
    texts = []
    for how in ("json", "to_json"):
        try:
            t = las.json if how == "json" else las.to_json()
        except Exception as e:
            fails.append(("json-produced", kfile, "%s raised %r" % (how, e)))
            continue
        if not isinstance(t, str):
            fails.append(("json-produced", kfile, "%s returned %r" % (how, type(t))))
            continue
        if t not in texts:
            texts.append(t)
    for text in texts:
        try:
            doc = json.loads(text, parse_constant=_reject_constant)
        except ValueError as e:
            fails.append(("json-strict-parser-accepts", kfile, "%s in %s" % (e, text[:300])))
            try:
                doc = json.loads(text)
            except ValueError:
                continue
        md = doc.get("metadata") if isinstance(doc, dict) else None
        seen = set()
        for sec, mn, omn, unit, value, descr in hs:
            vt = vtype_of(value)
            k = "json;valtype=%s;section=%s" % (vt, sec)
            if k in seen:
                continue
            try:
                J = md[sec][mn]
            except Exception:
                seen.add(k)
                fails.append(("json-carries-every-header-value", k, "no metadata[%r][%r]" % (sec, mn)))
                continue
            if isinstance(J, dict) and "value" in J:
                J = J["value"]
            if vt.endswith("-nan"):
                continue            # strictness is all the statement asks of a NaN header value
            if isinstance(value, str):
                ok = isinstance(J, str) and J == value
            else:
                ok = is_num(J) and J == value
            if not ok:
                seen.add(k)
                fails.append(("json-carries-every-header-value", k, "%s.%s = %r (%s) is %r in the JSON" % (sec, mn, value, vt, J)))
        data = doc.get("data") if isinstance(doc, dict) else None
        # nothing but this file's curves and sections (state must not leak from an earlier to_json() in the process)
        if isinstance(data, dict) and set(data.keys()) != set(session):
            fails.append(("json-holds-exactly-this-file's-curves", kfile, "data keys %r, session mnemonics %r" % (sorted(data.keys()), session)))
        if isinstance(md, dict) and set(md.keys()) != set(las.sections.keys()):
            fails.append(("json-holds-exactly-this-file's-sections", kfile, "metadata keys %r, sections %r" % (sorted(md.keys()), sorted(las.sections.keys()))))
        for i, c in enumerate(spec["curves"]):
            k = "json;curve=%s%s;nan=%d;dupname=%d" % (c["kind"], "(object-array)" if c.get("objarr") else "", int(None in c["vals"]), int(session[i] != c["mn"]))
            try:
                L = data[session[i]]
            except Exception:
                fails.append(("json-carries-every-curve-sample", k, "no data[%r]" % session[i]))
                continue
            ok = isinstance(L, list) and len(L) == len(c["vals"])
            if ok:
                for g, e in zip(L, c["vals"]):
                    if c["kind"] == "float" and e is None:
                        ok = ok and g is None          # NaN as null
                    else:
                        ok = ok and same_sample(c["kind"], g, e)
            if not ok:
                fails.append(("json-carries-every-curve-sample", k, "curve %r %r is %r in the JSON" % (session[i], c["vals"], L)))
    return fails


# --------------------------------------------------------------------------- area 2: CSV

CSV_MN = (True, False, "list")
CSV_UN = (True, False, "list")
CSV_LOC = ("line", "[]", "()", None)
CSV_LT = (None, "\n", "\r\n")
CSV_OPTS = [dict(mn=a, un=b, loc=c, lt=d) for a in CSV_MN for b in CSV_UN for c in CSV_LOC for d in CSV_LT]


def field_ok(kind, field, exp):
    if kind == "text":
        return field == exp
    if exp is None:
        if field.strip() == "":
            return True
        try:
            return math.isnan(float(field))
        except ValueError:
            return False
    try:
        return float(field) == exp
    except ValueError:
        return False


def check_csv(spec, opts, las=None):
    if las is None:
        las = build(spec)
    if las is None:
        return None
    cs = spec["curves"]
    nc = len(cs)
    n = len(cs[0]["vals"]) if cs else 0
    session = [c.mnemonic for c in list.__iter__(las.curves)]
    k = shape_klass("csv", spec, ";mn=%s;un=%s;loc=%s;lt=%s" % (
        opts["mn"], opts["un"], opts["loc"], {None: "default", "\n": "LF", "\r\n": "CRLF"}[opts["lt"]]))
    kw = {}
    mn_list = ["c%d" % i for i in range(nc)]
    un_list = ["u%d" % i for i in range(nc)]
    kw["mnemonics"] = mn_list if opts["mn"] == "list" else opts["mn"]
    kw["units"] = un_list if opts["un"] == "list" else opts["un"]
    kw["units_loc"] = opts["loc"]
    if opts["lt"] is not None:
        kw["lineterminator"] = opts["lt"]
    buf = io.StringIO(newline="")
    try:
        las.to_csv(buf, **kw)
    except Exception as e:
        return [("csv-produced", k, "to_csv raised %r" % (e,))]
    text = buf.getvalue()
    try:
        recs = list(csv.reader(io.StringIO(text, newline="")))
    except Exception as e:
        return [("csv-reader-accepts", k, "%r on %r" % (e, text[:200]))]
    fails = []
    if nc == 0:
        # the empty file: no depth steps, and mnemonic/unit rows of zero fields (written as blank lines or not at all)
        if len(recs) > 2 or any(f != "" for rec in recs for f in rec):
            fails.append(("csv-one-record-per-depth-step", k, "empty LASFile gives %r" % (text[:200],)))
        return fails
    # which header rows were requested
    mn_req = opts["mn"] is not False
    un_req = opts["un"] is not False
    exp_un = un_list if opts["un"] == "list" else [c["unit"] for c in cs]
    if opts["mn"] == "list":
        exp_mn_alts = [mn_list]
    else:
        exp_mn_alts = [[c["mn"] for c in cs], session]    # original or session names: both are "the curve mnemonics"
    settled = True       # is the header layout settled by the documented options?
    rows = []            # list of ("mn"/"un", alternatives)
    if mn_req and un_req and opts["loc"] in ("[]", "()"):
        o, c_ = opts["loc"][0], opts["loc"][1]
        rows.append(("mn+un", [[re.compile(re.escape(m) + r"\s*" + re.escape(o) + re.escape(u) + re.escape(c_)) for m, u in zip(alt, exp_un)]
                               for alt in exp_mn_alts]))
    elif un_req and opts["loc"] in ("[]", "()"):
        settled = False   # units asked for inside a mnemonic row that was not asked for: left out (run.notes)
    elif un_req and opts["loc"] is None:
        settled = False   # units asked for but no place given: only the mnemonic row and the records are checked
        if mn_req:
            rows.append(("mn-prefix", exp_mn_alts))
    else:
        if mn_req:
            rows.append(("mn", exp_mn_alts))
        if un_req and opts["loc"] == "line":
            rows.append(("un", [exp_un]))
    # records: the last n rows
    if settled:
        if len(recs) != len(rows) + n:
            fails.append(("csv-one-record-per-depth-step", k, "%d rows for %d header rows + %d depth steps: %r" % (len(recs), len(rows), n, text[:200])))
            return fails
    else:
        if not (n <= len(recs) <= n + 2):
            fails.append(("csv-one-record-per-depth-step", k, "%d rows for %d depth steps: %r" % (len(recs), n, text[:200])))
            return fails
    body = recs[len(recs) - n:] if n else []
    for r, rec in enumerate(body):
        if len(rec) != nc or not all(field_ok(c["kind"], f, c["vals"][r]) for f, c in zip(rec, cs)):
            fails.append(("csv-fields-parse-back-to-curve-values", k, "row %d is %r, curves hold %r" % (r, rec, [c["vals"][r] for c in cs])))
            break
    head = recs[:len(recs) - n]
    for j, (what, alts) in enumerate(rows):
        if j >= len(head):
            fails.append(("csv-requested-mnemonic-row" if what.startswith("mn") else "csv-requested-unit-row", k, "row missing: %r" % (text[:200],)))
            continue
        rec = head[j]
        ok = False
        for alt in alts:
            if len(rec) != len(alt):
                continue
            if what == "mn+un":
                ok = ok or all(p.fullmatch(f) for p, f in zip(alt, rec))
            elif what == "mn-prefix":
                ok = ok or all(f.startswith(a) for a, f in zip(alt, rec))
            else:
                ok = ok or list(rec) == list(alt)
        if not ok:
            clause = "csv-requested-unit-row" if what == "un" else "csv-requested-mnemonic-row"
            fails.append((clause, k, "header row %d is %r, requested %s" % (j, rec, [a if what != "mn+un" else [p.pattern for p in a] for a in alts][:1])))
    return fails


# --------------------------------------------------------------------------- area 3: Excel

_TMP = [None]


def tmpdir():
    if _TMP[0] is None:
        _TMP[0] = tempfile.mkdtemp(prefix="c18-", dir=os.environ.get("VERIF_SCRATCH", "/var/tmp"))
    return _TMP[0]


def cleanup():
    if _TMP[0] is not None:
        shutil.rmtree(_TMP[0], ignore_errors=True)
        _TMP[0] = None


def cell_text_ok(cell, text):
    return cell == text or (text == "" and cell is None)


def check_xlsx(spec):
    import openpyxl
    las = build(spec)
    if las is None:
        return None
    hs = header_state(las)
    session = [c.mnemonic for c in list.__iter__(las.curves)]
    k = shape_klass("xlsx", spec)
    path = os.path.join(tmpdir(), "c18-%d.xlsx" % os.getpid())
    try:
        try:
            las.to_excel(path)
        except Exception as e:
            return [("xlsx-produced", k, "to_excel raised %r" % (e,))]
        try:
            wb = openpyxl.load_workbook(path)
            sheets = {ws.title: [tuple(r) for r in ws.iter_rows(values_only=True)] for ws in wb}
            wb.close()
        except Exception as e:
            return [("xlsx-loads", k, "load_workbook raised %r" % (e,))]
    finally:
        if os.path.exists(path):
            os.remove(path)
    fails = []
    if "Header" not in sheets or "Curves" not in sheets:
        return [("xlsx-has-header-and-curves-sheets", k, "sheets %r" % (sorted(sheets),))]
    # Header sheet
    hrows = [tuple(r) + (None,) * 5 for r in sheets["Header"]]
    used = set()
    seen = set()
    for sec, mn, omn, unit, value, descr in hs:
        vt = vtype_of(value)
        ki = "xlsx;valtype=%s;section=%s" % (vt, sec)
        tag = dict(SECTIONS)[sec]
        hit = None
        for i, r in enumerate(hrows):
            if i in used:
                continue
            if isinstance(r[0], str) and r[0].strip().lstrip("~").lower().startswith(tag) and r[1] in (mn, omn):
                hit = i
                break
        if hit is None:
            if ("l", ki) not in seen:
                seen.add(("l", ki))
                fails.append(("xlsx-header-sheet-lists-every-item", ki, "no row for %s %r" % (sec, mn)))
            continue
        used.add(hit)
        r = hrows[hit]
        ok = cell_text_ok(r[2], unit) and cell_text_ok(r[4], descr)
        if vt.endswith("-nan"):
            pass
        elif isinstance(value, str):
            ok = ok and cell_text_ok(r[3], value)
        else:
            ok = ok and is_num(r[3]) and math.isclose(float(r[3]), float(value), rel_tol=1e-14, abs_tol=0.0)
        if not ok and ("f", ki) not in seen:
            seen.add(("f", ki))
            fails.append(("xlsx-header-item-fields", ki, "item %r is row %r" % ((sec, mn, unit, value, descr), r[:5])))
    # Curves sheet
    cs = spec["curves"]
    crow = [tuple(r) for r in sheets["Curves"]]
    crow = [r for r in crow]
    off = 0
    if crow and cs:
        first = list(crow[0][:len(cs)])
        if first == session or first == [c["mn"] for c in cs]:
            off = 1
    n = len(cs[0]["vals"]) if cs else 0
    ok = True
    why = ""
    for j in range(n):
        r = crow[off + j] if off + j < len(crow) else ()
        r = tuple(r) + (None,) * len(cs)
        for i, c in enumerate(cs):
            e = c["vals"][j]
            g = r[i]
            if c["kind"] == "float" and e is None:
                good = g is None or g == ""
            elif c["kind"] == "float":
                good = is_num(g) and math.isclose(float(g), e, rel_tol=1e-14, abs_tol=0.0)    # openpyxl writes numbers with 16 significant digits
            else:
                good = same_sample(c["kind"], g, e)
            if not good and ok:
                ok = False
                why = "curve %r sample %d is %r, cell holds %r" % (session[i], j, e, g)
    for r in crow[off + n:]:
        if any(x not in (None, "") for x in r) and ok:
            ok = False
            why = "extra row %r" % (r,)
    if not ok:
        fails.append(("xlsx-curves-sheet-holds-the-samples", k, why))
    return fails


# --------------------------------------------------------------------------- area 4: DataFrame

def check_df(spec):
    las = build(spec)
    if las is None:
        return None
    cs = spec["curves"]
    k = shape_klass("df", spec)
    names = [c.mnemonic for c in list.__iter__(las.curves)]
    try:
        d = las.df()
    except Exception as e:
        return [("df-produced", k, "df() raised %r" % (e,))]
    fails = []
    if not cs:
        if len(d.columns) != 0 or len(d) != 0:
            fails.append(("df-other-curves-are-columns", k, "empty file gives shape %r" % (d.shape,)))
    else:
        idx = list(d.index)
        if len(idx) != len(cs[0]["vals"]) or not all(same_sample("float", g, e) for g, e in zip(idx, cs[0]["vals"])):
            fails.append(("df-first-curve-is-index", k, "index %r, first curve %r" % (idx[:5], cs[0]["vals"][:5])))
        cols = [str(x) for x in d.columns]
        if cols != names[1:]:
            fails.append(("df-other-curves-are-columns", k, "columns %r, curves %r" % (cols, names[1:])))
        else:
            for j, c in enumerate(cs[1:]):
                got = list(d.iloc[:, j])
                if len(got) != len(c["vals"]) or not all(same_sample(c["kind"], g, e) for g, e in zip(got, c["vals"])):
                    fails.append(("df-columns-hold-equal-values", k, "column %r holds %r, %s curve holds %r" % (cols[j], got[:5], c["kind"], c["vals"][:5])))
                    break
    try:
        las.set_data_from_df(d)
    except Exception as e:
        fails.append(("setdf-applies", k, "set_data_from_df(df()) raised %r" % (e,)))
        return fails
    after = [c.mnemonic for c in list.__iter__(las.curves)]
    if after != names:
        fails.append(("setdf-restores-curve-names", k, "before %r after %r" % (names, after)))
    else:
        for cur, c in zip(list.__iter__(las.curves), cs):
            got = [x for x in cur.data]
            if len(got) != len(c["vals"]) or not all(same_sample(c["kind"], g, e) for g, e in zip(got, c["vals"])):
                fails.append(("setdf-restores-curve-values", k, "curve %r holds %r afterwards, had %r (%s)" % (cur.mnemonic, got[:5], c["vals"][:5], c["kind"])))
                break
    return fails


# --------------------------------------------------------------------------- area 5: index unit, depth_m / depth_ft

def unit_table():
    """REF_UNITS plus whatever the tree under test lists in addition"""
    t = {k: list(v) for k, v in REF_UNITS.items()}
    try:
        for k, v in lasio.defaults.DEPTH_UNITS.items():
            for s in v:
                if k in t and s not in t[k]:
                    t[k].append(s)
    except Exception:
        pass
    return t


def unit_class(u, table):
    for k, v in table.items():
        if any(u.lower() == s.lower() for s in v):
            return k
    return None


def case_label(s):
    if not any(ch.isalpha() for ch in s):
        return "none"
    if s == s.lower():
        return "lower"
    if s == s.upper():
        return "upper"
    if s == s.title():
        return "title"
    return "mixed"


def script_label(s):
    if any(ord(ch) > 127 for ch in s):
        return "cyrillic"
    return "ascii"


INDEX = [0.0, 1.5, 1000.25, 12345.678]


def units_klass(units, table):
    cl = [unit_class(u, table) for u in units]
    classes = sorted(set(c for c in cl if c))
    rec = [u for u, c in zip(units, cl) if c]
    unrec = [u for u, c in zip(units, cl) if not c]
    kind = "unrecognised" if not classes else ("conflict" if len(classes) > 1 else ("one-spelling" if len(set(rec)) == 1 else "several-spellings"))
    slots = "".join(ch if c else "-" for ch, c in zip("ABEC", cl))     # strt, stop, step, curve
    fill = "none" if not unrec else ("blank" if all(u == "" for u in unrec) else ("unrec" if all(u != "" for u in unrec) else "blank+unrec"))
    cyr = int(any(script_label(u) == "cyrillic" and u != u.lower() for u in rec))
    return "units;kind=%s;cyr_nonlower=%d;classes=%s;script=%s;case=%s;slots=%s;fill=%s" % (
        kind, cyr, "+".join(classes) if classes else "none",
        "+".join(sorted(set(script_label(u) for u in rec))) if rec else "none",
        "+".join(sorted(set(case_label(u) for u in rec))) if rec else "none", slots, fill)


def check_units(units):
    table = unit_table()
    k = units_klass(units, table)
    text = las_text([], units[:3], [repr(INDEX[0]), repr(INDEX[-1]), "0.0"], [], [("DEPT", units[3], "", "index"), ("GR", "api", "", "g")], [],
                    [[repr(x), repr(float(i))] for i, x in enumerate(INDEX)])
    try:
        las = lasio.read(text)
    except Exception:
        return None
    got_units = [las.well[m].unit for m in ("STRT", "STOP", "STEP")] + [las.curves[0].unit]
    if got_units != list(units) or len(las.curves) != 2 or [float(x) for x in las.curves[0].data] != INDEX:
        return None          # the reader did not deliver the units as spelled: outside this property
    cl = [unit_class(u, table) for u in units]
    classes = sorted(set(c for c in cl if c))
    fails = []

    def views():
        out = {}
        for nm in ("depth_m", "depth_ft"):
            try:
                out[nm] = np.asarray(getattr(las, nm), dtype=float)
            except Exception as e:
                out[nm] = e
        return out
    if len(classes) == 1:
        v = views()
        if las.index_unit is None or isinstance(v["depth_m"], Exception) or isinstance(v["depth_ft"], Exception):
            fails.append(("units-recognised-case-insensitively", k, "units %r: index_unit=%r depth_m=%r depth_ft=%r" % (
                units, las.index_unit, v["depth_m"] if isinstance(v["depth_m"], Exception) else "ok",
                v["depth_ft"] if isinstance(v["depth_ft"], Exception) else "ok")))
            return fails
        if not np.allclose(v["depth_m"], v["depth_ft"] * FEET_TO_M, rtol=1e-12, atol=0.0):
            fails.append(("units-depth-m-is-depth-ft-times-0.3048", k, "depth_m=%r depth_ft=%r" % (v["depth_m"], v["depth_ft"])))
        idx = np.array(INDEX)
        own = {"M": ("depth_m", idx), "FT": ("depth_ft", idx), ".1IN": ("depth_ft", idx / 120.0)}[classes[0]]
        if not np.allclose(v[own[0]], own[1], rtol=1e-12, atol=0.0):
            fails.append(("units-recognised-as-the-unit-spelled", k, "units %r: %s=%r for index %r" % (units, own[0], v[own[0]], INDEX)))
    elif len(classes) > 1:
        if las.index_unit is not None:
            fails.append(("units-conflict-left-undefined", k, "units %r: index_unit=%r" % (units, las.index_unit)))
    else:
        if las.index_unit is not None:
            fails.append(("units-unrecognised-left-undefined", k, "units %r: index_unit=%r" % (units, las.index_unit)))
    return fails


# --------------------------------------------------------------------------- input spaces

FLOATS = [1.5, -2.5, 0.1 + 0.2, 1e-07, 1234567.891, 3.0, -0.125, 98765.4321]
TEXTS_API = ["abc", "a,b", 'q"x', "two words", "x1", "-"]
TEXTS_READ = ["abc", "x1", "LIME", "s-t", "Q_7"]
IDX = [100.0, 100.5, 101.0, 101.5]

VALS = [("int", 12), ("int", -3), ("np.int64", 12), ("np.int64", 0), ("float", 1.5), ("np.float64", 1.5), ("np.float64", -0.25),
        ("str", "hello"), ("str", "two words"), ("str-empty", ""), ("float-nan", None), ("np.float64-nan", None), ("int", 2 ** 40),
        ("np.int64", 2 ** 40)]
VALS_READ = [("np.int64", 12), ("np.int64", -3), ("np.float64", 1.5), ("np.float64", -0.25), ("str", "hello"), ("str", "two words")]


def curve(mn, kind, vals, unit="", vt="str-empty", v="", descr=""):
    return {"mn": mn, "unit": unit, "kind": kind, "vals": vals, "vt": vt, "v": v, "descr": descr}


def curve_sets(max_others, nrows_list, via):
    """systematic curve sets: others in {F, Fnan, Fallnan, T}^k, duplicates none / among others / with the index"""
    texts = TEXTS_API if via == "api" else TEXTS_READ
    out = []
    for nrows in nrows_list:
        for k in range(0, max_others + 1):
            for kinds in itertools.product(("F", "N", "A", "T"), repeat=k):
                for dup in ("none", "others", "index"):
                    if dup == "others" and k < 2:
                        continue
                    if dup == "index" and k < 1:
                        continue
                    cs = [curve("DEPT", "float", IDX[:nrows], unit="m", descr="depth")]
                    for j, kd in enumerate(kinds):
                        if dup == "others":
                            mn = "GR"
                        elif dup == "index" and j == 0:
                            mn = "DEPT"
                        else:
                            mn = ["GR", "NPHI", "LITH"][j]
                        if kd == "T":
                            vals = [texts[(j + r) % len(texts)] for r in range(nrows)]
                            cs.append(curve(mn, "text", vals, unit="", descr="t"))
                        else:
                            vals = [FLOATS[(3 * j + r) % len(FLOATS)] for r in range(nrows)]
                            if kd == "N":
                                vals[(j + 1) % nrows] = None
                            if kd == "A":
                                vals = [None] * nrows
                            cs.append(curve(mn, "float", vals, unit="api", descr="f"))
                    out.append(cs)
    return out


def header_profiles(via):
    """list of (strt, items, curve_value or None)"""
    vals = VALS if via == "api" else VALS_READ
    out = [("default" if via == "api" else "set", [], None)]
    if via == "api":
        out.append(("set", [], None))
    for vt, v in vals:
        for sec in ("Version", "Well", "Parameter"):
            out.append(("set", [[sec, "ITEM", "u" if sec == "Parameter" else "", vt, v, "an item"]], None))
        if via == "api" or vt == "str":             # the reader keeps the value of a ~Curves item as text
            out.append(("set", [], (vt, v)))        # as the value (API code) of a ~Curves item
    everything = []
    for sec in ("Version", "Well", "Parameter"):
        for i, (vt, v) in enumerate(vals):
            everything.append([sec, "I%d" % i, "", vt, v, "item %d" % i])
    out.append(("set", everything, None))
    if via == "api":
        out.append(("default", everything, None))
    # duplicate header mnemonics
    dups = [["Well", "DUP", "", vals[0][0], vals[0][1], "first"], ["Well", "DUP", "", vals[-1][0] if via == "read" else "str", vals[-1][1] if via == "read" else "second", "second"],
            ["Parameter", "DUP", "", vals[2][0], vals[2][1], "p1"], ["Parameter", "DUP", "", vals[2][0], vals[2][1], "p2"]]
    out.append(("set", dups, None))
    return out


def make_spec(via, strt, items, cs, curve_value=None):
    cs = [dict(c) for c in cs]
    if curve_value is not None and cs:
        cs[-1]["vt"], cs[-1]["v"] = curve_value
    return {"via": via, "strt": strt, "items": items, "curves": cs}


def rand_spec(rng):
    via = "api" if rng.random() < 0.75 else "read"
    texts = TEXTS_API if via == "api" else TEXTS_READ
    vals = VALS if via == "api" else VALS_READ
    nrows = rng.choice([1, 2, 3, 4, 6])
    idx = [round(50.0 + 0.25 * i, 2) for i in range(nrows)]
    cs = [curve("DEPT", "float", idx, unit=rng.choice(["m", "ft", "M"]), descr="depth")]
    for j in range(rng.choice([0, 1, 1, 2, 2, 3, 4])):
        mn = rng.choice(["GR", "GR", "NPHI", "RHOB", "LITH", "DEPT"])
        if rng.random() < 0.3:
            cs.append(curve(mn, "text", [rng.choice(texts) for _ in range(nrows)], descr="t"))
        else:
            pool = FLOATS + [round(rng.uniform(-1000, 1000), rng.choice([0, 2, 5])) for _ in range(3)] + [rng.random() * 10 ** rng.randint(-8, 8)]
            v = [rng.choice(pool) if rng.random() > 0.25 else None for _ in range(nrows)]
            vt, vv = rng.choice(vals) if rng.random() < 0.3 else ("str-empty", "")
            if via == "read" and vt != "str":
                vt, vv = "str-empty", ""
            cs.append(curve(mn, "float", v, unit=rng.choice(["api", "", "v/v"]), vt=vt, v=vv, descr="f"))
    items = []
    for j in range(rng.choice([0, 1, 2, 4])):
        vt, v = rng.choice(vals)
        items.append([rng.choice(["Version", "Well", "Parameter"]), rng.choice(["A", "B", "B", "RUN"]), rng.choice(["", "u"]), vt, v, "d%d" % j])
    return {"via": via, "strt": "set" if via == "read" else rng.choice(["set", "default"]), "items": items, "curves": cs}


def case_variants(s, rng=None):
    out = []
    for v in (s.upper(), s.lower(), s.title(), s.title().swapcase()):
        if v not in out:
            out.append(v)
    if rng is not None and len(s) > 2:
        v = "".join(ch.upper() if rng.random() < 0.5 else ch.lower() for ch in s)
        if v not in out:
            out.append(v)
    return out


def unit_cases(tier, rng):
    table = unit_table()
    cases = []
    thorough = tier != "quick"
    # one spelling, every case variant, in every slot pattern
    for cls, sp in table.items():
        for s in sp:
            for v in case_variants(s, rng if thorough else None):
                cases.append([v, v, v, v])
                for i in range(4):
                    for fill in ("", "XX"):
                        if not thorough and fill == "XX" and i in (1, 2):
                            continue
                        u = [fill] * 4
                        u[i] = v
                        cases.append(u)
                if thorough:
                    for mask in range(1, 15):
                        if bin(mask).count("1") < 2:
                            continue
                        for fill in ("", "KM"):
                            cases.append([v if mask >> i & 1 else fill for i in range(4)])
    # several spellings of one class
    for cls, sp in table.items():
        for rep in range(8 if not thorough else 60):
            cases.append([rng.choice(case_variants(rng.choice(sp))) if rng.random() < 0.8 else rng.choice(["", "XX"]) for _ in range(4)])
    # conflicts
    keys = sorted(table)
    for a, b in itertools.permutations(keys, 2):
        for rep in range(6 if not thorough else 40):
            sa = rng.choice(case_variants(rng.choice(table[a]))) if rep else table[a][0]
            sb = rng.choice(case_variants(rng.choice(table[b]))) if rep else table[b][0]
            for pat in ([sa, sb, "", ""], [sa, sa, sa, sb], [sb, "", "", sa], ["", "", sa, sb], [sa, sb, sa, sb], ["XX", sa, sb, ""]):
                cases.append(list(pat))
    for rep in range(4 if not thorough else 40):
        three = [rng.choice(case_variants(rng.choice(table[kk]))) for kk in keys]
        three.append(rng.choice(["", three[0], "XX"]))
        rng.shuffle(three)
        cases.append(three)
    # unrecognised
    for u in UNRECOGNISED + [""]:
        for v in case_variants(u) if u else [""]:
            cases.append([v, v, v, v])
            cases.append([v, "", "", ""])
            cases.append(["", "", "", v])
    for rep in range(10 if not thorough else 100):
        cases.append([rng.choice(UNRECOGNISED + [""]) for _ in range(4)])
    seen = set()
    out = []
    for c in cases:
        if tuple(c) not in seen:
            seen.add(tuple(c))
            out.append(c)
    return out


# --------------------------------------------------------------------------- running

CHECKS = {"json": check_json, "xlsx": check_xlsx, "df": check_df}


def run_one(area, spec, opts=None):
    """-> None (outside the domain) or list of (clause, klass, detail)"""
    try:
        if area == "csv":
            return check_csv(spec, opts)
        if area == "units":
            return check_units(spec)
        return CHECKS[area](spec)
    except Exception as e:       # a crash of the oracle itself must not pass silently
        import traceback
        return [("harness-error-" + area, area + ";harness", "oracle crashed: %r %s" % (e, traceback.format_exc()[-300:]))]


def curves_snapshot(las):
    return [(c.mnemonic, c.original_mnemonic, c.unit, c.data.dtype.str, c.data.tobytes()) for c in list.__iter__(las.curves)]


def worker(job):
    """-> list of ((area, spec, opts), fails).  A "csv*" job carries a list of option combinations for one
    LASFile: the object is built once and re-used as long as to_csv leaves its curves untouched."""
    area, spec, opts = job
    if area != "csv*":
        return [(job, run_one(area, spec, opts))]
    out = []
    try:
        las = build(spec)
        snap = curves_snapshot(las) if las is not None else None
    except Exception:
        las = None
        snap = None
    for o in opts:
        if las is None:
            out.append((("csv", spec, o), run_one("csv", spec, o)))
            continue
        try:
            r = check_csv(spec, o, las)
        except Exception:
            r = run_one("csv", spec, o)
        out.append((("csv", spec, o), r))
        try:
            dirty = curves_snapshot(las) != snap
        except Exception:
            dirty = True
        if dirty:
            las = None
    return out


def build_jobs(tier, seed):
    rng = random.Random(seed * 7919 + 18)
    quick = tier == "quick"
    jobs = []
    empty = {"via": "api", "strt": "default", "items": [], "curves": []}
    # --- the empty file, every view
    for area in ("json", "xlsx", "df"):
        jobs.append((area, empty, None))
    jobs.append(("csv*", empty, CSV_OPTS))
    for strt, items, cv in header_profiles("api"):       # header only, no curves
        if cv is None:
            sp = make_spec("api", "default", items, [])
            jobs.append(("json", sp, None))
            jobs.append(("xlsx", sp, None))
    for via in ("api", "read"):
        cs_all = curve_sets(2 if quick else 3, (1, 3) if quick else (1, 2, 4), via)
        cs_small = [cs for cs in cs_all if len(cs[0]["vals"]) > 1 and len(cs) <= 2]          # index only; index + F/N/A/T (+dup index)
        hps = header_profiles(via)
        hp_small = hps[:2] if via == "api" else hps[:1]
        # --- json: every header profile x small curve sets, plain headers x every curve set
        for strt, items, cv in hps:
            for cs in (cs_small if not quick else cs_small[:6]):
                if cv is not None and len(cs) < 2:
                    continue
                jobs.append(("json", make_spec(via, strt, items, cs, cv), None))
        for strt, items, cv in hp_small:
            for cs in cs_all:
                jobs.append(("json", make_spec(via, strt, items, cs), None))
        # --- csv: every curve set x every option combination
        for cs in cs_all:
            sp = make_spec(via, "set", [], cs)
            jobs.append(("csv*", sp, CSV_OPTS))
        # --- xlsx
        xl_cs = [cs_small[1], cs_small[4]] if quick else cs_small
        for hi, (strt, items, cv) in enumerate(hps):
            if quick and via == "read" and hi % 3:
                continue
            for cs in xl_cs:
                if cv is not None and len(cs) < 2:
                    continue
                jobs.append(("xlsx", make_spec(via, strt, items, cs, cv), None))
        for ci, cs in enumerate(cs_all):
            if quick and ci % (2 if via == "api" else 4):
                continue
            jobs.append(("xlsx", make_spec(via, "set", [], cs), None))
        # --- df
        for ci, cs in enumerate(cs_all):
            if quick and via == "read" and ci % 2:
                continue
            jobs.append(("df", make_spec(via, "set", [], cs), None))
    # --- json of float curves held in object-dtype arrays (operation history: set_data with a mixed array,
    #     append_curve with an object array, set_data_from_df on a frame with a text column)
    for cs in curve_sets(2, (3,), "api"):
        if any(c["kind"] == "float" and None in c["vals"] for c in cs[1:]):
            cs2 = [dict(c, objarr=True) if (c["kind"] == "float" and j > 0) else dict(c) for j, c in enumerate(cs)]
            jobs.append(("json", make_spec("api", "set", [], cs2), None))
    # --- sampled LASFiles, every view
    for i in range(150 if quick else 1500):
        sp = rand_spec(rng)
        jobs.append(("json", sp, None))
        jobs.append(("df", sp, None))
        if not quick or i % 3 == 0:
            jobs.append(("xlsx", sp, None))
        jobs.append(("csv*", sp, rng.sample(CSV_OPTS, 8) if quick else CSV_OPTS))
    # --- units
    for u in unit_cases(tier, rng):
        jobs.append(("units", u, None))
    return jobs


def nontrivial(area, spec):
    if area == "units":
        return any(u != "" for u in spec)
    return bool(spec["curves"]) or bool(spec["items"])


def build_run(tier, seed):
    run = Run("C18",
              "one evaluation = one view (json | one to_csv call | to_excel+reload | df+set_data_from_df | one read + depth_m/depth_ft) of one "
              "LASFile; non-trivial when the LASFile has at least one curve or one added header item (areas 1-4) / at least one non-blank "
              "unit among STRT, STOP, STEP, first curve (area 5); distinct = distinct (area, LASFile description, options)",
              "LASFiles built from a description: header items of type int, np.int64, float, np.float64, str, '', NaN (float, np.float64, "
              "default STRT/STOP/STEP) in ~Version/~Well/~Parameter/~Curves, float and text curves, NaN samples, duplicate mnemonics, the "
              "fresh LASFile(); built through the object API or by reading a conformant LAS 2.0 text; to_csv options mnemonics/units in "
              "{True, False, list} x units_loc in {'line','[]','()',None} x lineterminator in {default, LF, CRLF}; index-unit spellings",
              "curves <= %d, rows <= %d, systematic + %d sampled LASFiles; all 108 to_csv combinations on the systematic part; every DEPTH_UNITS "
              "spelling x case variants x slot patterns" % ((5, 6, 150) if tier == "quick" else (5, 6, 1500)))
    jobs = build_jobs(tier, seed)
    nproc = 4 if tier == "quick" else 8
    tmpdir()          # created before forking: the workers write c18-<pid>.xlsx into it, the parent removes it
    try:
        import multiprocessing as mp
        ctx = mp.get_context("fork")
        with ctx.Pool(nproc) as pool:
            results = [x for part in pool.map(worker, jobs, chunksize=8) for x in part]
    finally:
        cleanup()
    skipped = {}
    per_area = {}
    for (area, spec, opts), fails in results:
        if fails is None:
            skipped[area] = skipped.get(area, 0) + 1
            continue
        per_area[area] = per_area.get(area, 0) + 1
        key = json.dumps([area, spec, opts], sort_keys=True)
        sample = None
        if per_area[area] == 40:
            sample = {"area": area, "spec": spec, "opts": opts}
        run.case(key, nontrivial=nontrivial(area, spec), sample=sample)
        for clause, klass, detail in fails:
            run.fail(clause, klass, {"area": area, "spec": spec, "opts": opts}, detail)
    run.notes.append("evaluations per area: %r" % (per_area,))
    run.notes.append("cases left out because the LAS text was not read back as described (reader's business, other properties): %r" % (skipped,))
    run.notes.append("'.1IN'/'.1INCH' as the unit of the first curve cannot be delivered through a ~C line (the reader splits 'DEPT..1IN' into "
                     "mnemonic 'DEPT.' and unit '1IN'); those unit cases are among the skipped ones; '0.1IN'/'0.1INCH' on the curve are covered")
    run.notes.append("left out: text-valued or NaN index curve; curves with zero samples; inf; bool/None header values; csv kwargs other than "
                     "lineterminator; to_csv to a path; read(index_unit=...) override")
    run.notes.append("to_csv: with units requested and units_loc in ('[]','()') but mnemonics=False, or units requested and units_loc=None, the "
                     "statement does not say where the units go: only the records (and, for None, the mnemonic row as a prefix) are checked")
    run.notes.append("mnemonics=True accepts either the original or the session (suffixed) curve names; a NaN header value is only required "
                     "not to break strict JSON (nothing is demanded of its image); Excel NaN header cell: nothing demanded")
    run.notes.append("float equality is exact for json/csv/df (repr round-trips), rel 1e-14 for xlsx (openpyxl itself writes 16 significant digits); depth check np.allclose(rtol=1e-12, atol=0)")
    return run


def replay_one(entry):
    inp = entry["input"]
    try:
        fails = run_one(inp["area"], inp["spec"], inp.get("opts"))
    finally:
        cleanup()
    if fails is None:
        return False, "input no longer inside the domain (LAS text not read back as described)"
    for clause, klass, detail in fails:
        if clause == entry["clause"] and (entry.get("klass") in (None, klass)):
            return True, detail
    return False, "clause %s holds on this input now (other failures: %r)" % (entry["clause"], [(c, k) for c, k, _ in fails])


if __name__ == "__main__":
    main("C18", build_run, replay_one)
