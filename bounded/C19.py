"""C19 bounded stand-in / CPython cross-check: ignore_header_errors is tolerant and
non-interfering.

Base files (generated + a few of tests/examples, all readable WITHOUT the flag) get
1..3 junk lines (printable ASCII; random and adversarial) inserted at every site of
their ~V, ~W, ~P and custom sections (never ~C/~O/~A).  The real lasio.read is run
with the flag on (both engines) and off (both engines).

Oracle (relational, as the statement is: junk-read vs the read of the untouched
base under the same options - the base read is the reference, nothing is re-parsed
by a second route through lasio):
  flag on : read() does not raise;
            every header-item section is  extras* G0 extras* G1 ... extras*  where
            G0.. are the base's items compared as (original_mnemonic, unit, value
            with its type, descr), and at most as many extras sit in a gap as junk
            lines were put there (sections without insertion: exactly G);
            every junk line that is neither blank nor a '#' comment is accounted
            for by an extra item or by a WARNING record mentioning it;
            curve data equal per curve (NaN-aware).
  flag off: read() returns, or raises lasio.exceptions.LASHeaderError whose message
            contains the stripped text of one of the junk lines or its 1-based line
            number.
Session names (:1/:2) are deliberately NOT compared.
"""
import sys
import os
sys.path.insert(0, os.path.dirname(os.path.abspath(__file__)))
import common
from common import Run, main

import io
import re
import random
import logging
import collections
import multiprocessing

import numpy as np
import lasio
import lasio.exceptions

STEER = re.compile(r"vers|wrap|dlm|null", re.I)
EXAMPLES_QUICK = ["sample.las", "2.0/sample_2.0.las", "non-standard-header-sections.las", "sample_str_in_data.las"]
EXAMPLES_THOROUGH = EXAMPLES_QUICK + ["non-standard-header-section.las", "1.2/sample.las", "6038187_v1.2_short.las"]
N_GEN = 4
ALL_RUNS = [[1, "numpy"], [1, "normal"], [0, "numpy"], [0, "normal"]]


# ----------------------------------------------------------------------------- base files
def gen_base(ix):
    """small conformant LAS texts; deterministic in ix (independent of --seed)"""
    ver = "1.2" if ix % 2 == 0 else "2.0"
    wrap = "YES" if ix == 3 else "NO"
    L = ["~Version information", "VERS.   %s : CWLS LOG ASCII STANDARD - VERSION %s" % (ver, ver),
         "WRAP.   %s : one line per depth step" % wrap]
    custom = ["~Tops section" if ix % 2 == 0 else "~Extra (custom) block",
              "TOPA.M      1671.5 : top of A",
              "# a comment inside the custom section",
              "TOPB.M      1672.25 : top of B"]
    if ix == 2:
        custom.append("NOTE.       some free text : with a description")
    if ix in (1, 2):
        L += custom
    L.append("~Well information")
    if ix == 1:
        L.append("# comment line")
    if ver == "1.2":
        L += ["STRT.M      1670.0 : START DEPTH", "STOP.M      1669.0 : STOP DEPTH", "STEP.M      -0.5 : STEP",
              "NULL.       -999.25 : NULL VALUE",
              "COMP.       COMPANY : ANY OIL COMPANY INC.", "WELL.       WELL : AAAAA_2",
              "DATE.       LOG DATE : 13-DEC-86", "UWI.        UNIQUE WELL ID : 100123401234W500"]
    else:
        L += ["STRT.M      1670.0 : START DEPTH", "STOP.M      1669.0 : STOP DEPTH", "STEP.M      -0.5 : STEP",
              "NULL.       -999.25 : NULL VALUE",
              "COMP.       ANY OIL COMPANY INC. : COMPANY", "WELL.       AAAAA_2 : WELL",
              "", "DATE.       13-DEC-86 : LOG DATE", "UWI.        100123401234W500 : UNIQUE WELL ID"]
    L += ["~Curve information", "DEPT.M        : 1 DEPTH", "DT  .US/M     : 2 SONIC", "RHOB.K/M3     : 3 DENSITY"]
    L.append("~Parameter information")
    if ix != 2:
        L += ["MUD .        GEL CHEM : MUD TYPE", "BHT .DEGC    35.5 : BOTTOM HOLE TEMPERATURE",
              "TLAB.        12:30 : TIME OF DAY"]
        if ix == 3:
            L += ["", "# trailing comment"]
    if ix in (0, 3):
        L += custom
    L += ["~Other", "free text . with : delimiters"]
    L.append("~ASCII")
    rows = [(1670.0, 123.45, 2550.0), (1669.5, 123.45, -999.25), (1669.0, -999.25, 2550.5)]
    for r in rows:
        if wrap == "YES":
            L.append("%.3f" % r[0])
            L.append(" ".join("%.3f" % x for x in r[1:]))
        else:
            L.append(" ".join("%.3f" % x for x in r))
    return "\n".join(L) + "\n"


def example_dir():
    d = os.path.join(common.REPO, "tests", "examples")
    return d if os.path.isdir(d) else "/repo/tests/examples"


_TEXT = {}


def base_text(bid):
    if bid not in _TEXT:
        if bid.startswith("gen:"):
            _TEXT[bid] = gen_base(int(bid[4:]))
        else:
            with open(os.path.join(example_dir(), bid[3:]), encoding="ascii", newline=None) as f:
                _TEXT[bid] = f.read()
    return _TEXT[bid]


def scan(text):
    """independent line scan -> (lines, sections) ; a section is
    dict(kind V|W|P|X|skip, key, title_ix, body_start, body_end(excl), item_lines)"""
    lines = text.split("\n")
    titles = [i for i, l in enumerate(lines) if l.strip().startswith("~")]
    secs = []
    for n, t in enumerate(titles):
        title = lines[t].strip()
        end = titles[n + 1] if n + 1 < len(titles) else len(lines)
        c = title[1:2]
        if c in "VWP" and c and "_" not in title:
            kind = c
            key = {"V": "Version", "W": "Well", "P": "Parameter"}[c]
        elif c == "" or c in "CAOvwcpao" or "_" in title:
            kind, key = "skip", None
        else:
            kind, key = "X", title[1:]
        body = list(range(t + 1, end))
        items = [i for i in body if lines[i].strip() and not lines[i].strip().startswith("#")]
        secs.append({"kind": kind, "key": key, "title": t, "start": t + 1, "end": end, "items": items})
    return lines, secs


def version_of(text):
    m = re.search(r"^\s*VERS\s*\.\s*([0-9.]+)", text, re.M)
    return m.group(1) if m else "?"


# ----------------------------------------------------------------------------- junk
def adversarial_pool():
    P = []
    P += [".", "..", "...", ". .", " . ", ". . ."]                                    # only periods
    P += [":", "::", ": :", " : ", ":::"]                                             # only colons
    P += [".:", ":.", "..:", ".:.", ":.:", ". :", ".. ::", ".:.:.:", ": .", ". . : :", ":..", "..::..", " .: "]
    P += ["!!!", "-----", "====", "*", "?", "/\\", "@$%^&", "-", "_", "+", ",", ";", "|", "<>", "`", "^", "&&", "$", "%", "!?;,"]
    P += ["(", ")", "[", "]", "[]", "()", "{}", "()[]", "[.]", "(:)", "[M].", "X.[M] 1 : d", "X.( 1 : d", "X.[ : ",
          "X.] 1: d", "X.() 1 : d", "X.[] : ", "X.[[M]] 1 : d", "X.)( 5 : d", "X.(M 1 : d", "X.M) 1 : d", "X.[ ] 1 : d"]
    P += ['"', "'", '""', "''", '"."', '":"', "'a.b:c'", '"STRT.M 1:x"', '"quoted" text', '"unterminated', "'.", '".',
          'X."M" "1" : "d"', "it's . a : trap"]
    P += ["JUNK", "just some words without delimiters", "12345", "-999.25", "1e308", "a b c", "1.2 3.4 5.6 7.8",
          "1670.000 123.450 2550.000", "1.2", "2.0", "-.5 : x"]
    P += ["A" * 5000, "." * 5000, ":" * 5000, "x." + "9" * 6000 + " : d", "junk " * 1200, ".:" * 3000,
          "A" * 5000 + ".M 1 : d", "X.M 1 : " + "d" * 7000, "X." + "U" * 5000 + " 1 : d", " " * 3000 + "X.M 1 : d" + " " * 3000,
          "X.M " + "1 " * 2600 + ": d", "-" * 5200]
    P += ["BIG." + "9" * 25 + " : huge", "BIG.M " + "1" * 40 + ": d", "9" * 30, "BIG. -" + "9" * 25 + " : d", "BIG. 1e400 : d",
          "BIG. " + "9" * 400 + " : d", "BIG : " + "1" * 30, "BIG. " + "9" * 25 + "." + "9" * 25 + " : d", "BIG.M 9223372036854775808 : 2**63",
          "BIG.M -9223372036854775809 : d", "BIG. " + "1" * 26 + "e" + "9" * 26 + " : d", "1" * 25 + "." + "2" * 25 + " " + "3" * 25 + ":" + "4" * 25]
    P += ["X. inf : d", "X. -inf : d", "X. nan : d", "X. NaN : d", "X. Infinity : d", "X. +INF: d", "nan", "inf", "inf.nan inf : nan",
          "NAN.NAN NAN:NAN", "X : inf", "X. 1e999 : d", "X. infinity", "X. -nan : d", "X. nan(7) : d", "X. 1e-999 : d", "X. infj : d"]
    P += [".M 1 : no name", ". 1 : d", "..M 1: d", "A.B.C.D 1:2:3:4", "TIME. 12:30:45 : t", "TIME.hh:mm 12:30 : d",
          "DATE. 13/12/1986 23:59 : d", "X.1000 psi 5 : d", "X.M : ", "X. :", "X.:", ":X", "X:", "X:Y:Z", "X.M 1,5 : comma",
          "X.M 1_000 : underscore", "X.M 0x10 : hex", "API. 0012345 : a", "UWI. 00-11 : u", "api.  : ", "STRT.M 99 : dup",
          "STOP.FT 1 : dup", "STEP. : ", "COMP. JUNK : dup", "strt.m 5 : lower", "DEPT.M : curve-like", "UNKNOWN. 1 : d",
          "UNKNOWN:1. 1 : d", "A:1.M 1 : d", "X:1 : d", "# a comment", "#", "#.:", "name with spaces.unit value : descr",
          "%.% % : %", "\\.\\ \\ : \\", "X.M 1 : d : e : f", "X.M 1 .. 2 : d", "a.b", "a.b c", "a.", ".a", "a:b.c",
          "TOPA.M 1 : dup of custom", "MUD . x : dup of param", "X.M 1 : ~tilde inside", "X~.M 1 : d", "X.M 1 # not a comment",
          "{X}.{M} {1} : {d}", "X.M\\ 1 : d", "X.M 1 :", "X.M 1:d", "X .M 1 : d", " X.M 1 : d ", "0.0 0 : 0", "-.- - : -"]
    out = []
    for p in P:
        assert all(32 <= ord(ch) < 127 for ch in p), p
        if p.strip().startswith("~") or STEER.search(p):
            continue
        if p not in out:
            out.append(p)
    return out


ALPHA = ". : .:  ..::" + "()[]\"'#-+_,;!?*/\\|<>{}=@$%^&`" + "0123456789" + "eE" + "abcXYZ" + "infnaINFNA"
ALLPRINT = "".join(chr(c) for c in range(32, 127))


def random_junk(rng):
    while True:
        mode = rng.random()
        n = rng.choice([1, 2, 3, 5, 8, 13, 21, 40, 80])
        if mode < 0.5:
            s = "".join(rng.choice(ALPHA) for _ in range(n))
        elif mode < 0.8:
            s = "".join(rng.choice(ALLPRINT) for _ in range(n))
        else:   # item-shaped with random fields
            f = lambda k: "".join(rng.choice(ALLPRINT) for _ in range(rng.randint(0, k)))
            s = f(6) + "." + f(4) + " " + f(12) + ":" + f(10)
        if s.strip().startswith("~") or STEER.search(s):
            continue
        return s


def dup_lines(lines, sec):
    """junk that re-uses a genuine mnemonic of this very section (and a verbatim copy of a genuine line)"""
    out = []
    for i in (sec["items"][:1] + sec["items"][-1:]):
        l = lines[i]
        if STEER.search(l):
            continue
        out.append(l)                                    # verbatim copy
        m = re.match(r"\s*([^.:\s]+)", l)
        if m:
            out.append("%s.ZZ 424242 : junk with a genuine name" % m.group(1))
            out.append("%s : 7" % m.group(1))
    return [o for o in out if not STEER.search(o) and not o.strip().startswith("~")]


# ----------------------------------------------------------------------------- klass
def line_sig(s, genuine_upper):
    s = s.strip()
    if s == "":
        return "blank"
    if s[0] == "#":
        return "comment"
    colon = ":" in s
    head = s[:s.find(":")] if colon else s
    dot = "." in head
    if dot:
        t = s[1:] if s.startswith(".") else s
        name = t[:t.find(".")] if "." in t else t
    elif colon:
        name = head
    else:
        name = None
    if name is None:
        nc = "nodelim"
    elif name.strip() == "":
        nc = "empty"
    elif name.strip().upper() in genuine_upper:
        nc = "genuine"
    elif re.search(r":\d+$", name.strip()):
        nc = "suffixlike"
    else:
        nc = "other"
    return "c%dd%d-%s-%s-%s" % (colon, dot, nc, "alnum" if re.search(r"[A-Za-z0-9]", s) else "punct",
                                "long" if len(s) >= 1000 else "short")


_SCAN = {}


def klass_of(case, flag, engine):
    text = base_text(case["base"])
    if case["base"] not in _SCAN:
        _SCAN[case["base"]] = scan(text)
    lines, secs = _SCAN[case["base"]]
    sigs, kinds = set(), set()
    for si, site, junk in case["ins"]:
        sec = secs[si]
        gu = set()
        for i in sec["items"]:
            m = re.match(r"\s*\.?([^.:]*)", lines[i])
            if m:
                gu.add(m.group(1).strip().upper())
        sigs.add(line_sig(junk, gu))
        kinds.add(sec["kind"])
    return "sec=%s;ver=%s;flag=%d;engine=%s;case=%s;n=%d;junk=%s" % (
        "+".join(sorted(kinds)), version_of(text), flag, engine, case["mcase"], len(case["ins"]), "+".join(sorted(sigs)))


# ----------------------------------------------------------------------------- running one case
class _Collect(logging.Handler):
    def __init__(self):
        logging.Handler.__init__(self, level=logging.WARNING)
        self.msgs = []

    def emit(self, record):
        try:
            self.msgs.append(record.getMessage())
        except Exception:
            self.msgs.append(str(record.msg))


_H = None


def _setup_logging():
    global _H
    if _H is None:
        logging.disable(logging.NOTSET)
        lg = logging.getLogger("lasio")
        lg.handlers = []
        lg.propagate = False
        lg.setLevel(logging.WARNING)
        _H = _Collect()
        lg.addHandler(_H)
    return _H


def do_read(text, flag, engine, mcase):
    """-> (las or None, exception or None, warning messages)"""
    h = _setup_logging()
    h.msgs = []
    try:
        las = lasio.read(io.StringIO(text), ignore_header_errors=flag, engine=engine, mnemonic_case=mcase)
        return las, None, list(h.msgs)
    except BaseException as e:          # noqa - the property is about ANY exception
        if isinstance(e, (KeyboardInterrupt, SystemExit, MemoryError)):
            raise
        return None, e, list(h.msgs)


def item_tuple(it):
    v = it.value
    return (it.original_mnemonic, it.unit, (type(v).__name__, repr(v)), it.descr)


def snapshot(las):
    secs = {}
    for k, s in las.sections.items():
        if isinstance(s, str):
            continue
        secs[k] = [item_tuple(it) for it in list.__iter__(s)]
    data = [np.asarray(c.data) for c in list.__iter__(las.sections["Curves"])]
    return secs, data


_BASE = {}


def baseline(bid, engine, mcase):
    k = (bid, engine, mcase)
    if k not in _BASE:
        las, exc, msgs = do_read(base_text(bid), False, engine, mcase)
        if exc is not None:
            _BASE[k] = None
        else:
            s, d = snapshot(las)
            _BASE[k] = (s, d, msgs)
    return _BASE[k]


def interleave_ok(G, J, caps, proj):
    """is J = e0 G0 e1 G1 ... eN with |e_g| <= caps[g], comparing proj(item)?"""
    N = len(G)
    Gp = [proj(x) for x in G]
    Jp = [proj(x) for x in J]
    reach = {0}                       # J-indices reachable before gap g
    for g in range(N):
        nxt = set()
        for j in reach:
            for e in range(caps[g] + 1):
                if j + e < len(Jp) and Jp[j + e] == Gp[g]:
                    nxt.add(j + e + 1)
        reach = nxt
        if not reach:
            return False
    return any(0 <= len(Jp) - j <= caps[N] for j in reach)


def data_equal(a, b):
    if len(a) != len(b):
        return False, "curve count %d -> %d" % (len(a), len(b))
    for i, (x, y) in enumerate(zip(a, b)):
        if x.shape != y.shape:
            return False, "curve #%d shape %r -> %r" % (i, x.shape, y.shape)
        if x.dtype.kind == "f" and y.dtype.kind == "f":
            if not np.array_equal(x, y, equal_nan=True):
                return False, "curve #%d %r -> %r" % (i, x[:5], y[:5])
        elif x.dtype.kind != y.dtype.kind or x.tolist() != y.tolist():
            return False, "curve #%d %r(%s) -> %r(%s)" % (i, x[:5], x.dtype, y[:5], y.dtype)
    return True, ""


def build_text(case):
    """-> (text, junk_line_numbers_1based, per-section gap caps, stripped junk texts)"""
    text = base_text(case["base"])
    lines, secs = scan(text)
    at = collections.defaultdict(list)      # absolute line index -> junk lines put BEFORE that line
    caps = {}
    for si, site, junk in case["ins"]:
        sec = secs[si]
        assert sec["kind"] in "VWPX" and 0 <= site <= sec["end"] - sec["start"]
        pos = sec["start"] + site
        at[pos].append(junk)
        c = caps.setdefault(sec["key"], [0] * (len(sec["items"]) + 1))
        s = junk.strip()
        if s and not s.startswith("#"):
            gap = sum(1 for i in sec["items"] if i < pos)
            c[gap] += 1
    out, jnos = [], []
    for i in range(len(lines) + 1):
        for j in at.get(i, []):
            out.append(j)
            jnos.append(len(out))
        if i < len(lines):
            out.append(lines[i])
    return "\n".join(out), jnos, caps


def run_case(case):
    """-> (n_executions, [(clause, flag, engine, detail)], stats)"""
    fails = []
    st = collections.Counter()
    text, jnos, caps = build_text(case)
    junk = [j for _, _, j in case["ins"]]
    sjunk = [j.strip() for j in junk]
    live = [s for s in sjunk if s and not s.startswith("#")]
    mcase = case["mcase"]
    n = 0
    for flag, engine in case.get("runs", ALL_RUNS):
        base = baseline(case["base"], engine, mcase)
        if base is None:
            continue
        bsecs, bdata, bmsgs = base
        if True:
            las, exc, msgs = do_read(text, bool(flag), engine, mcase)
            n += 1
            if flag:
                if exc is not None:
                    fails.append(("flag-on-read-does-not-raise", flag, engine, "%s: %s" % (type(exc).__name__, str(exc)[:300])))
                    continue
                jsecs, jdata = snapshot(las)
                if set(jsecs) != set(bsecs):
                    fails.append(("genuine-items-kept-in-order", flag, engine, "header sections %r -> %r" % (sorted(bsecs), sorted(jsecs))))
                    continue
                extras = 0
                for k in bsecs:
                    G, J = bsecs[k], jsecs[k]
                    c = caps.get(k, [0] * (len(G) + 1))
                    if len(c) != len(G) + 1:
                        raise RuntimeError("harness: base section %r has %d items but %d item lines" % (k, len(G), len(c) - 1))
                    extras += len(J) - len(G)
                    st["extra items from junk (flag on)"] += max(0, len(J) - len(G))
                    if interleave_ok(G, J, c, lambda x: x):
                        continue
                    if interleave_ok(G, J, c, lambda x: x[0]):
                        fails.append(("genuine-item-fields-unchanged", flag, engine, "section %r: base %r ; with junk %r" % (k, G, J)))
                    else:
                        fails.append(("genuine-items-kept-in-order", flag, engine,
                                      "section %r: base mnemonics %r ; with junk %r ; junk per gap %r" % (k, [g[0] for g in G], [j[0] for j in J], c)))
                new = collections.Counter(msgs) - collections.Counter(bmsgs)
                nwarn = sum(cnt for m, cnt in new.items() if any(s in m for s in live))
                st["warnings naming a junk line (flag on)"] += nwarn
                if extras >= 0 and extras + nwarn < len(live) and not any(f[0].startswith("genuine") and f[1] == flag and f[2] == engine for f in fails):
                    fails.append(("skipped-with-a-warning", flag, engine,
                                  "%d junk lines, %d extra items, %d warnings naming a junk line; new warnings %r" % (len(live), extras, nwarn, list(new)[:3])))
                ok, why = data_equal(bdata, jdata)
                if not ok:
                    fails.append(("curve-data-unaltered", flag, engine, why))
            else:
                st["flag off: returned" if exc is None else "flag off: raised %s" % type(exc).__name__] += 1
                if exc is None:
                    continue
                if not isinstance(exc, lasio.exceptions.LASHeaderError):
                    fails.append(("flag-off-only-lasheadererror", flag, engine, "%s: %s" % (type(exc).__name__, str(exc)[:300])))
                    continue
                msg = str(exc)
                named = any(s and s in msg for s in live) or any(re.search(r"(?<!\d)%d(?!\d)" % ln, msg) for ln in jnos)
                if not named:
                    fails.append(("lasheadererror-names-the-line", flag, engine, "message %r ; junk at lines %r" % (msg[:300], jnos)))
    return n, fails, st


def work(chunk):
    out = []
    for case in chunk:
        try:
            n, fails, st = run_case(case)
        except RuntimeError as e:
            out.append((case, 0, [("HARNESS", 1, "-", str(e))], {}))
            continue
        out.append((case, n, fails, dict(st)))
    return out


# ----------------------------------------------------------------------------- enumeration
def eligible(bid, notes):
    """sections of a base file that are in the domain; None if the file is not usable"""
    try:
        text = base_text(bid)
    except Exception as e:
        notes.append("base %s left out: %r" % (bid, e))
        return None
    lines, secs = scan(text)
    if any(re.match(r"~[vwcpao]", lines[s["title"]].strip()) for s in secs) or version_of(text) not in ("1.2", "2.0"):
        notes.append("base %s left out: lower-case standard title or not LAS 1.2/2.0" % bid)
        return None
    keys = [s["key"] for s in secs if s["key"]]
    if len(keys) != len(set(keys)):
        notes.append("base %s left out: two sections map to one key" % bid)
        return None
    ok = []
    for engine in ("numpy", "normal"):
        for mcase in ("upper", "preserve"):
            b = baseline(bid, engine, mcase)
            if b is None:
                notes.append("base %s left out: not readable without the flag (%s,%s)" % (bid, engine, mcase))
                return None
            for si, s in enumerate(secs):
                if s["kind"] in "VWPX" and s["kind"] != "skip":
                    if len(b[0].get(s["key"], [])) != len(s["items"]):
                        notes.append("base %s left out: section %r has %d items for %d item lines" % (bid, s["key"], len(b[0].get(s["key"], [])), len(s["items"])))
                        return None
    for si, s in enumerate(secs):
        if s["kind"] in ("V", "W", "P", "X"):
            ok.append(si)
    return ok


def enumerate_cases(tier, seed, notes):
    rng = random.Random(1000003 * seed + 19)
    pool = adversarial_pool()
    quick = tier == "quick"
    bases = ["gen:%d" % i for i in range(N_GEN)] + ["ex:" + e for e in (EXAMPLES_QUICK if quick else EXAMPLES_THOROUGH)]
    cases = []
    for bid in bases:
        secs_ok = eligible(bid, notes)
        if not secs_ok:
            continue
        lines, secs = scan(base_text(bid))
        gen = bid.startswith("gen:")
        big = "6038187" in bid
        sites_all = [(si, site) for si in secs_ok for site in range(secs[si]["end"] - secs[si]["start"] + 1)]
        for si, site in sites_all:
            dups = dup_lines(lines, secs[si])
            # count = 1
            if quick:
                k1 = 30 if gen else 8
                singles = rng.sample(pool, k1) + dups[:2] + [random_junk(rng) for _ in range(6 if gen else 3)]
            elif big:
                singles = rng.sample(pool, 40) + dups + [random_junk(rng) for _ in range(10)]
            else:
                singles = list(pool) + dups + [random_junk(rng) for _ in range(80 if gen else 40)]
            for j in singles:
                cases.append({"base": bid, "ins": [[si, site, j]], "mcase": "upper" if rng.random() < 0.75 else "preserve"})
            # counts 2 and 3, contiguous at this site
            nmulti = (4 if gen else 2) if quick else (6 if big else (100 if gen else 50))
            for _ in range(nmulti):
                cnt = rng.choice((2, 3))
                js = []
                for _ in range(cnt):
                    r = rng.random()
                    js.append(rng.choice(pool) if r < 0.55 else (rng.choice(dups) if dups and r < 0.7 else random_junk(rng)))
                cases.append({"base": bid, "ins": [[si, site, j] for j in js], "mcase": "upper" if rng.random() < 0.75 else "preserve"})
        # counts 2..3 spread over different sites / sections
        nspread = (25 if gen else 12) if quick else (600 if gen else 300)
        for _ in range(nspread):
            cnt = rng.choice((2, 3))
            ins = []
            for _ in range(cnt):
                si, site = rng.choice(sites_all)
                ins.append([si, site, rng.choice(pool) if rng.random() < 0.7 else random_junk(rng)])
            cases.append({"base": bid, "ins": ins, "mcase": "upper" if rng.random() < 0.75 else "preserve"})
    # every adversarial line at least once, even in the quick tier (site/base chosen at random)
    if quick and cases:
        anchors = [c for c in cases if len(c["ins"]) == 1 and c["base"].startswith("gen:")]
        for j in pool:
            a = rng.choice(anchors)
            cases.append({"base": a["base"], "ins": [[a["ins"][0][0], a["ins"][0][1], j]], "mcase": "upper"})
    if quick:
        # flag on: both engines for every case; flag off: one engine per case, alternating (the header is parsed
        # before the engine matters); the thorough tier runs all four combinations for every case
        for i, c in enumerate(cases):
            c["runs"] = [[1, "numpy"], [1, "normal"], [0, ("numpy", "normal")[i % 2]]]
    return cases


def build_run(tier, seed):
    run = Run("C19",
              "a case = (base file, [(section, site, junk line)] with 1..3 junk lines, mnemonic_case); each case is executed "
              "with the flag on under both engines and with the flag off (both engines in the thorough tier, alternating in quick); a case is non-trivial when at least one junk line is neither blank "
              "nor a '#' comment (it reaches the line regex)",
              "readable LAS 1.2/2.0 base files (%d generated + tests/examples) x junk lines over printable ASCII (adversarial pool of %d "
              "+ seeded random + re-used genuine mnemonics; never starting with '~', never containing vers/wrap/dlm/null in any case) "
              "x every insertion site of ~V, ~W, ~P and custom sections" % (N_GEN, len(adversarial_pool())),
              "1..3 junk lines per file; line length <= 7010; quick tier samples the pool per site, thorough uses the whole pool per site")
    cases = enumerate_cases(tier, seed, run.notes)
    nproc = 4 if tier == "quick" else 16
    nproc = max(1, min(nproc, os.cpu_count() or 1))
    random.Random(seed).shuffle(cases)      # spreads the few slow (quadratic regex) lines over the chunks
    chunks = [cases[i:i + 12] for i in range(0, len(cases), 12)]
    if nproc > 1:
        ctx = multiprocessing.get_context("fork")
        with ctx.Pool(nproc) as pool:
            results = pool.imap(work, chunks)
            results = [r for ch in results for r in ch]
    else:
        results = [r for ch in map(work, chunks) for r in ch]
    stats = collections.Counter()
    for case, n, fails, st in results:
        stats.update(st)
        live = any(j.strip() and not j.strip().startswith("#") for _, _, j in case["ins"])
        key = (case["base"], case["mcase"], tuple((a, b, c) for a, b, c in case["ins"]))
        sample = None
        if live and len(run.samples) < 6 and len(case["ins"][0][2]) < 60 and (len(run.samples) < 3) == (len(case["ins"]) == 1):
            sample = case
        run.case(key, nontrivial=live, sample=sample, n=n)
        for clause, flag, engine, detail in fails:
            if clause == "HARNESS":
                run.notes.append("case skipped: %s" % detail)
                continue
            inp = dict(case)
            inp["runs"] = [[flag, engine]]
            run.fail(clause, klass_of(case, flag, engine), inp, detail)
    run.notes.append("measured: %d cases; %s" % (len(cases), "; ".join("%s = %d" % kv for kv in sorted(stats.items()))))
    run.notes.append("junk is excluded (domain narrowed) whenever the TEXT vers/wrap/dlm/null occurs anywhere in the line, "
                     "not only as its mnemonic; session names (:1/:2 suffixes) and index_unit are not compared; '~O' text is not compared; "
                     "flag off: a returning read() is accepted without further comparison")
    run.notes.append("LAS 3.0 bases, lower-case standard titles (~v ~w ...), non-ASCII files and ~C/~O/~A insertion are outside the stated domain and left out")
    return run


def replay_one(entry):
    inp = entry["input"]
    case = {"base": inp["base"], "ins": [list(x) for x in inp["ins"]], "mcase": inp["mcase"],
            "runs": [list(r) for r in inp.get("runs", ALL_RUNS)]}
    n, fails, _ = run_case(case)
    for clause, flag, engine, detail in fails:
        if clause == entry["clause"]:
            return True, detail
    return False, "clause %s holds on this input now (other failures: %r)" % (entry["clause"], [f[0] for f in fails])


if __name__ == "__main__":
    main("C19", build_run, replay_one)
