"""C20 bounded stand-in / CPython cross-check: every file lasio opens is closed
again, whatever fails and wherever.

Observation.  builtins.open / io.open (and any module-level alias of them inside
the lasio package) are replaced, for the duration of ONE lasio call, by a wrapper
that hands lasio a forwarding proxy around the real file object and records the
real object.  After the call returned or raised - with the exception object (and
therefore its traceback frames) still alive - the oracle reads `.closed` of the
REAL file objects:

  * every handle opened from lasio code during the call must be closed;
  * a file object supplied by the caller to write()/to_csv() must still be open;
  * after a failed call, no open file object is reachable from vars(las).

Faults.  (a) input-induced failures (no sections, LiDAR magic, header error,
reshape error, decoding error, formatting errors, csv dialect errors, unwritable
targets, /dev/full);  (b) an OSError injected at the k-th low-level operation
(open, read, readline, next, seek, tell, write, ...) on a handle lasio works with,
for EVERY k of a clean run of the same call.

The oracle does not use lasio's parsing/formatting results at all; it only looks
at file-object state.  close() itself is never made to fail.
"""
import sys
import os
sys.path.insert(0, os.path.dirname(os.path.abspath(__file__)))
from common import Run, main

import builtins
import csv
import errno
import inspect
import io
import pathlib
import random
import shutil
import tempfile

import numpy as np
import lasio
from lasio import LASFile

_REAL_OPEN = builtins.open          # identical to io.open on CPython 3
_THIN_WRAPPERS = ("codecs", "pathlib", "pathlib._local", "pathlib._abc")
FAULT_OPS = ("read", "readline", "readlines", "write", "writelines", "seek", "tell", "truncate", "flush")


# --------------------------------------------------------------------------
# instrumentation
# --------------------------------------------------------------------------
class Handle(object):
    def __init__(self, role, mode, name, owner):
        self.role, self.mode, self.name, self.owner = role, mode, name, owner   # owner: "lasio" | "caller"
        self.real = None
        self.proxy = None


class Tracker(object):
    def __init__(self, fault_at=None):
        self.handles = []        # strong references to the Handle records (and thereby to the real files)
        self.ops = []            # "role.op" in execution order
        self.fault_at = fault_at
        self.injected = None
        self.foreign = 0         # opens during the call that did not come from lasio code (not tracked)

    def tick(self, role, op):
        self.ops.append("%s.%s" % (role, op))
        if self.fault_at is not None and len(self.ops) == self.fault_at and self.injected is None:
            self.injected = OSError(errno.EIO, "C20 injected fault at operation #%d (%s.%s)" % (self.fault_at, role, op))
            raise self.injected

    def adopt(self, real, role):
        """wrap a file object supplied by the caller"""
        h = Handle(role, getattr(real, "mode", "?"), getattr(real, "name", "<memory>"), "caller")
        h.real = real
        h.proxy = FileProxy(self, h)
        self.handles.append(h)
        return h.proxy


class FileProxy(object):
    """forwards everything to the real file; the listed operations are counted
    and can be made to raise OSError before they reach the real file."""

    def __init__(self, tracker, handle):
        object.__setattr__(self, "_t", tracker)
        object.__setattr__(self, "_h", handle)

    def __getattr__(self, name):
        return getattr(object.__getattribute__(self, "_h").real, name)

    def __setattr__(self, name, value):
        setattr(self._h.real, name, value)

    def __iter__(self):
        return self

    def __next__(self):
        self._t.tick(self._h.role, "next")
        return next(self._h.real)

    def __enter__(self):
        self._h.real.__enter__()
        return self

    def __exit__(self, *a):
        return self._h.real.__exit__(*a)

    def close(self):
        return self._h.real.close()

    def __repr__(self):
        return "<C20 proxy of %r>" % (self._h.real,)


def _mk(op):
    def f(self, *a, **k):
        self._t.tick(self._h.role, op)
        return getattr(self._h.real, op)(*a, **k)
    f.__name__ = op
    return f


for _op in FAULT_OPS:
    setattr(FileProxy, _op, _mk(_op))

_ACTIVE = None


def _lasio_role(frame, mode):
    """role string if this open() was made by lasio code (directly, or through a thin
    stdlib wrapper such as codecs.open / Path.open called from lasio code), else None"""
    via = ""
    f = frame
    for _ in range(6):
        if f is None:
            return None
        mod = f.f_globals.get("__name__", "")
        if mod == "lasio" or mod.startswith("lasio."):
            return "%s:%s%s" % (f.f_code.co_name, mode, via)
        if mod in _THIN_WRAPPERS:
            via = "(via %s)" % mod.split(".")[0]
            f = f.f_back
            continue
        return None
    return None


def _patched_open(file, *args, **kwargs):
    t = _ACTIVE
    if t is None:
        return _REAL_OPEN(file, *args, **kwargs)
    mode = args[0] if args else kwargs.get("mode", "r")
    role = _lasio_role(sys._getframe(1), mode)
    if role is None:
        t.foreign += 1
        return _REAL_OPEN(file, *args, **kwargs)
    t.tick(role, "open")
    h = Handle(role, mode, str(file), "lasio")
    h.real = _REAL_OPEN(file, *args, **kwargs)
    h.proxy = FileProxy(t, h)
    t.handles.append(h)
    return h.proxy


class patched(object):
    def __init__(self, tracker):
        self.tracker = tracker
        self.saved = []

    def __enter__(self):
        global _ACTIVE
        for modname, mod in list(sys.modules.items()):
            if mod is None or not (modname == "lasio" or modname.startswith("lasio.")):
                continue
            for attr, val in list(vars(mod).items()):
                if val is _REAL_OPEN:
                    self.saved.append((mod, attr))
                    setattr(mod, attr, _patched_open)
        builtins.open = _patched_open
        io.open = _patched_open
        _ACTIVE = self.tracker
        return self.tracker

    def __exit__(self, *a):
        global _ACTIVE
        _ACTIVE = None
        builtins.open = _REAL_OPEN
        io.open = _REAL_OPEN
        for mod, attr in self.saved:
            setattr(mod, attr, _REAL_OPEN)
        return False


# --------------------------------------------------------------------------
# scanning a LASFile for file objects
# --------------------------------------------------------------------------
def _is_filelike(x):
    if isinstance(x, (io.IOBase, FileProxy)):
        return True
    t = type(x)
    if t.__module__ in ("builtins", "numpy", "lasio.las_items", "lasio.las"):
        return False
    try:
        return hasattr(x, "close") and isinstance(getattr(x, "closed", None), bool)
    except Exception:
        return False


def open_files_reachable(root, maxdepth=10):
    """open file objects reachable from vars(root): dict/list/tuple/set members,
    instance attributes, __slots__, object arrays, frames of suspended generators"""
    found, seen = [], set()
    stack = [(v, "." + k, 1) for k, v in vars(root).items()]
    while stack:
        x, path, d = stack.pop()
        if id(x) in seen or d > maxdepth:
            continue
        seen.add(id(x))
        if x is None or isinstance(x, (str, bytes, int, float, complex, bool, type)):
            continue
        if _is_filelike(x):
            try:
                closed = x.closed
            except Exception:
                closed = None
            if closed is False:
                found.append("%s -> %r" % (path, x))
            continue
        if isinstance(x, np.ndarray):
            if x.dtype == object:
                for i, y in enumerate(x.flat):
                    stack.append((y, "%s[%d]" % (path, i), d + 1))
            continue
        if isinstance(x, dict):
            for k, v in x.items():
                stack.append((k, path + "<key>", d + 1))
                stack.append((v, "%s[%r]" % (path, k), d + 1))
            # a dict subclass may carry attributes as well
        if isinstance(x, (list, tuple, set, frozenset)):
            for i, y in enumerate(list(x)):
                stack.append((y, "%s[%d]" % (path, i), d + 1))
        if inspect.isgenerator(x) and x.gi_frame is not None:
            for k, v in x.gi_frame.f_locals.items():
                stack.append((v, "%s<gen %s>.%s" % (path, x.__name__, k), d + 1))
        dd = getattr(x, "__dict__", None)
        if isinstance(dd, dict):
            for k, v in dd.items():
                stack.append((v, "%s.%s" % (path, k), d + 1))
        for klass in type(x).__mro__:
            for s in getattr(klass, "__slots__", ()) or ():
                if isinstance(s, str) and hasattr(x, s):
                    try:
                        stack.append((getattr(x, s), "%s.%s" % (path, s), d + 1))
                    except Exception:
                        pass
    return found


def lasfiles_in_traceback(exc):
    out, seen = [], set()
    e = exc
    while e is not None and id(e) not in seen:
        seen.add(id(e))
        tb = e.__traceback__
        while tb is not None:
            s = tb.tb_frame.f_locals.get("self")
            if isinstance(s, LASFile) and all(s is not o for o in out):
                out.append(s)
            tb = tb.tb_next
        e = e.__cause__ or e.__context__
    return out


def referenced_from_traceback(exc, proxy):
    tb = exc.__traceback__
    while tb is not None:
        for v in tb.tb_frame.f_locals.values():
            if v is proxy:
                return True
        tb = tb.tb_next
    return False


# --------------------------------------------------------------------------
# fixtures (built by the harness, bytes on disk)
# --------------------------------------------------------------------------
def las_text(ncurves=2, nrows=3, wrap=False, other=False, params=False, strings=False, negative=False, version="2.0"):
    names = ["DEPT"] + ["C%d" % i for i in range(1, ncurves)]
    t = ["~Version", "VERS. %s : v" % version, "WRAP. %s : w" % ("YES" if wrap else "NO"),
         "~Well", "STRT.M 1.0 : s", "STOP.M %d.0 : s" % nrows, "STEP.M 1.0 : s", "NULL. -999.25 : n", "WELL. W1 : well"]
    if params:
        t += ["~Params", "BHT.DEGC 35.5 : bottom hole temp", "# a comment", "MUD. GEL : mud"]
    t += ["~Curves"] + ["%s.M : c%d" % (n, i) for i, n in enumerate(names)]
    if other:
        t += ["~Other", "free text line one", "second line, with: punctuation."]
    t += ["~ASCII"]
    for r in range(nrows):
        vals = []
        for c in range(ncurves):
            v = "%.2f" % ((r + 1) * (1.0 if c == 0 else 10.0 * c + 0.25))
            if negative and c > 0:
                v = "-" + v
            if strings and c == ncurves - 1 and ncurves > 1:
                v = "abc%d" % r
            vals.append(v)
        if wrap:
            t.append(vals[0])
            rest = vals[1:]
            for i in range(0, len(rest), 3):
                t.append(" ".join(rest[i:i + 3]))
        else:
            t.append(" ".join(vals))
    return "\n".join(t) + "\n"


def fixture_bytes(fx):
    """fx: {"kind":..., + las_text params}; deterministic"""
    kind = fx.get("kind", "ok")
    p = {k: fx[k] for k in ("ncurves", "nrows", "wrap", "other", "params", "strings", "negative", "version") if k in fx}
    text = las_text(**p)
    if kind == "ok":
        return text.encode("ascii")
    if kind == "nosections":
        return b"this is not a LAS file\nno tilde anywhere\n1 2 3\n"
    if kind == "empty":
        return b""
    if kind == "lidar":
        return b"LASF\x00\x00\x00\x00\x01\x02 binary-ish LiDAR header\n" + b"\x00" * 64
    if kind == "headererr":
        return text.replace("STEP.M 1.0 : s", "this line is bad").encode("ascii")
    if kind == "reshape":
        lines = text.rstrip("\n").split("\n")
        lines[-1] = lines[-1] + " 7.0"
        return ("\n".join(lines) + "\n").encode("ascii")
    if kind == "undecodable-early":
        return text.replace(": c0", ": c0 caf\xe9").encode("latin-1")
    if kind == "undecodable-late":
        # the offending byte lies beyond two 8 KiB decoder chunks, so the error comes from a later readline/next
        lines = text.rstrip("\n").split("\n")
        lines[-1] = lines[-1].replace(".", "\xe9", 1)
        return ("\n".join(lines) + "\n").encode("latin-1")
    if kind == "cp1252":
        return ("# caf\xe9 first line\n" + text).encode("latin-1")
    if kind == "latin1only":
        return ("# byte \x81 undefined in cp1252\n" + text).encode("latin-1")
    if kind == "bom":
        return b"\xef\xbb\xbf" + text.encode("utf-8")
    if kind == "cp1252-headererr":
        return ("# caf\xe9 first line\n" + text.replace("STEP.M 1.0 : s", "this line is bad")).encode("latin-1")
    raise ValueError(kind)


def build_las(fx, variant=None):
    """a LASFile to write, assembled through the object API (no file is opened, no text is parsed)"""
    las = LASFile()
    if variant == "empty-lasfile":
        return las
    ncurves, nrows = fx.get("ncurves", 2), fx.get("nrows", 3)
    for c in range(ncurves):
        if fx.get("strings") and c == ncurves - 1 and ncurves > 1:
            data = np.array(["abc%d" % r for r in range(nrows)])
        else:
            data = np.array([(r + 1) * (1.0 if c == 0 else 10.0 * c + 0.25) * (-1.0 if fx.get("negative") and c else 1.0)
                             for r in range(nrows)])
        las.append_curve("DEPT" if c == 0 else "C%d" % c, data, unit="M", descr="c%d" % c)
    las.well["WELL"] = lasio.HeaderItem("WELL", value="W1", descr="well")
    if fx.get("params"):
        las.params["BHT"] = lasio.HeaderItem("BHT", unit="DEGC", value=35.5, descr="bottom hole temp")
    if fx.get("other"):
        las.other = "free text line one\nsecond line, with: punctuation."
    if variant == "no-STRT":
        del las.well["STRT"]
    if variant == "comma-mnemonic":
        las.curves[-1].original_mnemonic = "A,B"
    return las


# --------------------------------------------------------------------------
# one execution
# --------------------------------------------------------------------------
READ_CALLS = ("read-str", "read-Path")
_ON_DISK = {}      # path -> bytes last written there by the harness (fixtures are only ever read by lasio)
OUT_CALLS = ("write-path", "to_csv-path", "write-fileobj", "to_csv-fileobj")


def _kw(opts):
    kw = dict(opts or {})
    if "column_fmt" in kw:
        kw["column_fmt"] = {int(k): v for k, v in kw["column_fmt"].items()}
    if "quoting" in kw:
        kw["quoting"] = getattr(csv, kw["quoting"])
    return kw


def execute(case, tmp, fault_at=None):
    """run ONE lasio call as described by `case`; returns (violations, info).
    case = {"call","api","fixture","opts","target","supplied","variant"}"""
    call, api = case["call"], case.get("api", "method")
    fx, opts = case.get("fixture", {}), _kw(case.get("opts"))
    tracker = Tracker(fault_at)
    las, supplied_real, cleanup = None, None, []
    target = case.get("target", "tmp")

    if call in READ_CALLS:
        if target == "tmp":
            path = os.path.join(tmp, "in.las")
            data = fixture_bytes(fx)
            if _ON_DISK.get(path) != data:
                with _REAL_OPEN(path, "wb") as f:
                    f.write(data)
                _ON_DISK.clear()
                _ON_DISK[path] = data
        elif target == "missing":
            path = os.path.join(tmp, "does-not-exist.las")
        elif target == "directory":
            path = os.path.join(tmp, "a-directory.las")
            os.makedirs(path, exist_ok=True)
        else:
            raise ValueError(target)
        arg = pathlib.Path(path) if call == "read-Path" else path
        if api == "method":
            las = LASFile()
            thunk = lambda: las.read(arg, **opts)
        else:
            thunk = lambda: lasio.read(arg, **opts)
    else:
        las = build_las(fx, case.get("variant"))
        meth = "write" if call.startswith("write") else "to_csv"
        if call.endswith("-path"):
            if target == "tmp":
                arg = os.path.join(tmp, "out.txt")
            elif target == "missing-dir":
                arg = os.path.join(tmp, "no-such-dir", "out.txt")
            elif target == "directory":
                arg = os.path.join(tmp, "a-directory.out")
                os.makedirs(arg, exist_ok=True)
            elif target == "dev-full":
                arg = "/dev/full"
            else:
                raise ValueError(target)
        else:
            sup = case.get("supplied", "realfile-proxy")
            if sup.startswith("realfile"):
                supplied_real = _REAL_OPEN(os.path.join(tmp, "caller.txt"), "w", newline="" if meth == "to_csv" else None)
            else:
                supplied_real = io.StringIO()
            cleanup.append(supplied_real)
            arg = tracker.adopt(supplied_real, "caller:" + sup.split("-")[0]) if sup.endswith("-proxy") else supplied_real
        bound = getattr(las, meth)
        thunk = lambda: bound(arg, **opts)

    pre = open_files_reachable(las) if las is not None else []
    exc = None                      # kept alive (with its traceback) until all checks are done
    try:
        with patched(tracker):
            try:
                result = thunk()
                if call in READ_CALLS and api == "func":
                    las = result
            except Exception as e:
                exc = e
        viol = []
        raised = exc is not None
        when = "raise" if raised else "return"
        own = [h for h in tracker.handles if h.owner == "lasio"]
        for h in own:
            if not h.real.closed:
                viol.append(("own-handle-closed-on-" + when,
                             "handle %s (%s, mode %s) opened by lasio is still open after the call %s; "
                             "referenced from the live traceback: %s"
                             % (h.role, os.path.basename(h.name), h.mode,
                                ("raised " + repr(exc)[:160]) if raised else "returned",
                                referenced_from_traceback(exc, h.proxy) if raised else "n/a")))
        if supplied_real is not None and supplied_real.closed:
            viol.append(("caller-handle-left-open-on-" + when,
                         "file object supplied by the caller (%s) was closed by the call, which %s"
                         % (case.get("supplied"), ("raised " + repr(exc)[:160]) if raised else "returned")))
        if raised and not pre:
            objs = [las] if las is not None else lasfiles_in_traceback(exc)
            for o in objs:
                held = open_files_reachable(o)
                if held:
                    viol.append(("no-open-handle-on-lasfile-after-failure", "; ".join(held)[:400] + " after " + repr(exc)[:120]))
        info = {
            "ops": list(tracker.ops), "n_own": len(own), "n_handles": len(tracker.handles),
            "raised": type(exc).__name__ if raised else None,
            "injected": tracker.injected is not None,
            "injected_propagated": raised and _chain_has(exc, tracker.injected),
            "foreign": tracker.foreign, "pre_held": bool(pre),
        }
        return viol, info
    finally:
        exc = None
        for h in tracker.handles:
            try:
                h.real.close()
            except Exception:
                pass
        for f in cleanup:
            try:
                f.close()
            except Exception:
                pass


def _chain_has(exc, target):
    seen = set()
    while exc is not None and id(exc) not in seen:
        if exc is target:
            return True
        seen.add(id(exc))
        exc = exc.__cause__ or exc.__context__
    return False


# --------------------------------------------------------------------------
# classification (from the input and the clean trace only, never from the symptom)
# --------------------------------------------------------------------------
def engine_of(case):
    return (case.get("opts") or {}).get("engine", "numpy")


def klass_input(case, why):
    k = "call=%s;fault=input;why=%s" % (case["call"], why)
    if case["call"] in READ_CALLS:
        k += ";engine=%s;api=%s" % (engine_of(case), case.get("api", "method"))
    return k


def klass_fault(case, opname):
    k = "call=%s;fault=oserror;at=%s" % (case["call"], opname)
    if case["call"] in READ_CALLS:
        k += ";engine=%s;api=%s" % (engine_of(case), case.get("api", "method"))
    return k


def case_key(case, k=None):
    return (case["call"], case.get("api", ""), case.get("label", ""), case.get("supplied", ""), engine_of(case), k)


# --------------------------------------------------------------------------
# the case lists
# --------------------------------------------------------------------------
SMALL = {"ncurves": 2, "nrows": 2}


def read_clean_configs(tier, rng):
    cfgs = [
        ("default-chardet", dict(SMALL, kind="ok"), {}),
        ("engine-normal", dict(SMALL, kind="ok"), {"engine": "normal"}),
        ("adhoc-ascii", dict(SMALL, kind="ok"), {"autodetect_encoding": False}),
        ("adhoc-cp1252", dict(SMALL, kind="cp1252"), {"autodetect_encoding": False}),
        ("adhoc-latin1", dict(SMALL, kind="latin1only"), {"autodetect_encoding": False}),
        ("bom", dict(SMALL, kind="bom"), {}),
        ("explicit-utf8", dict(SMALL, kind="ok"), {"encoding": "utf-8"}),
        ("numpy-falls-back", dict(ncurves=3, nrows=2, strings=True, kind="ok"), {}),
        ("wrapped-other-params", dict(ncurves=5, nrows=2, wrap=True, other=True, params=True, kind="ok"), {}),
        ("hyphen-in-every-line", dict(ncurves=2, nrows=2, negative=True, kind="ok"), {"engine": "normal"}),
        ("ignore-data", dict(SMALL, kind="ok"), {"ignore_data": True}),
        ("sniff-all-bytes", dict(SMALL, kind="ok"), {"autodetect_encoding_chars": None}),
    ]
    if tier != "quick":
        cfgs += [
            ("v12-other", dict(ncurves=3, nrows=4, other=True, version="1.2", kind="ok"), {"engine": "normal"}),
            ("chardet-named", dict(SMALL, kind="cp1252"), {"autodetect_encoding": "chardet"}),
            ("null-policy-none", dict(ncurves=3, nrows=3, kind="ok"), {"null_policy": "none"}),
            ("dtypes-list", dict(ncurves=2, nrows=3, kind="ok"), {"dtypes": [float, str]}),
        ]
        for i in range(30):
            fx = dict(ncurves=rng.randint(1, 6), nrows=rng.randint(2, 12), wrap=rng.random() < 0.3,
                      other=rng.random() < 0.4, params=rng.random() < 0.4, strings=rng.random() < 0.25,
                      negative=rng.random() < 0.25, version=rng.choice(["1.2", "2.0"]),
                      kind=rng.choice(["ok", "ok", "ok", "bom", "cp1252"]))
            opts = {"engine": rng.choice(["numpy", "normal"])}
            if fx["kind"] == "cp1252" or rng.random() < 0.3:
                opts["autodetect_encoding"] = False
            cfgs.append(("random-%d" % i, fx, opts))
    return cfgs


def read_input_cases():
    big = dict(ncurves=3, nrows=900)
    out = []
    for why, fx, opts, target in [
        ("no-sections", dict(SMALL, kind="nosections"), {}, "tmp"),
        ("empty-file", dict(SMALL, kind="empty"), {}, "tmp"),
        ("lidar-magic", dict(SMALL, kind="lidar"), {}, "tmp"),
        ("header-error", dict(SMALL, kind="headererr"), {}, "tmp"),
        ("reshape-error", dict(ncurves=3, nrows=3, kind="reshape"), {}, "tmp"),
        ("reshape-error-wrapped", dict(ncurves=5, nrows=3, wrap=True, kind="reshape"), {}, "tmp"),
        ("undecodable-strict-ascii-early", dict(SMALL, kind="undecodable-early"), {"encoding": "ascii", "encoding_errors": "strict"}, "tmp"),
        ("undecodable-strict-ascii-late", dict(big, kind="undecodable-late"), {"encoding": "ascii", "encoding_errors": "strict"}, "tmp"),
        ("undecodable-strict-utf8-late", dict(big, kind="undecodable-late"), {"encoding": "utf-8", "encoding_errors": "strict"}, "tmp"),
        ("nonascii-adhoc-cp1252-then-header-error", dict(SMALL, kind="cp1252-headererr"), {"autodetect_encoding": False}, "tmp"),
        ("missing-path", dict(SMALL, kind="ok"), {}, "missing"),
        ("path-is-directory", dict(SMALL, kind="ok"), {}, "directory"),
    ]:
        for engine in ("numpy", "normal"):
            for call in READ_CALLS:
                for api in ("method", "func"):
                    out.append({"call": call, "api": api, "fixture": fx, "opts": dict(opts, engine=engine),
                                "target": target, "label": "input:" + why, "why": why})
    return out


def out_clean_configs(tier, rng):
    base = dict(ncurves=3, nrows=3, kind="ok")
    w = [
        ("write-default", base, {}),
        ("write-v12-wrap", dict(ncurves=6, nrows=2, kind="ok"), {"version": 1.2, "wrap": True}),
        ("write-mnemonics-header", base, {"mnemonics_header": True, "fmt": "%.2f"}),
        ("write-strings", dict(ncurves=3, nrows=2, strings=True, kind="ok"), {}),
    ]
    c = [
        ("csv-default", base, {}),
        ("csv-brackets", base, {"units_loc": "[]"}),
        ("csv-no-header", base, {"mnemonics": False, "units": False}),
        ("csv-crlf-semicolon", base, {"lineterminator": "\r\n", "delimiter": ";"}),
    ]
    if tier != "quick":
        for i in range(16):
            fx = dict(ncurves=rng.randint(1, 7), nrows=rng.randint(1, 20), strings=rng.random() < 0.3,
                      other=rng.random() < 0.3, params=rng.random() < 0.3, kind="ok")
            w.append(("write-random-%d" % i, fx, {"version": rng.choice([1.2, 2.0]), "wrap": rng.random() < 0.4,
                                                 "fmt": rng.choice(["%.5f", "%.2f", "%10.3f"])}))
            c.append(("csv-random-%d" % i, fx, {"units_loc": rng.choice(["line", "()", "[]"])}))
    return w, c


def out_input_cases():
    base = dict(ncurves=3, nrows=3, kind="ok")
    out = []

    def add(call, why, opts=None, variant=None, target="tmp", fx=base, supplied=None):
        c = {"call": call, "fixture": fx, "opts": opts or {}, "target": target, "label": "input:" + why, "why": why}
        if variant:
            c["variant"] = variant
        if supplied:
            c["supplied"] = supplied
        out.append(c)

    sup_kinds = ("realfile-proxy", "stringio-proxy", "realfile-raw", "stringio-raw")
    for why, opts, variant in [("fmt-%q", {"fmt": "%q"}, None),
                               ("fmt-%q-fixed-width", {"fmt": "%q", "len_numeric_field": 12}, None),
                               ("column_fmt-%q", {"column_fmt": {"1": "%q"}}, None),
                               ("no-STRT-item", {}, "no-STRT")]:
        add("write-path", why, opts, variant)
        for s in sup_kinds:
            add("write-fileobj", why, opts, variant, supplied=s)
    for why, opts, variant in [("delimiter-ab", {"delimiter": "ab"}, None),
                               ("quote-none-needs-escape", {"quoting": "QUOTE_NONE"}, "comma-mnemonic"),
                               ("empty-lasfile", {}, "empty-lasfile")]:
        add("to_csv-path", why, opts, variant)
        for s in sup_kinds:
            add("to_csv-fileobj", why, opts, variant, supplied=s)
    for call in ("write-path", "to_csv-path"):
        add(call, "target-in-missing-directory", target="missing-dir")
        add(call, "target-is-directory", target="directory")
        if os.path.exists("/dev/full") and os.access("/dev/full", os.W_OK):
            add(call, "dev-full-error-at-close", target="dev-full", fx=dict(ncurves=2, nrows=2, kind="ok"))
            add(call, "dev-full-error-in-write", target="dev-full", fx=dict(ncurves=3, nrows=1500, kind="ok"))
    # successes with caller-supplied objects
    for s in sup_kinds:
        add("write-fileobj", "none(success)", supplied=s)
        add("to_csv-fileobj", "none(success)", supplied=s)
    add("write-path", "none(success)")
    add("to_csv-path", "none(success)")
    return out


# --------------------------------------------------------------------------
# driving
# --------------------------------------------------------------------------
SAMPLED = {("read-str", "method", "adhoc-cp1252"), ("read-Path", "func", "default-chardet"),
           ("write-path", "method", "write-default"), ("to_csv-path", "method", "csv-default")}


class Stats(object):
    def __init__(self):
        self.swallowed = 0
        self.expected_raise_but_returned = []
        self.foreign = 0
        self.max_ops = 0
        self.fault_points = 0
        self.clean_run_raised = []


def report(run, case, klass, viol, k=None):
    inp = {kk: case[kk] for kk in ("call", "api", "fixture", "opts", "target", "supplied", "variant", "label") if kk in case}
    if k is not None:
        inp["fault_at"] = k
    for clause in sorted(set(c for c, _ in viol)):
        detail = [d for c, d in viol if c == clause][0]
        run.fail(clause, klass, inp, detail)


def run_input_case(run, st, case, tmp):
    viol, info = execute(case, tmp)
    st.foreign += info["foreign"]
    if not case["why"].startswith("none") and info["raised"] is None:
        st.expected_raise_but_returned.append(case["label"] + "/" + case["call"])
    run.case(case_key(case), nontrivial=info["n_handles"] > 0,
             sample={"case": case["label"], "call": case["call"], "raised": info["raised"], "handles": info["n_handles"]}
             if (case["why"], case["call"], case.get("api", "method"), engine_of(case)) in
                (("header-error", "read-str", "method", "numpy"), ("fmt-%q", "write-path", "method", "numpy")) else None)
    report(run, case, klass_input(case, case["why"]), viol)
    return info


def run_fault_enumeration(run, st, case, tmp, sample=False):
    viol, clean = execute(case, tmp)
    st.foreign += clean["foreign"]
    if clean["raised"] is not None:
        # the call fails for a reason that belongs to another property (e.g. the 1 x 1 data section):
        # it is one more input-induced failure - handles are checked, no fault positions are enumerated
        st.clean_run_raised.append("%s/%s:%s" % (case["label"], case["call"], clean["raised"]))
        run.case(case_key(case, 0), nontrivial=clean["n_handles"] > 0)
        report(run, case, klass_input(case, "none(clean-run)"), viol)
        return
    if clean["n_handles"] == 0:
        raise RuntimeError("instrumentation saw no handle in the clean run of %r" % (case,))
    run.case(case_key(case, 0), nontrivial=True,
             sample={"case": case["label"], "call": case["call"], "api": case.get("api"), "clean_ops": len(clean["ops"]),
                     "trace_head": clean["ops"][:8]} if sample else None)
    report(run, case, klass_input(case, "none(clean-run)"), viol)
    ops = clean["ops"]
    st.max_ops = max(st.max_ops, len(ops))
    for k in range(1, len(ops) + 1):
        viol, info = execute(case, tmp, fault_at=k)
        if not info["injected"] or info["ops"][:k] != ops[:k]:
            raise RuntimeError("non-deterministic trace for %r at k=%d: %r vs %r" % (case, k, info["ops"][:k][-3:], ops[:k][-3:]))
        st.fault_points += 1
        if info["raised"] is None:
            st.swallowed += 1
        run.case(case_key(case, k), nontrivial=True)
        report(run, case, klass_fault(case, ops[k - 1]), viol, k)


def all_fault_cases(tier, rng):
    cases = []
    for label, fx, opts in read_clean_configs(tier, rng):
        for call in READ_CALLS:
            for api in ("method", "func"):
                cases.append({"call": call, "api": api, "fixture": fx, "opts": opts, "target": "tmp", "label": label})
    w, c = out_clean_configs(tier, rng)
    for call_base, cfgs in (("write", w), ("to_csv", c)):
        for label, fx, opts in cfgs:
            cases.append({"call": call_base + "-path", "fixture": fx, "opts": opts, "target": "tmp", "label": label})
            for sup in ("realfile-proxy", "stringio-proxy"):
                cases.append({"call": call_base + "-fileobj", "fixture": fx, "opts": opts, "supplied": sup, "label": label + "/" + sup})
    return cases


def build_run(tier, seed):
    rng = random.Random("C20-%d" % seed)
    run = Run("C20",
              "one case = one lasio call (read(str path), read(Path), write(path), to_csv(path), write(fileobj), to_csv(fileobj)) "
              "x one failure point (an input-induced failure, or OSError injected at operation k of the clean trace); "
              "non-trivial when at least one handle (opened by lasio or supplied by the caller) existed to be observed",
              "call kinds x fixtures built by the harness x option sets x failure points",
              "every k in 1..n(clean run) for each (call, fixture, options) of the tier; fixtures <= 7 curves x 20 rows "
              "(input-induced decode/ENOSPC cases up to 1500 rows)")
    st = Stats()
    tmp = tempfile.mkdtemp(prefix="c20-", dir=os.environ.get("VERIF_SCRATCH", "/var/tmp"))
    try:
        for case in read_input_cases() + out_input_cases():
            run_input_case(run, st, case, tmp)
        for case in all_fault_cases(tier, rng):
            run_fault_enumeration(run, st, case, tmp, sample=(case["call"], case.get("api", "method"), case["label"]) in SAMPLED)
    finally:
        shutil.rmtree(tmp, ignore_errors=True)
    run.exhaustive = False
    run.notes += [
        "fault positions are enumerated completely (every k of the clean trace) for each listed (call, fixture, options); "
        "the fixture/option list itself is a sample, hence exhaustive=false",
        "fault points executed: %d (longest clean trace %d operations); injected faults swallowed by lasio "
        "(numpy engine falls back to the normal engine; call returned): %d - handles are checked on return in that case"
        % (st.fault_points, st.max_ops, st.swallowed),
        "open() is counted as an operation (a failing 2nd/3rd open must not leak the earlier handles); close() is never made to fail",
        "only opens made from lasio code (directly or through codecs/pathlib) are tracked; other opens during the calls "
        "(chardet, linecache, numpy internals): %d, passed through untouched" % st.foreign,
        "the tracker holds strong references, so `closed` means lasio closed the handle itself (explicitly or via `with`), "
        "not that CPython's reference counting did; each failure detail says whether the live traceback alone references the handle",
        "left out: URL input, file objects supplied to read() (the statement is silent on them), to_excel/stack_curves, "
        "non-documented argument types (e.g. mnemonics=5)",
    ]
    if st.clean_run_raised:
        run.notes.append("configurations whose fault-free run already raised (handles checked, no fault enumeration): %s"
                         % sorted(set(st.clean_run_raised)))
    if st.expected_raise_but_returned:
        run.notes.append("input cases meant to fail that returned normally (checked on return only): %s"
                         % sorted(set(st.expected_raise_but_returned)))
    return run


def replay_one(entry):
    case = dict(entry["input"])
    k = case.pop("fault_at", None)
    tmp = tempfile.mkdtemp(prefix="c20-", dir=os.environ.get("VERIF_SCRATCH", "/var/tmp"))
    try:
        viol, info = execute(case, tmp, fault_at=k)
    finally:
        shutil.rmtree(tmp, ignore_errors=True)
    for clause, detail in viol:
        if clause == entry["clause"]:
            return True, detail
    return False, "clause %s holds on this input now (raised=%s, handles=%d, other failures: %r)" % (
        entry["clause"], info["raised"], info["n_handles"], viol)


if __name__ == "__main__":
    main("C20", build_run, replay_one)
