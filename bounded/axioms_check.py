"""Validation of the assumed string/library axioms (T-str, T-re) against CPython
and numpy, by exhaustive enumeration of short strings.  Run by vcheck for every
property whose proof uses them:  /venv/bin/python axioms_check.py --out r.json

The z3-side definitions live in /verif/specs (las_items.py: usefulf, keyf, suf,
issuf; reader_num.py: L_INT, L_FLOAT_NUM, L_FLOAT_WORD via pyvc/rx.py, whose
to_py() patterns are imported here - one source for both uses)."""
import itertools
import json
import os
import re
import sys
import argparse

HERE = os.path.dirname(os.path.abspath(__file__))
sys.path.insert(0, os.path.dirname(HERE))


def strings(alpha, maxlen):
    for n in range(maxlen + 1):
        for t in itertools.product(alpha, repeat=n):
            yield "".join(t)


def suf(u, k):
    return u + ":%d" % k


def issuf(s, u):
    if not s.startswith(u + ":"):
        return False
    rest = s[len(u) + 1:]
    return re.fullmatch(r"[1-9][0-9]*", rest) is not None


def usefulf(o):
    return "UNKNOWN" if o.strip() == "" else o


def keyf(b, x):
    return x.upper() if b else x


def check_tstr(fails, counts):
    alpha = [" ", "\n", "~", "#", "a", "A", "1", ":"]
    S = list(strings(alpha, 4))
    S3 = [s for s in S if len(s) <= 3]
    n = 0
    for x in S:
        n += 1
        st = x.strip()
        if st.strip() != st:
            fails.append(("strip-idempotent", x))
        if x.strip("\n").strip() != x.strip():
            fails.append(("strip(strip_nl(x))=strip(x)", x))
        if len(st) > len(x) or len(x.strip("\n")) > len(x):
            fails.append(("strip-shrinks", x))
        if x.strip() == x and x.strip("\n") != x:
            fails.append(("strip(x)=x -> strip_nl(x)=x", x))
        if x.upper().upper() != x.upper():
            fails.append(("upper-idempotent", x))
        if x.lower().upper() != x.upper():
            fails.append(("upper(lower(x))=upper(x)", x))
        for k in (1, 2, 10):
            if keyf(True, suf(x, k)) != suf(keyf(True, x), k):
                fails.append(("key-of-suf", (x, k)))
            if not issuf(suf(x, k), x):
                fails.append(("issuf-intro", (x, k)))
    # binary axioms on shorter strings
    for u in S3:
        for v in S3:
            n += 1
            for j in (1, 2, 12):
                for k in (1, 2, 12):
                    if suf(u, j) == suf(v, k) and not (u == v and j == k):
                        fails.append(("suf-injective", (u, j, v, k)))
            if issuf(u, v):
                for b in (True, False):
                    if not issuf(keyf(b, u), keyf(b, v)):
                        fails.append(("issuf-key", (u, v, b)))
    # issuf functional: w = u:k = v:k'
    for w in S:
        us = [u for u in S if issuf(w, u)] if ":" in w else []
        n += 1
        if len(set(us)) > 1:
            fails.append(("issuf-functional", (w, us)))
    counts["T-str"] = n


def check_tre(fails, counts):
    import numpy as np
    import importlib.util as _u
    _sp = _u.spec_from_file_location('num_lang', os.path.join(os.path.dirname(HERE), 'specs', 'num_lang.py'))
    N = _u.module_from_spec(_sp); _sp.loader.exec_module(N)
    pat_int = re.compile(N.L_INT.to_py())
    pat_fn = re.compile(N.L_FLOAT_NUM.to_py())
    pat_fw = re.compile(N.L_FLOAT_WORD.to_py())
    sub_pat, sub_rep = re.compile(r"(\d),(\d)"), r"\1.\2"
    alpha = ["0", "1", "9", "+", "-", ".", ",", "e", "E", " ", "n", "a", "i", "f", "x", "I", "N"]
    n = 0
    for s in strings(alpha, 5):
        if "_" in s:
            continue
        n += 1
        try:
            np.int64(s)
            ok_i = True
        except OverflowError:
            ok_i = True     # in the language; out of the 64-bit range
        except Exception:
            ok_i = False
        if ok_i != (pat_int.fullmatch(s) is not None):
            fails.append(("L_INT", s))
        try:
            v = np.float64(s)
            ok_f = True
        except Exception:
            ok_f = False
        in_fn, in_fw = pat_fn.fullmatch(s) is not None, pat_fw.fullmatch(s) is not None
        if ok_f != (in_fn or in_fw):
            fails.append(("L_FLOAT", s))
        if ok_f and in_fw and np.isfinite(v):
            fails.append(("float-words-are-not-finite", s))
        # re.sub behaviour used by the comma case split
        t = sub_pat.sub(sub_rep, s)
        if "," not in s and t != s:
            fails.append(("csub-identity-without-comma", s))
    counts["T-re"] = n


def main():
    ap = argparse.ArgumentParser()
    ap.add_argument("--out")
    ap.add_argument("--which", default="T-str,T-re")
    a = ap.parse_args()
    fails, counts = [], {}
    if "T-str" in a.which:
        check_tstr(fails, counts)
    if "T-re" in a.which:
        check_tre(fails, counts)
    res = {"checked": counts, "failures": [list(map(str, f)) for f in fails[:50]], "n_failures": len(fails)}
    if a.out:
        json.dump(res, open(a.out, "w"))
    print(json.dumps(res)[:2000])
    sys.exit(0 if not fails else 1)


if __name__ == "__main__":
    main()
