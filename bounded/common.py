"""Shared plumbing for the native (bounded) harnesses.

Run under /venv/bin/python (the interpreter the pinned test-suite uses):

    /venv/bin/python /verif/bounded/Cxx.py --out result.json [--tier quick|thorough]
                                          [--seed N] [--replay file.json]

Environment: VERIF_REPO (default /repo) is put FIRST on sys.path so that the
lasio that is exercised is the working tree under test (or a scratch copy in
the mutation self-test).  KINVERARITY1_LASIO_VERIF=1 is set so env-guarded
hooks are on.

Result JSON (one object):
  property, tier, seed, repo,
  evaluations          - executions of the real code
  distinct_nontrivial  - DISTINCT cases that are non-trivial by `rule` (measured)
  rule, domain, bound, exhaustive
  samples              - a few cases written out
  failures             - [{clause, klass, input, detail}] (deduplicated by klass,
                          at most MAX_PER_KLASS inputs kept per klass)
  failure_counts       - {klass: n}
  notes                - free text list
A harness NEVER decides known/unknown: vcheck does that from known_findings.json.
Exit status of a harness: 0 = ran (failures are in the JSON), 3 = harness crash.

--replay file.json : file has {"clause":..,"klass":..,"input":..}; re-run just
that input; exit 1 and print "REPRODUCED ..." if the same clause still fails,
else exit 0.
"""
import argparse
import json
import os
import sys
import time
import traceback

REPO = os.environ.get("VERIF_REPO", "/repo")
sys.path.insert(0, REPO)
os.environ.setdefault("KINVERARITY1_LASIO_VERIF", "1")
import logging

logging.disable(logging.CRITICAL)

MAX_PER_KLASS = 3


class Run:
    def __init__(self, prop, rule, domain, bound):
        self.prop, self.rule, self.domain, self.bound = prop, rule, domain, bound
        self.evaluations = 0
        self.nontrivial = set()
        self.samples = []
        self.failures = {}
        self.counts = {}
        self.notes = []
        self.exhaustive = False
        self.t0 = time.time()

    def case(self, key, nontrivial=True, sample=None, n=1):
        """count `n` executions for one generated case; key identifies the case"""
        self.evaluations += n
        if nontrivial:
            self.nontrivial.add(key if isinstance(key, (str, int, tuple)) else json.dumps(key, sort_keys=True, default=str))
        if sample is not None and len(self.samples) < 6:
            self.samples.append(sample)

    def fail(self, clause, klass, inp, detail):
        k = "%s|%s" % (clause, klass)
        self.counts[k] = self.counts.get(k, 0) + 1
        lst = self.failures.setdefault(k, [])
        if len(lst) < MAX_PER_KLASS:
            lst.append({"clause": clause, "klass": klass, "input": inp, "detail": str(detail)[:600]})

    def result(self, tier, seed):
        fl = []
        for k in sorted(self.failures):
            fl += self.failures[k]
        return {
            "property": self.prop, "tier": tier, "seed": seed, "repo": REPO,
            "evaluations": self.evaluations, "distinct_nontrivial": len(self.nontrivial),
            "rule": self.rule, "domain": self.domain, "bound": self.bound, "exhaustive": self.exhaustive,
            "samples": self.samples, "failures": fl, "failure_counts": self.counts, "notes": self.notes,
            "wall_s": round(time.time() - self.t0, 2),
        }


def main(prop, build_run, replay_one):
    """build_run(tier, seed) -> Run ;  replay_one(entry) -> (reproduced: bool, detail)"""
    ap = argparse.ArgumentParser()
    ap.add_argument("--out")
    ap.add_argument("--tier", default=os.environ.get("VERIF_TIER", "quick"))
    ap.add_argument("--seed", type=int, default=int(os.environ.get("VERIF_SEED", "0") or 0))
    ap.add_argument("--replay")
    a = ap.parse_args()
    try:
        import lasio
        assert os.path.realpath(lasio.__file__).startswith(os.path.realpath(REPO)), (lasio.__file__, REPO)
        if a.replay:
            entry = json.load(open(a.replay))
            if "input" not in entry and "replay" in entry:
                entry = entry["replay"]
            ok, detail = replay_one(entry)
            if ok:
                print("REPRODUCED property=%s clause=%s klass=%s : %s" % (prop, entry.get("clause"), entry.get("klass"), detail))
                sys.exit(1)
            print("not reproduced: %s" % (detail,))
            sys.exit(0)
        run = build_run(a.tier, a.seed)
        res = run.result(a.tier, a.seed)
        text = json.dumps(res, indent=1, default=str)
        if a.out:
            with open(a.out, "w") as f:
                f.write(text)
        else:
            print(text)
        sys.exit(0)
    except SystemExit:
        raise
    except BaseException:
        traceback.print_exc()
        sys.exit(3)
