"""Native replay of solver counterexamples for lemma obligations.
usage: /venv/bin/python replay_lemma.py <json>   with {"kind": ..., ...}; prints JSON {"reproduced": bool, "detail": str}"""
import json, os, sys
REPO = os.environ.get("VERIF_REPO", "/repo")
sys.path.insert(0, REPO)
req = json.loads(sys.argv[1])
out = {"reproduced": False, "detail": ""}
try:
    if req["kind"] == "read-sub":
        import importlib.util as u
        sp = u.spec_from_file_location("lasio_defaults_under_test", os.path.join(REPO, "lasio", "defaults.py"))
        # defaults.py imports .las_items relatively: load through the package instead
        import lasio.defaults as D
        tok = req["token"]
        new = tok
        for pat, repl in D.READ_SUBS[req["key"]]:
            new = pat.sub(repl, new)
        out["reproduced"] = new != tok
        out["detail"] = "READ_SUBS[%r] turns the numeric token %r into %r" % (req["key"], tok, new)
    elif req["kind"] == "num-literal":
        import lasio.reader as R
        p = R.SectionParser("~Well", version=2.0)
        v = p.num(req["text"])
        kept = isinstance(v, str)
        out["reproduced"] = (kept != req["expect_kept"])
        out["detail"] = "num(%r) -> %r (%s)" % (req["text"], v, type(v).__name__)
except Exception as e:
    out["detail"] = "replay raised %r" % (e,)
print(json.dumps(out))
