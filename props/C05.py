from ._meta import M
META = M["C05"]


def lemmas(E, REG):
    from . import _title_lemma
    return _title_lemma.lemmas(E, "C05")
