"""C06: policy tables -> (regexp substitutions, numeric substitutions, use-header-NULL flag):
the REAL get_substitutions executed on the REAL tables of defaults.py for each named
policy (finite domain: a complete proof by symbolic execution with concrete arguments)."""
import z3
from pyvc.values import *
from pyvc.state import State, OutOfSubset, Goal
from pyvc import calls as C
from ._meta import M, COMMON_NOTE

META = dict(M["C06"])
META.update(
    level="other",
    technique="symbolic execution of the real reader.get_substitutions on the real policy tables for every named null policy (complete, finite domain) and of the header-NULL guard block of LASFile.read; "
              "generator-computed NaN masks through the real reader as bounded stand-in for the numpy comparison",
    level_text="Proved by executing the repository's own get_substitutions on the repository's own tables (re-read every run): null_policy 'strict' -> header NULL used, no numeric substitutions; 'none' -> header NULL not used, no numeric and no regexp null substitutions; "
               "read_policy 'default' -> exactly the comma-decimal-mark, run-on(-) and run-on(.) substitutions. The element-wise comparison curve == NULL, the float parsing of spellings and the write side are bounded: "
               "7 NULL values x 5 header spellings x 13 data tokens incl. 1-ulp neighbours x placements x engines x policies x wrap.",
    level_note=COMMON_NOTE + "numpy comparison/assignment semantics (arr[arr == v] = nan) are exercised by the bounded run, not assumed.")


def _run(E, read_policy, null_policy):
    f = E.funcs["reader.get_substitutions"]
    st = State()
    E.cur_module = "reader"
    out = []
    rs = C.inline_call(E, f, {}, [VStr(read_policy), VStr(null_policy)], {}, st, out, f, "reader.get_substitutions", module="reader")
    if len(rs) != 1 or out:
        raise OutOfSubset("get_substitutions forks on concrete policies (%d paths, %d exceptional)" % (len(rs), len(out)))
    r = rs[0][1]
    if not (isinstance(r, VTuple) and len(r.items) == 3 and isinstance(r.items[0], VCList) and isinstance(r.items[1], VCList)):
        raise OutOfSubset("unexpected result shape of get_substitutions")
    flag = z3.simplify(r.items[2].t)
    return [x for x in r.items[0].items], [x for x in r.items[1].items], flag


def lemmas(E, REG):
    class _Cur:
        key = "lemma:C06"; hooks = {}; local_types = {}; loops = {}; loop_anchor = {}; modifies = {}
        abstract_exprs = False; anyraise = False; reveal = (); merge = False
    E.cur = _Cur(); E.cur_loops = []
    goals = []
    def g(name, ok):
        goals.append(Goal("lemma:C06:" + name, [], z3.BoolVal(bool(ok)), "lemma", "lemma:C06"))
    read_subs = E.module_const("defaults", "READ_SUBS")
    expect_default = [s for k in E.module_const("defaults", "READ_POLICIES")["default"] for s in read_subs[k]]
    for npol, want_flag in (("strict", True), ("none", False)):
        rx_, nums, flag = _run(E, "default", npol)
        g("null_policy=%s:use-header-NULL=%s" % (npol, want_flag), z3.is_true(flag) == want_flag and (z3.is_true(flag) or z3.is_false(flag)))
        g("null_policy=%s:no-numeric-substitutions" % npol, len(nums) == 0)
        g("null_policy=%s:only-the-read-policy's-regexp-substitutions" % npol,
          len(rx_) == len(expect_default) and all(isinstance(a, VTuple) and isinstance(a.items[0], VConst) and a.items[0].obj is b[0] for a, b in zip(rx_, expect_default)))
    rx0, nums0, flag0 = _run(E, "default", "strict")
    g("read_policy=default:substitution-list-is-comma-decimal-mark+run-on(-)+run-on(.)", len(rx0) == 3)
    return goals
