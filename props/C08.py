"""C08: language lemmas (z3 regex emptiness queries, z3-only - DESIGN 2.3) on top of
the control-flow contracts of specs/reader_num.py."""
import z3
from pyvc import lemma as L
from pyvc.values import *
import specs.reader_num as N
from ._meta import M, COMMON_NOTE

META = dict(M["C08"])
META.update(
    level="proof",
    technique="contracts on the real SectionParser.num/metadata/params/curves/strip_brackets discharged by z3 (control flow against assumed library contracts); "
              "literal-grammar lemmas as z3 regular-language emptiness queries; exhaustive string enumeration as bounded stand-in and validation of the assumed languages",
    level_text="Proved on the real code: num(x) returns x itself exactly when csub(x) contains '_' or is accepted neither by np.int64 nor as a finite np.float64, otherwise the int64 (preferred) or float64 of csub(x); "
               "metadata() routes the value through num() iff upper(name) is not API/UWI, params() always, curves() never; none of them raises (curves: apart from numpy.asarray). "
               "Proved as regular-language facts: every stripped string of the statement's literal grammar (after comma->dot) is underscore-free and accepted by np.int64 or np.float64's numeric language, and every "
               "underscore-free stripped string those accept lies inside the generous grammar (so nothing outside it is converted; inf/nan words are rejected by the finiteness test). "
               "The accepted languages of np.int64/np.float64 and re.sub's effect are assumptions (T-re) validated exhaustively against numpy to length 5 on every run; the bounded run covers 0.55M strings (quick).",
    level_note=COMMON_NOTE + "T-re: L_INT, L_FLOAT_NUM, L_FLOAT_WORD are the languages of np.int64(str)/np.float64(str) without underscores; re.sub(comma-decimal-mark) is a function of its input; "
                             "float overflow (1e999) is treated as non-finite by an uninterpreted predicate. Regex goals are z3-only (cvc5 times out on them).",
    validate=["T-re"],
    trusted=["T-re (accepted languages of np.int64/np.float64, validated natively)"],
    assumptions=["header values reach num() stripped of surrounding blanks (read_header_line strips every field)"])


def lemmas(E, REG):
    y = z3.String("y")
    RS = z3.ReSort(z3.StringSort())
    anyc = z3.Full(RS)
    NO_US = z3.Complement(z3.Concat(anyc, z3.Re(z3.StringVal("_")), anyc))
    ws = z3.Union(*[z3.Re(z3.StringVal(ch)) for ch in " \t\n\r\x0b\x0c"])
    STRIPPED = z3.Complement(z3.Union(z3.Concat(ws, anyc), z3.Concat(anyc, ws)))
    L_INT, L_FN, L_FW = N.L_INT.to_z3(), N.L_FLOAT_NUM.to_z3(), N.L_FLOAT_WORD.to_z3()
    MUST, GEN = N.MUST.to_z3(), N.GENEROUS.to_z3()
    accepted = z3.Intersect(NO_US, z3.Union(L_INT, L_FN))
    out = []
    out.append(L.goal(E, "C08", "every-literal-is-converted(MUST-within-accepted)", [],
                      z3.Not(z3.InRe(y, z3.Intersect(MUST, z3.Complement(accepted))))))
    out.append(L.goal(E, "C08", "nothing-outside-the-generous-grammar-is-converted", [],
                      z3.Not(z3.InRe(y, z3.Intersect(STRIPPED, accepted, z3.Complement(GEN))))))
    out.append(L.goal(E, "C08", "integer-literals-go-to-int64(digits-within-L_INT)", [],
                      z3.Not(z3.InRe(y, z3.Intersect(N.rx.cat(N.SIGN, N.DIGITS).to_z3(), z3.Complement(L_INT))))))
    out.append(L.goal(E, "C08", "non-finite-words-are-not-numeric-literals", [],
                      z3.Not(z3.InRe(y, z3.Intersect(L_FW, z3.Union(L_INT, L_FN))))))
    # glue: with the T-re bridging facts, keep_condition is false on the literal grammar
    x = z3.String("x")
    a, b, c, fin, us = z3.Bools("y_in_L_INT y_in_L_FLOAT_NUM y_in_L_FLOAT_WORD float_finite y_has_underscore")
    bridge = [N.csub(x) == y, N.int_ok(y) == a, N.float_ok(y) == z3.Or(b, c),
              N.finite_obj(N.float_obj(y)) == fin, z3.Contains(y, z3.StringVal("_")) == us,
              z3.Implies(c, z3.Not(fin))]
    out.append(L.goal(E, "C08", "glue:literal-and-finite-implies-converted",
                      bridge + [z3.Not(us), z3.Or(a, b), z3.Implies(z3.And(b, z3.Not(a)), fin)],
                      z3.Not(N.keep_condition(x))))
    out.append(L.goal(E, "C08", "glue:not-accepted-or-underscore-implies-kept",
                      bridge + [z3.Or(us, z3.And(z3.Not(a), z3.Not(b)))], N.keep_condition(x)))
    return out
