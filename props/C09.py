from ._meta import M
META = M["C09"]


def lemmas(E, REG):
    from . import _subs_lemma
    return _subs_lemma.lemmas(E, "C09")
