from ._meta import M
META = M["C11"]



def lemmas(E, REG):
    # which field follows the unit (value or description) is decided by an order table on both sides: the writer's choice for a
    # mnemonic and the reader's choice for the (case-mapped) mnemonic it reads back must agree, or value and description swap
    from . import C12
    return C12.order_lemmas(E, "C11")
