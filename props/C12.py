"""C12: order-table agreement lemma - the REAL reader and writer loops executed
on the REAL table with a symbolic mnemonic."""
import ast
import z3
from pyvc.values import *
from pyvc.state import State, OutOfSubset, Goal
from pyvc import calls as C
from pyvc import lemma as L
from ._meta import M, COMMON_NOTE

META = dict(M["C12"])
META.update(
    level="other",
    technique="contracts on the real get_section_widths, the header loops W3 (full line layout), the cell formatter W5, the row loop W7 and the data-section title block W6 of writer.write discharged by z3; symbolic execution of the real get_section_order_function (writer) and SectionParser.__init__ + the order lookup of SectionParser.metadata (reader) on the real ORDER_DEFINITIONS table with a symbolic mnemonic; equality of the two results discharged by z3; configuration pairs as bounded stand-in",
    level_text="Proved for EVERY mnemonic string m, versions 1.2 and 2.0, sections Version/Well/Curves/Parameter and case maps {identity, upper, lower}: the value/description order the writer uses for m equals the order the reader uses for casemap(m) "
               "(both sides are the repository's own loops, re-read and executed on the repository's own table on every run); every header line of ~Well/~Parameter/~Curves has exactly the layout "
               "'mnemonic padded to the left width . unit, blanks up to the middle width, value and description in the table's order for the ORIGINAL mnemonic' with at least one blank between unit and value, for both versions; "
               "cells are written as spacer + formatted value (NaN as the NULL value), one physical line per row when unwrapped; what is written for the data-section title begins with data_section_header + ' ' and ends with the line terminator. "
               "Everything else (float text, wrapped rows, the regex parse of the re-read file) is bounded: read(write(x,cfg1)) vs read(write(x,cfg2)) over single-option pairs.",
    level_note=COMMON_NOTE + "T-str: upper(upper(m)) = upper(m), upper(lower(m)) = upper(m) (validated natively).",
    validate=["T-str"], trusted=["T-str"])

TITLES = {"Version": "~Version", "Well": "~Well", "Curves": "~Curve", "Parameter": "~Parameter"}


def _reader_order(E, st, section, version, name_term):
    """SectionParser(title, version).orders.get(name.upper(), default_order) - by
    running the real __init__ and the real right-hand side of `key_order = ...`"""
    E.cur_module = "reader"
    st.env = {"self": VPy("SectionParser")}
    init = E.funcs["reader.SectionParser.__init__"]
    out = []
    rs = C.inline_call(E, init, {}, [st.env["self"], VStr(TITLES[section])], {"version": VConst(version)}, st, out, init, "reader.SectionParser.__init__", module="reader")
    if len(rs) != 1 or out:
        raise OutOfSubset("SectionParser.__init__ forks on concrete arguments (%d paths, %d exceptional)" % (len(rs), len(out)))
    st = rs[0][0]
    self_ = st.env["self"]
    meta = E.funcs["reader.SectionParser.metadata"]
    rhs = None
    for n in ast.walk(meta):
        if isinstance(n, ast.Assign) and any(isinstance(t, ast.Name) and t.id == "key_order" for t in n.targets):
            rhs = n.value
    if rhs is None:
        raise OutOfSubset("no `key_order = ...` in SectionParser.metadata")
    st.env = {"self": self_, "keys": VDict({"name": VStr(name_term)})}
    rs = E.ev(rhs, st, out)
    if len(rs) != 1 or out:
        raise OutOfSubset("order lookup forks")
    return rs[0][0], rs[0][1]


def _writer_order(E, st, section, version, name_term):
    E.cur_module = "writer"
    f = E.funcs["writer.get_section_order_function"]
    out = []
    rs = C.inline_call(E, f, {}, [VStr(section), VConst(version)], {}, st, out, f, "writer.get_section_order_function", module="writer")
    if len(rs) != 1 or out:
        raise OutOfSubset("get_section_order_function forks")
    st, fn = rs[0]
    rs = C.call_value(E, fn, [VStr(name_term)], {}, st, out, f)
    if len(rs) != 1 or out:
        raise OutOfSubset("writer order lookup forks")
    return rs[0]


def lemmas(E, REG):
    goals = order_lemmas(E, "C12")
    # wrap on/off switches between the numpy and the normal engine on re-read: only the latter applies the read
    # substitutions, so "equal data" needs them to leave every numeric token alone
    from . import _subs_lemma
    goals += _subs_lemma.lemmas(E, "C12")
    return goals


def order_lemmas(E, prop):
    class _Cur:
        key = "lemma:" + prop; hooks = {}; local_types = {}; loops = {}; loop_anchor = {}; modifies = {}
        abstract_exprs = False; anyraise = False; reveal = ()
    E.cur = _Cur()
    E.cur_loops = []
    goals = []
    m = z3.String("m")
    for version in (1.2, 2.0):
        for section in ("Version", "Well", "Curves", "Parameter"):
            for cname, cm in (("preserve", lambda t: t), ("upper", lambda t: upper(t)), ("lower", lambda t: lower(t))):
                st = State()
                st.assume(upper(upper(m)) == upper(m))
                st.assume(upper(lower(m)) == upper(m))
                st, r = _reader_order(E, st, section, version, cm(m))
                st, w = _writer_order(E, st, section, version, m)
                if not (isinstance(r, VStr) and isinstance(w, VStr)):
                    raise OutOfSubset("order is not a string")
                goals.append(Goal("lemma:%s:reader-order(%s(m))=writer-order(m);v=%s;section=%s" % (prop, cname, version, section),
                                  list(st.pc), r.t == w.t, "lemma", "lemma:" + prop))
    return goals
