META = {
    "level": "proof",
    "design_ref": "5/C13",
    "technique": "contracts on the real las_items.py functions (data-structure invariant WF over a heap model), VCs from the ast, z3/cvc5; bounded op-sequence enumeration as CPython cross-check and for the file round trip",
    "level_text": "Proof (all inputs, all iterations) that HeaderItem.__init__, assign_duplicate_suffixes, append, insert, set_item, __setitem__ and __setattr__ (attribute assignment of an item) of the real SectionItems "
                  "preserve the invariant 'distinct objects, session = useful or useful:<k>, session names pairwise distinct under the section's comparison', "
                  "number the group of an inserted name :1..:n in section order, leave other items' names alone and never assign original_mnemonic - "
                  "under the precondition NoClash (no mnemonic ends in ':<digits>'; its negation is a recorded known finding). "
                  "The writer's header loops print the ORIGINAL mnemonic at the start of every line (full line layout). delete/lookup agreement and the write->read round trip are covered by the exhaustive bounded run (sequences <= 3/4 operations - append, insert, replace, attribute assignment, delete - over 6 names, "
                  "name multisets <= 2/3 per section x 3 case modes x 2 versions), labelled bounded.",
    "level_note": "Assumes T-enc (the encoder's model of Python: lists, attribute dispatch by declared type, no monkey patching), T-str axioms on strip/upper/'%d' "
                  "(suf injective, upper distributes over suf; validated natively), new item not already in the section. Parsing of the re-read file (regex) is bounded only.",
    "validate": ['T-str'],
    "trusted": ["T-str (suf/upper/strip axioms)"],
    "assumptions": ["precondition NoClash: no useful mnemonic has the form <text>:<k> (negation = known finding C13-suffix-clash)",
                    "precondition: the inserted item is not already an element of the section"],
}
