"""C15: agreement lemmas over the accessor contracts (no code is read here: each
lemma follows from the contracts of specs/las_items.py, which are themselves
verified against the real functions)."""
import z3
from pyvc.values import *
from pyvc import lemma as L
import specs.las_items as S

META = {
    "level": "proof",
    "design_ref": "5/C15",
    "technique": "pre/postconditions on the real SectionItems accessors (per key-type specialisation), VCs from the ast discharged by z3/cvc5; agreement lemmas over the contracts; exhaustive small-scope run as CPython cross-check",
    "level_text": "Proof for all sections and all string/int keys that the real __contains__, __getitem__, __delitem__, __getattr__, get (add False/True), "
                  "set_item, set_item_value, __setitem__, keys and mnemonic_compare meet contracts stating: membership iff some session name matches under the section's "
                  "comparison; item/attribute access return the FIRST match; KeyError/IndexError/AttributeError exactly when there is no match / position; "
                  "deletion removes exactly that position and keeps the order; get(add=False) has an empty frame, get(add=True) appends exactly one item when absent; "
                  "assignment of a plain value writes only that item's value. Lemmas over the contracts give the cross-accessor agreement of the statement. "
                  "Slices, HeaderItem-typed keys for deletion and __setattr__ are covered by the bounded run only.",
    "level_note": "Assumes T-enc, static dispatch by declared key type (str / int / HeaderItem specialisations), T-str (upper idempotent). "
                  "numpy calls inside get() (CurveItem branch) are opaque library calls that may raise.",
    "validate": ['T-str'],
    "trusted": ["T-str"],
    "assumptions": [],
}


def lemmas(E, REG):
    out = []
    st, c = L.ctx_for(E, {"self": S.SI, "key": STR})
    v = S.View(c)
    k = c.a["key"].t
    hyps = [f for _, f in S.shape(c)]
    # contains <-> item access succeeds
    cc = L.result_ctx(SpecCtxAlias(c, {"testitem": c.a["key"]}), VBool(z3.Bool("contains_res")))
    cont = [f for _, f in S.CONT_S.ensures(cc)]
    keyerr = S.GET_S.raises[0][1](c)
    out.append(L.goal(E, "C15", "k-in-s-iff-s[k]-succeeds", hyps + cont, cc.res.t == z3.Not(keyerr)))
    # attribute access returns the same item as item access
    r1 = L.result_ctx(c, VRef(z3.Int("getitem_res"), "HeaderItem"))
    r2 = L.result_ctx(c, VRef(z3.Int("getattr_res"), "HeaderItem"))
    h = hyps + [f for _, f in S.GET_S.ensures(r1)] + [f for _, f in S.GETATTR.ensures(r2)]
    out.append(L.goal(E, "C15", "getattr-is-getitem", h, r1.res.t == r2.res.t))
    # attribute access fails exactly when item access fails (apart from the reserved name)
    ae = S.GETATTR.raises[0][1](c)
    out.append(L.goal(E, "C15", "getattr-fails-iff-getitem-fails", hyps + [k != z3.StringVal("mnemonic_transforms")], ae == keyerr))
    # deletion by key fails exactly when item access fails
    out.append(L.goal(E, "C15", "del-fails-iff-getitem-fails", hyps, S.DEL_S.raises[0][1](c) == keyerr))
    # int access and int deletion fail on the same positions
    st2, c2 = L.ctx_for(E, {"self": S.SI, "key": INT})
    out.append(L.goal(E, "C15", "int-del-fails-iff-int-getitem-fails", [f for _, f in S.shape(c2)],
                      S.DEL_N.raises[0][1](c2) == S.GET_N.raises[0][1](c2)))
    return out


class SpecCtxAlias:
    """the same context with extra argument names"""

    def __init__(s, c, extra):
        s.__dict__.update(c.__dict__)
        s.a = dict(c.a); s.a.update(extra)
        s._c = c

    def h(s, f):
        return s._c.h(f)

    def old(s, f):
        return s._c.old(f)
