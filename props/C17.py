"""C17: reconstruct(reduce(item)) == item, field by field, over the contracts of
HeaderItem.__reduce__ and HeaderItem.__init__ and the assumed behaviour of
pickle/copy (T-pickle: obj = cls(*args); obj.__dict__.update(state))."""
import z3
from pyvc.values import *
from pyvc import lemma as L
import specs.las_items as S
from ._meta import M, COMMON_NOTE

META = dict(M["C17"])
META.update(
    level="other",
    technique="contracts on the real HeaderItem.__reduce__ and HeaderItem.__init__ discharged by z3; reconstruction lemma over the two contracts under the documented pickle/copy protocol; all protocols on corpus and generated objects as bounded stand-in",
    level_text="Proved: __reduce__ returns (class, (original mnemonic, unit, value, descr, data), {'mnemonic': session name}); __init__ stores exactly its arguments and derives the session name from the original; hence (lemma) an object rebuilt as cls(*args) "
               "followed by __dict__.update(state) has the same original mnemonic, session mnemonic, unit, value, descr and data as the source - including duplicated (suffixed) and blank mnemonics. "
               "SectionItems' default reduce (list subclass: items re-added by append/extend, mnemonic_transforms via __dict__), curve arrays/dtypes, write() bytes and independence are bounded (62k copies quick).",
    level_note=COMMON_NOTE + "T-pickle: pickle protocols 0-5 and copy.deepcopy rebuild an object from a 3-tuple reduce value as cls(*args) then obj.__dict__.update(state) (no __setstate__ defined); CurveItem.__init__ passes data through numpy.asarray.",
    trusted=["T-pickle"])


# the protocol hooks T-pickle speaks about, per class, as the lemma assumes them
PICKLE_HOOKS = ("__reduce__", "__reduce_ex__", "__getstate__", "__setstate__", "__getnewargs__", "__getnewargs_ex__", "__copy__",
                "__deepcopy__", "extend", "__iadd__", "__new__")
EXPECTED_HOOKS = {("las_items", "HeaderItem"): {"__reduce__"}, ("las_items", "CurveItem"): set(), ("las_items", "SectionItems"): set(),
                  ("las", "LASFile"): set()}


def tpickle_side_conditions(E):
    """T-pickle is stated for classes that define exactly these protocol hooks: re-checked on the source on every run.  A class that
    gains (or loses) one is outside the lemma: the property is then decided by the bounded run alone and nothing is reported as proved."""
    import ast
    from pyvc.state import OutOfSubset
    for (m, cls), want in EXPECTED_HOOKS.items():
        node = [n for n in E.tree[m].body if isinstance(n, ast.ClassDef) and n.name == cls]
        if not node:
            raise OutOfSubset("T-pickle side condition: class %s.%s not found" % (m, cls))
        have = {b.name for b in node[0].body if isinstance(b, ast.FunctionDef) and b.name in PICKLE_HOOKS}
        cls_attrs = {t.id for b in node[0].body if isinstance(b, ast.Assign) for t in b.targets if isinstance(t, ast.Name)}
        if have != want:
            raise OutOfSubset("T-pickle side condition: %s.%s defines the protocol hooks %s, the lemma assumes %s" % (m, cls, sorted(have), sorted(want)))
        if cls == "SectionItems" and "mnemonic_transforms" in cls_attrs:
            raise OutOfSubset("T-pickle side condition: SectionItems.mnemonic_transforms has a class-level default (state may be read before it is restored)")


def lemmas(E, REG):
    tpickle_side_conditions(E)
    st, c = L.ctx_for(E, {"self": S.HI})
    s = c.a["self"].t
    # the reduce value, as the contract describes it
    a0, a1, a2, a3, a4 = z3.String("arg_mnemonic"), z3.Const("arg_unit", PyObj), z3.Const("arg_value", PyObj), z3.Const("arg_descr", PyObj), z3.Const("arg_data", PyObj)
    st_m = z3.String("state_mnemonic")
    red = L.result_ctx(c, VTuple([VType(z3.Int("cls_tag")), VTuple([VStr(a0), VObj(a1), VObj(a2), VObj(a3), VObj(a4)]), VDict({"mnemonic": VStr(st_m)})]))
    hyps = [f for _, f in S.reduce_post(red)]
    # the rebuilt object: fresh ref n, heap after HeaderItem.__init__(n, *args)
    n = z3.Int("rebuilt")
    heap2 = {f: z3.Const("h2." + f, c.h(f).sort()) for f in S.HI_FIELDS}
    class C2:
        a = {"self": VRef(n, "HeaderItem"), "mnemonic": VStr(a0), "unit": VObj(a1), "value": VObj(a2), "descr": VObj(a3), "data": VObj(a4)}
        def h(self, f):
            return heap2[f]
    init = [f for _, f in S.hi_init_post(C2())] + [z3.Select(heap2["data"], n) == a4]
    # T-pickle: state applied through __dict__.update
    sess_final = st_m
    fields_equal = z3.And(
        z3.Select(heap2["original_mnemonic"], n) == z3.Select(c.h("original_mnemonic"), s),
        sess_final == z3.Select(c.h("mnemonic"), s),
        z3.Select(heap2["unit"], n) == z3.Select(c.h("unit"), s),
        z3.Select(heap2["value"], n) == z3.Select(c.h("value"), s),
        z3.Select(heap2["descr"], n) == z3.Select(c.h("descr"), s),
        z3.Select(heap2["data"], n) == z3.Select(c.h("data"), s))
    str_inj = [z3.ForAll([z3.String("ia"), z3.String("ib")], z3.Implies(obj_of_str(z3.String("ia")) == obj_of_str(z3.String("ib")), z3.String("ia") == z3.String("ib")))]
    return [L.goal(E, "C17", "rebuilt-item-equals-source-field-by-field", hyps + init + str_inj, fields_equal)]
