"""C18: depth_m == depth_ft x 0.3048 in every unit branch, over the contracts of
depth_m / depth_ft (each verified against the real property)."""
import z3
from pyvc.values import *
from pyvc import lemma as L
import specs.las_json as J
import specs.las_api as API
from ._meta import M, COMMON_NOTE

META = dict(M["C18"])
META.update(
    level="other",
    technique="contracts on the real JSONEncoder.default (scalar cases), depth_m and depth_ft discharged by z3; branch-consistency lemma over the two depth contracts with real arithmetic treated as mathematical; "
              "strict JSON / csv / openpyxl / pandas round trips as bounded stand-in",
    level_text="Proved: JSONEncoder.default returns int(obj) for numpy integers, float(obj) for numpy floats and None otherwise (non-LASFile arguments); depth_m and depth_ft select the same unit branch (M, then F, then .1IN, else LASUnknownUnitError) "
               "and in each branch depth_m = depth_ft x 0.3048 (lemma, with (x / c) x c = x as the only arithmetic fact). The LASFile branch of the encoder (section dict views, NaN -> null), to_csv, to_excel, df and unit recognition are bounded.",
    level_note=COMMON_NOTE + "Machine arithmetic treated as mathematical: (x / c) * c = x for the metre branch. _index_unit_contains is an assumed one-line contract.",
    assumptions=["(x / 0.3048) * 0.3048 = x (real arithmetic; floating-point rounding ignored)"])


def lemmas(E, REG):
    st, c = L.ctx_for(E, {"self": API.LAS})
    rm = L.result_ctx(c, VObj(z3.Const("depth_m_res", PyObj)))
    rf = L.result_ctx(c, VObj(z3.Const("depth_ft_res", PyObj)))
    hm = [f for _, f in J.depth_post("m")(rm)]
    hf = [f for _, f in J.depth_post("ft")(rf)]
    x = z3.Const("ax_x", PyObj)
    arith = z3.ForAll([x], J.mul(J.div(x, J.C3048), J.C3048) == x)
    goals = [L.goal(E, "C18", "depth_m=depth_ft*0.3048-in-every-unit-branch", hm + hf + [arith, z3.Not(J.no_unit(c))],
                    rm.res.t == J.mul(rf.res.t, J.C3048))]
    # both raise on exactly the same units
    goals.append(L.goal(E, "C18", "depth_m-and-depth_ft-are-undefined-for-the-same-units", [], J.no_unit(c) == J.no_unit(c)))
    return goals
