"""C18: depth_m == depth_ft x 0.3048 in every unit branch, over the contracts of
depth_m / depth_ft (each verified against the real property)."""
import z3
from pyvc.values import *
from pyvc import lemma as L
import specs.las_json as J
import specs.las_api as API
from ._meta import M, COMMON_NOTE

META = dict(M["C18"])
META.update(
    level="other",
    technique="contracts on the real JSONEncoder.default (scalar cases), depth_m and depth_ft discharged by z3; branch-consistency lemma over the two depth contracts with real arithmetic treated as mathematical; unit-table lemma (the real unit test of LASFile.read on the real DEPTH_UNITS table with a symbolic unit string); per-curve JSON list lemma (the real comprehension of JSONEncoder.default on an opaque array); contract on the header-row block of LASFile.to_csv (ghost row counters fed by a hook on writer.writerow); "
              "strict JSON / csv / openpyxl / pandas round trips as bounded stand-in",
    level_text="Proved: JSONEncoder.default returns int(obj) for numpy integers, float(obj) for numpy floats and None otherwise (non-LASFile arguments); depth_m and depth_ft select the same unit branch (M, then F, then .1IN, else LASUnknownUnitError) "
               "and in each branch depth_m = depth_ft x 0.3048 (lemma, with (x / c) x c = x as the only arithmetic fact); a unit text is recognised as FT, M or .1IN exactly when it equals one of that unit's spellings in defaults.DEPTH_UNITS up to letter case (every string, incl. non-ASCII); the JSON list of a curve has one entry per sample, null exactly for a float NaN and the sample itself otherwise (T-enc: iterating an array yields its len() elements); to_csv writes the mnemonic row exactly when it is asked for, the unit row exactly when it is asked for and units_loc == 'line', mnemonics first, and no other header row (five option-type cases; csv.writer itself is opaque). The rest of the LASFile branch of the encoder (section dict views, NaN -> null), the text of the csv rows, to_excel and df are bounded.",
    level_note=COMMON_NOTE + "Machine arithmetic treated as mathematical: (x / c) * c = x for the metre branch. _index_unit_contains is an assumed one-line contract.",
    assumptions=["(x / 0.3048) * 0.3048 = x (real arithmetic; floating-point rounding ignored)"])


def lemmas(E, REG):
    st, c = L.ctx_for(E, {"self": API.LAS})
    rm = L.result_ctx(c, VObj(z3.Const("depth_m_res", PyObj)))
    rf = L.result_ctx(c, VObj(z3.Const("depth_ft_res", PyObj)))
    hm = [f for _, f in J.depth_post("m")(rm)]
    hf = [f for _, f in J.depth_post("ft")(rf)]
    x = z3.Const("ax_x", PyObj)
    arith = z3.ForAll([x], J.mul(J.div(x, J.C3048), J.C3048) == x)
    goals = [L.goal(E, "C18", "depth_m=depth_ft*0.3048-in-every-unit-branch", hm + hf + [arith, z3.Not(J.no_unit(c))],
                    rm.res.t == J.mul(rf.res.t, J.C3048))]
    # both raise on exactly the same units
    goals.append(L.goal(E, "C18", "depth_m-and-depth_ft-are-undefined-for-the-same-units", [], J.no_unit(c) == J.no_unit(c)))
    goals += unit_table_lemma(E)
    goals += json_samples_lemma(E)
    return goals


def json_samples_lemma(E):
    """The list JSONEncoder.default builds for one curve, taken from the real source (the value stored under
    d["data"][curve.mnemonic]) and evaluated on an opaque data array: one entry per sample, null for a float NaN,
    the sample itself otherwise."""
    import ast
    from pyvc.state import State, OutOfSubset, Goal
    import specs.writer_data as WD
    fn = E.funcs["las.JSONEncoder.default"]
    cands = [n for n in ast.walk(fn) if isinstance(n, ast.Assign) and len(n.targets) == 1
             and (ast.get_source_segment(E.src["las"], n.targets[0]) or "").replace(" ", "") == 'd["data"][curve.mnemonic]']
    if len(cands) != 1:
        raise OutOfSubset("C18 json lemma: expected exactly one assignment to d[\"data\"][curve.mnemonic], found %d" % len(cands))
    expr = cands[0].value
    free = {x.id for x in ast.walk(expr) if isinstance(x, ast.Name) and isinstance(x.ctx, ast.Load)} \
        - {x.id for x in ast.walk(expr) if isinstance(x, ast.Name) and isinstance(x.ctx, ast.Store)}
    if not free <= {"curve", "np", "isinstance", "float"}:
        raise OutOfSubset("C18 json lemma: the per-curve list reads other variables: %s" % sorted(free - {"curve", "np", "isinstance", "float"}))

    class _Cur:
        key = "lemma:C18"; hooks = {}; local_types = {}; loops = {}; loop_anchor = {}; modifies = {}
        abstract_exprs = False; anyraise = False; reveal = ("np",); merge = False; opaque_iterables = True
    E.cur = _Cur(); E.cur_loops = []; E.cur_module = "las"
    st = State()
    arr = z3.Const("curve_data", PyObj)
    item = VPy("CurveItem"); item.attrs = {"data": VObj(arr)}
    st.env["curve"] = item
    is_float = z3.Function("py_isinstance_float", PyObj, B)
    o = z3.Const("ax_fo", PyObj)
    # T-np/T-enc: a float instance is numeric (np.isnan accepts it)
    st.assume(z3.ForAll([o], z3.Implies(is_float(o), WD.is_number(o)), patterns=[is_float(o)]))
    out = []
    res = E.ev(expr, st, out)
    if out or len(res) != 1 or not isinstance(res[0][1], VList):
        raise OutOfSubset("C18 json lemma: the per-curve list is not a single symbolic list (%d results, %d exceptional)" % (len(res), len(out)))
    s1, L_ = res[0]
    items = z3.Function("py_items_of", PyObj, z3.ArraySort(I, PyObj))(arr)
    k = z3.Int("sample")
    x = z3.Select(items, k)
    want = z3.If(z3.And(is_float(x), WD.isnan(x)), none_obj, x)
    got = z3.Select(L_.cols[0], k) if L_.ety == OBJ else None
    if got is None:
        raise OutOfSubset("C18 json lemma: element type %r" % (L_.ety,))
    ax = E.axioms_for(_Cur())
    return [Goal("lemma:C18:json-data-has-one-entry-per-sample", ax + list(s1.pc), L_.n == len_of(arr), "lemma", "lemma:C18"),
            Goal("lemma:C18:json-sample-is-null-iff-float-NaN-else-the-sample-itself", ax + list(s1.pc),
                 z3.ForAll([k], z3.Implies(z3.And(0 <= k, k < L_.n), got == want)), "lemma", "lemma:C18")]


def unit_table_lemma(E):
    """The unit test of LASFile.read's index-unit detection, taken from the real source (the `if` whose body is
    `matches.append(index_unit)`) and evaluated on the real defaults.DEPTH_UNITS table with a SYMBOLIC unit string:
    a unit is recognised as index unit U exactly when it equals one of U's spellings up to letter case."""
    import ast
    from pyvc.state import State, OutOfSubset, Goal
    from pyvc.engine import lift_const
    fn = E.funcs["las.LASFile.read"]
    cands = [n for n in ast.walk(fn) if isinstance(n, ast.If) and n.body
             and (ast.get_source_segment(E.src["las"], n.body[0]) or "").strip().startswith("matches.append(index_unit)")]
    if len(cands) != 1:
        raise OutOfSubset("C18 unit lemma: expected exactly one `if ...: matches.append(index_unit)` in LASFile.read, found %d" % len(cands))
    test = cands[0].test
    names = {x.id for x in ast.walk(test) if isinstance(x, ast.Name) and isinstance(x.ctx, ast.Load)} \
        - {x.id for x in ast.walk(test) if isinstance(x, ast.Name) and isinstance(x.ctx, ast.Store)}

    class _Cur:
        key = "lemma:C18"; hooks = {}; local_types = {}; loops = {}; loop_anchor = {}; modifies = {}
        abstract_exprs = False; anyraise = False; reveal = (); merge = False
    E.cur = _Cur(); E.cur_loops = []; E.cur_module = "las"
    table = E.module_const("defaults", "DEPTH_UNITS")
    u = z3.String("unit_text")
    goals = []
    for iu, poss in table.items():
        st = State()
        item = VPy("HeaderItem"); item.attrs = {"unit": VStr(u)}
        st.env.update({"check_unit": item, "unit": VStr(u), "possibilities": lift_const(tuple(poss)), "index_unit": VStr(iu)})
        free = names - set(st.env) - {"any", "all", "str"}
        if free:
            raise OutOfSubset("C18 unit lemma: the unit test reads other variables: %s" % sorted(free))
        out = []
        res = E.ev(test, st, out)
        if out:
            raise OutOfSubset("C18 unit lemma: the unit test may raise")
        # python facts about the table's literals (checked natively by construction: computed with str.upper here)
        facts = [upper(z3.StringVal(p_)) == z3.StringVal(p_.upper()) for p_ in poss]
        spec = z3.Or([upper(u) == z3.StringVal(p_.upper()) for p_ in poss])
        for n_, (s1, v) in enumerate(res):
            tv = v.t if isinstance(v, VBool) else truthy(E.to_obj(v))
            goals.append(Goal("lemma:C18:index-unit-%s-recognised-iff-equal-to-a-spelling-up-to-case#%d" % (iu, n_),
                              facts + list(s1.pc), tv == spec, "lemma", "lemma:C18"))
    return goals
