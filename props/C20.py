from ._meta import M
META = M["C20"]
