"""Per-property claim records (used by vcheck for evidence and by tools_manifest.py).
The texts are kept current with what the checks actually do."""

COMMON_NOTE = ("Trusted: T-enc (the encoder's model of Python: evaluation order, list/dict/str built-ins, static dispatch by declared "
               "type, logger calls dropped), z3 5.1 / cvc5 1.0.3, the named library assumptions. Termination is not proved. ")

BOUNDED = "bounded stand-in (never counted as proved): "

M = {}

M["C01"] = dict(level="other", design_ref="5/C01",
    technique="bounded run of the write->read contract on the real code (pairwise-covering option product, both engines, exact rational half-ulp oracle); no deductive core yet for the float text round trip",
    level_text="Bounded: real LASFile.write -> lasio.read over curve counts 1..40 x rows x 16 writer-option axes (pairwise covered) x both engines, values over the whole magnitude ladder with NaN placements; "
               "oracle = the input itself with a half-unit-of-last-digit tolerance computed exactly. The float<->text steps (fmt % x, float(token), genfromtxt, textwrap) are library behaviour outside SMT reach.",
    level_note=COMMON_NOTE + "T-fmt, T-wrap, T-np are not assumed here - they are exercised. Known finding C01-wrapped-uniform-lines.",
    assumptions=["supported option combinations only (fields stay whitespace separated, fields fit data_width)"])

M["C02"] = dict(level="other", design_ref="5/C02",
    technique="contract on the real find_sections_in_file (section table incl. inclusive ends) discharged by z3; engine comparison with ground truth and the env-guarded engine-trace hook as bounded stand-in for genfromtxt",
    level_text="Proved: the section table (every title line recorded once, in order, with its tell() cookie; every section end inclusive = line before the next title / last line). "
               "Bounded: both engines against the generator's own matrix over rows x columns x spellings x blank/comment placement x ~A position x CRLF x final newline, counting separately the runs in which the fast path really produced the data (trace hook).",
    level_note=COMMON_NOTE + "numpy.genfromtxt has no contract (T-np is exercised, not assumed).",
    assumptions=[])

M["C03"] = dict(level="other", design_ref="5/C03",
    technique="bounded write->read of in-memory headers built field by field (each item in turn the widest), both versions, three case modes; expected result constructed directly, not by a second parse",
    level_text="Bounded: item lists per section over the conformant alphabet, each item in turn the widest of its section in seven ways, x {1.2, 2.0} x {preserve, upper, lower}; compared field by field with the input.",
    level_note=COMMON_NOTE + "The parse side is regex capture semantics (see C04).", assumptions=[])

M["C04"] = dict(level="exploration", design_ref="5/C04, 2.9",
    technique="bounded only (regex capture semantics are outside SMT reach): exhaustive small-alphabet enumeration of formatted lines through the real read_header_line, hypothesis on the full classes",
    level_text="No deductive core: which substring a backtracking regex binds to a group is not expressible in z3/cvc5 string theories. The contract 'parsing inverts formatting' is checked on the real function over "
               "2.8 million enumerated lines (quick) from a reference formatter: 5^6 paddings x field shapes x six section kinds, all 24 hours of time-like values, no-period lines, numeric units with suffix; plus files through lasio.read().",
    level_note="Bounded, exhaustive only for the stated small alphabets. Known finding C04-param-unit-colon-time.", assumptions=[])

M["C05"] = dict(level="proof", design_ref="5/C05",
    technique="contracts on the real find_sections_in_file and parse_header_items_section (ghost rank functions, consumed-line sets) discharged by z3/cvc5; generated section permutations as bounded stand-in for routing and the data loops",
    level_text="Proved for all files: the section table is exactly the title lines; parse_header_items_section, called on a table entry, builds one item per accepted line of that section's body, in order, "
               "each a function of its own line only, consumes no line beyond the body (plus the next title when the body is empty) and raises LASHeaderError exactly when a non-blank non-comment line does not parse and errors are not ignored. "
               "Routing by title letter, the ~Other loop, the steering update and the data loops are covered by the bounded run (all section orders, title spellings, steering items, last-line kinds).",
    level_note=COMMON_NOTE + "read_header_line is an assumed contract (deterministic in line and section name; may raise).", assumptions=[])

M["C06"] = dict(level="other", design_ref="5/C06",
    technique="bounded: NaN mask computed by the generator (float(token) == float(header NULL), column != 0, numeric column) against the real reader over NULL values x spellings x placements x engines x policies x wrap; write->read NaN preservation",
    level_text="Bounded over 7 NULL values x 5 header spellings x 13 data tokens (incl. 1-ulp neighbours) x every cell/column placement x both engines x {strict, none} x wrapped/unwrapped, and write->read cycles.",
    level_note=COMMON_NOTE, assumptions=[])

M["C07"] = dict(level="other", design_ref="5/C07",
    technique="contract on find_sections_in_file discharged by z3; coordinate-carrying cells through the real reader over (declared, columns, rows) as bounded stand-in for column-count choice, reshape and assignment",
    level_text="Proved: the section table handed to the data readers. Bounded: d 0..5 x c 1..6 x r 1..25 x sign patterns x engines with cells that encode their own (row, column); full statement for WRAP NO, unambiguous clauses for WRAP YES.",
    level_note=COMMON_NOTE, assumptions=[])

M["C08"] = dict(level="exploration", design_ref="5/C08",
    technique="bounded: every ASCII string up to length 4/6 over the statement's alphabet through the real num() against an independent literal recogniser; end-to-end through read() for all section kinds and API/UWI spellings",
    level_text="Bounded, exhaustive to length 4 (quick) / 6 (thorough, 44.5 million strings) with a three-band oracle (must convert / must keep / don't care).",
    level_note=COMMON_NOTE, assumptions=[])

M["C09"] = dict(level="other", design_ref="5/C09",
    technique="per-run contracts whose postconditions mention only the filtered lines (find_sections_in_file, parse_header_items_section) discharged by z3/cvc5; metamorphic runs of the real reader as bounded stand-in for the relation itself",
    level_text="The relation (two runs) is not proved. Proved per run: header results are a function of the non-blank non-comment lines of each body and the section table is exact for every file, so blank/comment insertion in header sections cannot change them. "
               "Everything else (data sections, padding, CRLF, re-wrapping, re-delimiting) is bounded: compositions of 1-3 transformations on generated files and the example corpus.",
    level_note=COMMON_NOTE + "Known findings: COMMA/TAB delimiters, uniform re-wrapping.", assumptions=[])

M["C10"] = dict(level="other", design_ref="5/C10",
    technique="bounded: channel x encoding x line-end matrix against a StringIO reference and the generator's expectation; purity scenarios (reads interleaved with mutations, writes, other reads) in forked children",
    level_text="Bounded: 6 character families x 5 channels x 6-12 codecs x 3 line ends x engines; 380 action sequences of length <= 2 (quick) for purity.",
    level_note=COMMON_NOTE + "codecs and io are exercised, not assumed.", assumptions=[])

M["C11"] = dict(level="other", design_ref="5/C11",
    technique="bounded: read->write->read cycles (2..4) over the example corpus, generated files and mutations x writer option sets; canonical content of consecutive re-reads compared",
    level_text="Bounded over corpus + generated + 30 mutation kinds x option sets x cycles 2..4.",
    level_note=COMMON_NOTE + "Seven known findings (lossy index format, uniform wrapped lines, unquoted text, DLM with wrap, duplicated ~V items, all-digit unit, leading-dot unit).", assumptions=[])

M["C12"] = dict(level="exploration", design_ref="5/C12",
    technique="bounded: pairs of writer configurations differing in one option around several centre configurations; equality of the two read-backs",
    level_text="Bounded over corpus + generated inputs x single-option pairs (version, wrap, widths, spacers, data width, headers) x case modes.",
    level_note=COMMON_NOTE, assumptions=[])

M["C13"] = None  # own file
M["C15"] = None  # own file

M["C14"] = dict(level="other", design_ref="5/C14",
    technique="contracts on the real SectionItems operations the curve API is built from (insert/append with list index rule, getitem, keys, delitem) discharged by z3/cvc5; model-based run of every operation sequence up to a bound on the real LASFile",
    level_text="Proved: SectionItems.insert/append/__getitem__/__delitem__/keys refine list insert/append/index/delete/projection (positions incl. negatives and clamping), with frames. "
               "The LASFile-level operations (set_data, update_curve, item assignment routing, data/index views) are compared with a plain list model over all sequences <= 2-3 operations from a 69-operation alphabet on fresh and read files, and pairs of files.",
    level_note=COMMON_NOTE + "numpy stacking (data property) is library behaviour.", assumptions=[])

M["C16"] = dict(level="other", design_ref="5/C16",
    technique="bounded: full before/after snapshots around three consecutive real write() calls over histories x index shapes x header variants x options; output parsed by an independent mini-parser",
    level_text="Bounded over 15 histories x 5 index shapes x 4 header variants x 3 unit cases x curve counts x versions x wrap x 6 formats; frame, byte-identical repeat, STRT/STOP/STEP truthfulness.",
    level_note=COMMON_NOTE, assumptions=[])

M["C17"] = dict(level="other", design_ref="5/C17",
    technique="contract on the real HeaderItem.__init__ discharged by z3 (field-wise reconstruction) ; pickle protocols 0..5 and deepcopy on files, sections and items as bounded stand-in for the pickle machinery",
    level_text="Proved: HeaderItem.__init__(m, u, v, d, data) stores exactly those fields and derives the session name from the original; __reduce__ passes the original mnemonic and the session name as state (checked structurally). "
               "Bounded: 62k copies (quick) over corpus and generated files with duplicated/blank/case-variant mnemonics, all protocols, three object levels, equality incl. write() bytes and independence.",
    level_note=COMMON_NOTE + "T-pickle (how pickle/copy apply __reduce__ results) is exercised, not assumed.", assumptions=[])

M["C18"] = dict(level="exploration", design_ref="5/C18",
    technique="bounded: strict JSON parse, csv.reader, openpyxl reload, df()/set_data_from_df and depth-unit tables on generated LASFiles",
    level_text="Bounded over header value types x curve kinds x 108 to_csv option combinations x unit spellings (all of DEPTH_UNITS in any case).",
    level_note=COMMON_NOTE, assumptions=[])

M["C19"] = dict(level="other", design_ref="5/C19",
    technique="contract on the real parse_header_items_section: exception-freedom outside the guarded regex call and per-line independence, discharged by z3/cvc5; junk-line injection as bounded stand-in",
    level_text="Proved: in parse_header_items_section the only call that may raise is read_line, inside the try; with ignore_header_errors the function never raises and without it only LASHeaderError, exactly when some non-blank non-comment line fails to parse; "
               "each item depends on its own line only, so junk lines add items or are skipped and never change or reorder genuine items. Item construction (SectionParser.*) and the steering lookups are bounded: 5k junk-injection cases (quick).",
    level_note=COMMON_NOTE + "read_header_line assumed deterministic; SectionParser.__call__ assumed not to raise (bounded).", assumptions=[])

M["C20"] = dict(level="proof", design_ref="5/C20",
    technique="fault enumeration on the real code: an OSError injected at every k-th low-level I/O operation of a clean run, plus input-induced failures, observing .closed on the handles while the exception is alive",
    level_text="Every k of every clean trace (<= 112 operations quick, 193 thorough) x call kinds read(str), read(Path), write(path), to_csv(path), caller-supplied objects; 12 input-induced failure classes.",
    level_note="Enumeration is complete per clean trace; the set of fixtures/options is a sample.", assumptions=[])


# ---- updates after the deductive cores were built (DESIGN section 4/7)
def _upd(pid, **kw):
    M[pid].update(kw)

_P = "Proved on every run (all inputs, all iterations): "
_B = " Bounded (never counted as proved): "
_upd("C01", level="other",
     technique="contracts on the real cell formatter (W5), the data-row loop (W7, unwrapped) and the reader's column-count block (R5) discharged by z3; regular-language lemma on the reader's substitution table; bounded write->read over the option product",
     level_text=_P + "format_data_section_line writes NaN as the current NULL value and every other cell as spacer + (fmt % x) right-justified unless the width is -1; the row loop writes one physical line per row holding the cells of that row in curve order (unwrapped); "
                "LASFile.read calls the column sniffer with the cursor at the section title and uses the sniffed count or, when inconsistent, the declared curve count; no read substitution fires inside a well-formed numeric token." + _B +
                "the float<->text steps, textwrap, genfromtxt and the whole write->read relation over curve counts 1..40 x 16 option axes x both engines.")
_upd("C02", level="other",
     technique="contracts on the real find_sections_in_file, the normal engine's token generator and the numpy engine's row arithmetic discharged by z3; substitution-table lemma; engine comparison against ground truth with the engine-trace hook as bounded stand-in for genfromtxt",
     level_text=_P + "the section table; the normal engine tokenises exactly the non-comment non-empty lines of the section body, in order, and consumes no line beyond it; the numpy engine hands genfromtxt skip_header = title+1 and max_rows = number of body lines after rewinding the file." + _B +
                "genfromtxt itself and the equality of the two engines' arrays, over layouts x ~A placements x CRLF x final newline.")
_upd("C03", level="other",
     technique="contracts on the real standardize_value, get_section_widths, the three header-section loops of writer.write (obligation: blank run between unit and value >= 1) and the reader's value conversion discharged by z3; bounded write->read of headers",
     level_text=_P + "widths are the maxima over the section's items of len(original mnemonic) and len(unit)+1+len(the field printed after it, chosen by the ORIGINAL mnemonic's order); values of ~Well/~Parameter are normalised before measuring; hence in every header line of ~Well, ~Parameter and ~Curves "
                "at least one blank separates unit and value, whatever the other items are; on reading, a value is kept verbatim unless it is a numeric literal." + _B + "the regex parse of the written line and the full write->read comparison.")
_upd("C06", level="other")
_upd("C07", level="other",
     technique="contracts on find_sections_in_file, the token generator, the column-count block R5 (call-site precondition: cursor at the section title) and the column-assignment loop R7 discharged by z3; substitution-table lemma; coordinate-carrying cells as bounded stand-in for numpy reshape",
     level_text=_P + "the column count handed to the engine is the sniffed count or the declared curve count, computed with the cursor at the title; column j of the engine's output becomes the data of curve j; declared curves keep their place and metadata; surplus columns become new unnamed curves after them; "
                "exactly one flag per curve records which got data (the NaN fill loop that follows is bounded)." + _B + "numpy reshape of the token stream and the whole statement over d 0..5 x c 1..6 x r 1..25 x engines.")
_upd("C09", level="other")
_upd("C10", level="other",
     technique="contracts on the real defaults.get_default_items and LASFile.__init__ (every section and item freshly allocated, nothing module-level reachable) discharged by z3; channel x encoding matrix and purity scenarios as bounded stand-in",
     level_text=_P + "a new LASFile's four header sections and all their items are objects that did not exist before the call and the sections are pairwise distinct - so two LASFile objects never share default state." + _B +
                "codecs, channel dispatch and the purity of read() over interleavings (380 action sequences).")
_upd("C11", level="other",
     technique="writer contracts of C03 (idempotent normalisation, widths, pad >= 1) discharged by z3; read->write cycles as bounded stand-in",
     level_text=_P + "the in-memory normalisation done by write() is idempotent (a second write measures and writes the same values) and unit and value are always separated by a blank, so a unit can never absorb a value through the writer's layout." + _B +
                "everything that goes through the regex parser: cycles 2..4 over corpus, generated files and 30 mutation kinds.")
_upd("C14", level="other")
_upd("C16", level="other",
     technique="frame contracts on the real update_units_from_index_curve, update_start_stop_step, the refresh block W2 and the header loops W3 of writer.write discharged by z3; full before/after snapshots around three writes as bounded stand-in",
     level_text=_P + "update_units_from_index_curve assigns only the unit of STRT/STOP/STEP and of the first curve; update_start_stop_step only the value of STRT/STOP/STEP; the refresh block calls them and nothing else and leaves all values alone when the index is unchanged and STOP agrees; "
                "the header loops assign only the value of ~Well/~Parameter items (normalisation); KeyError exactly when STRT/STOP/STEP is missing." + _B + "byte-identical second write, truthfulness of STRT/STOP/STEP in the output, VERS/WRAP handling.")
_upd("C19", level="other")

# ---- later cores (DESIGN 7.2): K4, R0-R3/R6, purity of configure_metadata_patterns, title-dispatch lemma, unit-table lemma
_upd("C04", level="other",
     technique="purity/shape contract on the real configure_metadata_patterns and a title-dispatch lemma (the real SectionParser.__init__ executed on a symbolic title) discharged by z3; the capture semantics of the regular expressions stay bounded: "
               "exhaustive small-alphabet enumeration of formatted lines through the real read_header_line, hypothesis on the full classes",
     level_text=_P + "configure_metadata_patterns updates no object outside the call (no cache, no module-level state) and yields two patterns - the time-colon one first - exactly in ~Parameter and one elsewhere; "
                "SectionParser picks the curves/params/metadata parser from the first letter after the tilde of the title, case-insensitively, for every title." + _B +
                "which substring a backtracking regex binds to a group is not expressible in z3/cvc5 string theories: 'parsing inverts formatting' is checked on the real function over 2.8 million enumerated lines (quick).")
_upd("C05",
     technique="contracts on the real find_sections_in_file, determine_section_type, parse_header_items_section and on the whole section loop of LASFile.read (blocks R1 steering, R2 routing, R3 ~Other lines used through their contracts) "
               "discharged by z3/cvc5; title-dispatch lemma; generated section permutations as bounded stand-in for the data loops",
     level_text=_P + "the section table is exactly the title lines, strictly increasing, with no title line inside a body; the section loop of LASFile.read is left only by exhaustion and dispatches every table entry by its kind: "
                "every header-item section is parsed by parse_header_items_section positioned on its own title with its own line range and stored under the key its title demands, every free-text section is read from its own lines, "
                "every data section is remembered in file order; parse_header_items_section builds one item per accepted line of that body, in order, each a function of its own line only, and consumes no line beyond the body; "
                "VERS/WRAP/DLM are taken only from ~V and NULL only from ~W." + _B + "the data loops' interplay and las3 sections: all section orders, title spellings, steering items, last-line kinds.")
_upd("C06",
     technique="contracts on the real cell formatter (NaN is written as the current NULL value), on the steering block R1 of LASFile.read (NULL is taken from ~Well whenever it is there, whatever its value) and symbolic execution of the real get_substitutions "
               "on the real policy tables; generator-computed NaN masks through the real reader as bounded stand-in for the numpy comparison")
_upd("C09",
     technique="contracts K1, K3, K4 (inspect_data_section: the reported column count is the token count of every sampled data line of the stripped, substituted text), K5a, R3, R5 and the substitution-table lemma discharged by z3/cvc5; metamorphic runs as bounded stand-in")
_upd("C10",
     technique="contracts on the real defaults.get_default_items and LASFile.__init__ (every section and item freshly allocated), on reader.open_file for a text argument (a multi-line string reaches the reader as StringIO(that string)) and the purity "
               "contract of configure_metadata_patterns discharged by z3; channel x encoding matrix and purity scenarios as bounded stand-in")
_upd("C12",
     technique="symbolic execution of the real get_section_order_function (writer) and SectionParser.__init__ + the order lookup of SectionParser.metadata (reader) on the real ORDER_DEFINITIONS table with a symbolic mnemonic; "
               "substitution-table lemma (wrap on/off changes the engine that re-reads the file); configuration pairs as bounded stand-in")
_upd("C19",
     technique="contract on the real parse_header_items_section (exception-freedom outside the guarded regex call, per-line independence), item constructors, steering block R1 and the purity contract of configure_metadata_patterns "
               "(a junk line cannot influence how a later line is parsed through hidden state) discharged by z3/cvc5; junk-line injection as bounded stand-in")

# ---- last session: full header-line layout (W3), data-section title block (W6), set_data after np.asarray, __setattr__ with an item
_LAYOUT = (" Every header line of ~Well, ~Parameter and ~Curves is exactly: original mnemonic padded to the section's left width, a period, the unit, "
           "a blank run up to the section's middle width, then value and description in the order the table gives for the ORIGINAL mnemonic, separated by ' : '.")
_TITLE = (" What writer.write emits for the title of the data section begins with data_section_header + ' ' and ends with the line terminator, "
          "whatever wrap, the widths and the mnemonics are (text that passed through a re-flowing library call is unknown text).")
for _p in ("C03", "C11", "C12"):
    M[_p]["level_text"] = M[_p]["level_text"].replace(_B, _LAYOUT + (_TITLE if _p != "C03" else "") + _B, 1) if _B in M[_p]["level_text"] \
        else _P + _LAYOUT.strip() + (_TITLE if _p != "C03" else "") + " " + M[_p]["level_text"]
M["C01"]["level_text"] = M["C01"]["level_text"].replace(_B, _TITLE + _B, 1)
_upd("C12", level="other",
     technique=M["C12"]["technique"].replace("configuration pairs as bounded stand-in",
                                             "contracts on the real get_section_widths, the header loops W3 (full line layout), the cell formatter W5, the row loop W7 and the data-section title block W6 discharged by z3; configuration pairs as bounded stand-in"))
_upd("C14",
     technique="contracts on the real SectionItems operations the curve API is built from, on the LASFile curve methods and on LASFile.set_data after its np.asarray call (existing curves keep their place, surplus columns get new placeholder curves, "
               "names bound to curves in order, renumbering reached on every path, nothing assigned on the LASFile object) discharged by z3/cvc5; model-based run of every operation sequence up to a bound on the real LASFile",
     level_text=M["C14"]["level_text"].replace("The LASFile-level operations (set_data, update_curve,", "LASFile.set_data after np.asarray(array_like), for names=None and names=[...]: existing curves keep their place and (without names) their original mnemonics, "
                                               "surplus columns get new placeholder curves, curve q gets name q (blank beyond the caller's list, no IndexError), assign_duplicate_suffixes is reached after the last rename on every path, "
                                               "and no attribute of the LASFile object itself is assigned. The remaining LASFile-level behaviour (set_data's column binding and DataFrame branch, update_curve,"))
_upd("C16",
     technique=M["C16"]["technique"].replace("discharged by z3;", "and of LASFile.set_data (it never assigns index_initial, the snapshot write() compares the index with) discharged by z3;"))

