"""Lemma shared by C01/C02/C07/C09: the regular-expression substitutions the reader
applies to every data line under the default read policy (defaults.READ_SUBS, re-read
from the source on every run) never fire inside a well-formed numeric token
([sign] digits [. digits] [e[sign]digits] and the .5 / 5. forms) - so a cell that the
writer printed with %f/%e/%g, or any plain decimal number, reaches the tokeniser
unchanged.  One z3 regular-language emptiness query per substitution."""
import z3
from pyvc import rx
from pyvc.state import Goal, OutOfSubset
import specs.num_lang as NL


def lemmas(E, prop):
    read_subs = E.module_const("defaults", "READ_SUBS")
    policies = E.module_const("defaults", "READ_POLICIES")
    y = z3.String("token")
    RS = z3.ReSort(z3.StringSort())
    anyc = z3.Full(RS)
    token = NL.GENEROUS.to_z3()
    goals = []
    for key in policies["default"]:
        for pat, repl in read_subs[key]:
            try:
                R = rx.from_python(pat.pattern)
            except ValueError as e:
                raise OutOfSubset("read substitution %s: %s" % (key, e))
            inside = z3.Concat(anyc, R.to_z3(), anyc)
            g = Goal("lemma:%s:read-substitution-%s-never-fires-inside-a-numeric-token" % (prop, key), [],
                     z3.Not(z3.InRe(y, z3.Intersect(token, inside))), "lemma", "lemma:" + prop)
            g.native_replay = {"kind": "read-sub", "key": key, "model_var": "token", "as": "token"}
            goals.append(g)
    return goals
