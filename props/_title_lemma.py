"""Lemma shared by C04/C05/C03: which parser a header section gets depends only on the letter after the tilde,
case-insensitively.  The REAL SectionParser.__init__ is executed with a SYMBOLIC title (versions 1.2 and 2.0) and, on every
path, section_name2 / func must be the ones the first two characters of the upper-cased title demand:
~C -> Curves/curves, ~P -> Parameter/params, ~W -> Well/metadata, ~V -> Version/metadata, anything else -> the title itself."""
import z3
from pyvc.values import *
from pyvc.state import State, OutOfSubset, Goal
from pyvc import calls as C

WANT = (("~C", "Curves", "curves"), ("~P", "Parameter", "params"), ("~W", "Well", "metadata"), ("~V", "Version", "metadata"))


def lemmas(E, prop):
    class _Cur:
        key = "lemma:" + prop; hooks = {}; local_types = {}; loops = {}; loop_anchor = {}; modifies = {}
        abstract_exprs = False; anyraise = False; reveal = (); merge = False
    E.cur = _Cur(); E.cur_loops = []
    goals = []
    init = E.funcs["reader.SectionParser.__init__"]
    title = z3.String("section_title")
    up = upper(title)
    for version in (1.2, 2.0):
        E.cur_module = "reader"
        st = State()
        st.env = {"self": VPy("SectionParser")}
        out = []
        rs = C.inline_call(E, init, {}, [st.env["self"], VStr(title)], {"version": VConst(version)}, st, out, init,
                           "reader.SectionParser.__init__", module="reader")
        for n_, o in enumerate(out):
            goals.append(Goal("lemma:%s:SectionParser.__init__-never-raises(%s@line%s);v=%s#%d" % (
                prop, o.exc, getattr(o.node, "lineno", "?"), version, n_), list(o.st.pc), z3.BoolVal(False), "lemma", "lemma:" + prop))
        if not rs:
            raise OutOfSubset("SectionParser.__init__ has no normal exit")
        for n_, (s1, _) in enumerate(rs):
            me = s1.env["self"] if "self" in s1.env else None
            me = me or st.env["self"]
            name2, func = me.attrs.get("section_name2"), me.attrs.get("func")
            if not isinstance(name2, VStr) or func is None:
                raise OutOfSubset("SectionParser.__init__ leaves section_name2/func unset on a path")
            fname = getattr(func, "name", None) or getattr(func, "attr", None) or str(func)
            for pre, sec, meth in WANT:
                goals.append(Goal("lemma:%s:title-%s*-gets-the-%s-parser;v=%s#%d" % (prop, pre, sec, version, n_),
                                  list(s1.pc) + [z3.PrefixOf(z3.StringVal(pre), up)],
                                  z3.And(name2.t == z3.StringVal(sec), z3.BoolVal(meth in fname)), "lemma", "lemma:" + prop))
            goals.append(Goal("lemma:%s:any-other-title-keeps-its-own-name;v=%s#%d" % (prop, version, n_),
                              list(s1.pc) + [z3.Not(z3.PrefixOf(z3.StringVal(p_), up)) for p_, _, _ in WANT],
                              name2.t == title, "lemma", "lemma:" + prop))
    return goals
