"""pyvc - verification-condition generator for a subset of Python.

The engine symbolically executes the *real* source of /repo (re-read with
``ast`` on every run), one path at a time, against sidecar contracts
(/verif/specs) and emits one SMT goal per (path, clause).  Goals are discharged
by z3 and cvc5 (pyvc.smt).  See /verif/DESIGN.md section 2.
"""
