"""Mechanical extraction of statement blocks from the two large functions
(LASFile.read, writer.write).  A block is a contiguous run of statements of one
statement list, located by source-text anchors; it is verified as it stands, with
its free variables as parameters (DESIGN 2.1).  Nothing inside the block is dropped
except docstrings and logger calls (dropped everywhere)."""
import ast
from .state import OutOfSubset


def _text(E, module, n):
    return (ast.get_source_segment(E.src[module], n) or "").strip()


def find_block(E, qual, start_anchor, end_anchor, occurrence=0):
    """statements [s_i .. s_j] of the innermost statement list that contains a
    statement whose text starts with start_anchor; s_j is the first statement at or
    after s_i (same list) whose text contains end_anchor."""
    module = qual.split(".")[0]
    fn = E.funcs[qual]
    found = []

    after = start_anchor.startswith("after:")
    if after:
        # the block starts at the statement FOLLOWING the one that matches (robust against edits of the block's own first line)
        start_anchor = start_anchor[len("after:"):]

    def visit(stmts):
        for i0, s in enumerate(stmts):
            i = i0 + 1 if after else i0
            if _text(E, module, s).startswith(start_anchor) and i < len(stmts):
                if isinstance(end_anchor, int):
                    # a fixed number of statements from the anchor on (whatever the later ones look like)
                    if i + end_anchor <= len(stmts):
                        found.append(stmts[i:i + end_anchor])
                else:
                    for j in range(i, len(stmts)):
                        if end_anchor in _text(E, module, stmts[j]):
                            found.append(stmts[i:j + 1])
                            break
            for attr in ("body", "orelse", "finalbody"):
                sub = getattr(s, attr, None)
                if isinstance(sub, list) and sub and isinstance(sub[0], ast.stmt):
                    visit(sub)
            if isinstance(s, ast.Try):
                for h in s.handlers:
                    visit(h.body)

    visit(fn.body)
    if len(found) <= occurrence:
        raise OutOfSubset("block %r .. %r not found in %s" % (start_anchor, end_anchor, qual))
    return found[occurrence], fn
