"""Call dispatch: builtins, string/list/dict/file methods, contracts, inlining,
constructors, super() of list / OrderedDict."""
import ast
import z3

from .values import *
from .state import *
from .engine import SpecCtx, lift_const, is_true, is_false

LOGGER_METHODS = {"debug", "info", "warning", "error", "trace_lasio", "critical"}


def ev_call(E, n, st, out):
    f = n.func
    # logger.xxx(...) : dropped (DESIGN 2.1), arguments not evaluated
    if isinstance(f, ast.Attribute) and isinstance(f.value, ast.Name) and f.value.id == "logger" and f.attr in LOGGER_METHODS:
        if getattr(E.cur, "anyraise", False):
            # exception-complete (typestate) contracts: the logger call itself is dropped, but its ARGUMENT expressions are
            # evaluated - `logger.debug("...".format(f.tell()))` can raise like any other call
            cur = [st]
            try:
                for a_ in list(n.args) + [k_.value for k_ in n.keywords]:
                    nxt = []
                    for s1 in cur:
                        nxt += [s2 for s2, _v in E.ev(a_, s1, out)]
                    cur = nxt
                return [(s1, VNone()) for s1 in cur]
            except OutOfSubset:
                E.may_raise_any(st, out, n, "logger argument")
                return [(st, VNone())]
        return [(st, VNone())]
    # super(C, self).m(...)
    if (isinstance(f, ast.Attribute) and isinstance(f.value, ast.Call)
            and isinstance(f.value.func, ast.Name) and f.value.func.id == "super"):
        sup = f.value
        cname = sup.args[0].id
        res = []
        for st1, vals in E.evs([sup.args[1]] + list(n.args), st, out):
            res += super_call(E, cname, vals[0], f.attr, vals[1:], st1, out, n)
        return res
    # statement-level list mutation on a Name / dict entry receiver
    if isinstance(f, ast.Attribute) and f.attr in ("append",) and isinstance(f.value, (ast.Name, ast.Subscript)):
        recs = E.ev(f.value, st, out)
        res = []
        for st1, recv in recs:
            if isinstance(recv, (VList, VCList)):
                for st2, vals in E.evs(n.args, st1, out):
                    new = list_append(E, recv, vals[0], st2)
                    E.assign(f.value, new, st2, out, n)
                    res.append((st2, VNone()))
            else:
                for st2, vals in E.evs(n.args, st1, out):
                    res += call_value(E, VBound(recv, f.attr), vals, {}, st2, out, n)
        return res
    # evaluate callee, args, kwargs
    res = []
    for st1, fv in E.ev(f, st, out):
        argnodes = []
        star = None
        for a in n.args:
            if isinstance(a, ast.Starred):
                raise OutOfSubset("*args call")
            argnodes.append(a)
        kwnames = [k.arg for k in n.keywords]
        kwnodes = [k.value for k in n.keywords]
        for st2, vals in E.evs(argnodes + kwnodes, st1, out):
            args = vals[: len(argnodes)]
            kw = {}
            for nm, v in zip(kwnames, vals[len(argnodes):]):
                if nm is None:
                    if not isinstance(v, VDict):
                        raise OutOfSubset("**kwargs of non-dict")
                    kw.update(v.d)
                else:
                    kw[nm] = v
            res += call_value(E, fv, args, kw, st2, out, n)
    return res


def list_append(E, recv, val, st):
    if isinstance(recv, VCList):
        return VCList(recv.items + [val])
    terms = flatten(val)
    if len(terms) != len(recv.cols):
        raise OutOfSubset("append of wrong arity")
    cols = [z3.Store(c, recv.n, t) for c, t in zip(recv.cols, terms)]
    return VList(recv.n + 1, cols, recv.ety)


def call_value(E, fv, args, kw, st, out, node):
    if isinstance(fv, VExt):
        return call_ext(E, fv.name, args, kw, st, out, node)
    if isinstance(fv, VBound):
        return call_bound(E, fv, args, kw, st, out, node)
    if isinstance(fv, VObj):
        E.notes.append("opaque call of an attribute of an opaque object")
        E.may_raise_any(st, out, node, "opaque call")
        f = z3.Function("py_call_%d" % len(args), *([PyObj] * (len(args) + 2)))
        return [(st, VObj(f(fv.t, *[E.to_obj(a) for a in args])))]
    if isinstance(fv, VRef):
        return E.call_method(fv, "__call__", args, kw, st, out, node)
    if isinstance(fv, VType):
        res = []
        for cname in ("HeaderItem", "CurveItem"):
            c = fv.tag == CLS_IDS[cname]
            if is_false(c):
                continue
            st2 = st.fork(); st2.assume(c); st2.trace.append("%s:type=%s" % (getattr(node, "lineno", "?"), cname))
            res += construct(E, cname, args, kw, st2, out, node)
        return res
    if isinstance(fv, VFunc):
        return inline_call(E, fv.node, fv.closure, args, kw, st, out, node, fv.qual)
    raise OutOfSubset("call of %r" % (fv,))


# ------------------------------------------------------------------ builtins
def call_ext(E, name, args, kw, st, out, node):
    if name.startswith("builtin:"):
        return call_builtin(E, name[8:], args, kw, st, out, node)
    if name.startswith("class:"):
        return construct(E, name[6:], args, kw, st, out, node)
    if name.startswith("exc:"):
        return [(st, VConst(("exc", name[4:])))]
    if name in E.funcs:
        return E.call_function(name, args, kw, st, out, node)
    if name.startswith("mod:"):
        parts = name[4:].split(".")
        if parts[0] in ("reader", "writer", "defaults", "exceptions") and len(parts) == 2:
            q = "%s.%s" % (parts[0], parts[1])
            if q in E.funcs:
                return E.call_function(q, args, kw, st, out, node)
            if parts[0] == "exceptions":
                return [(st, VConst(("exc", parts[1])))]
        return call_lib(E, name[4:], args, kw, st, out, node)
    if name.startswith("lib:"):
        return call_lib(E, name[4:], args, kw, st, out, node)
    raise OutOfSubset("call of external %s" % name)


def call_lib(E, name, args, kw, st, out, node):
    """Library call: assumed contract if registered, otherwise opaque result
    that may raise anything."""
    cs = E.reg.get("lib:" + name)
    if cs:
        return E.apply_contract(cs[0], _bind_simple(cs[0], args, kw), st, out, node)
    E.notes.append("opaque library call %s (result unconstrained, may raise)" % name)
    E.may_raise_any(st, out, node, name)
    return [(st, VObj(z3.Const(fresh_name("lib_" + name.replace(".", "_")), PyObj)))]


def _bind_simple(c, args, kw):
    names = list(c.params)
    m = dict(zip(names, args))
    m.update(kw)
    return m


def call_builtin(E, name, args, kw, st, out, node):
    if name == "len":
        v = args[0]
        if isinstance(v, VStr):
            return [(st, VInt(z3.Length(v.t)))]
        if isinstance(v, VList):
            return [(st, VInt(v.n))]
        if isinstance(v, (VCList, VTuple)):
            return [(st, VInt(len(v.items)))]
        if isinstance(v, VDict):
            return [(st, VInt(len(v.d)))]
        if isinstance(v, VRef) and E.class_info(v.cls).get("seq"):
            return [(st, VInt(E.seq_len(st, v.t)))]
        if isinstance(v, VObj):
            t = len_of(v.t)
            st.assume(t >= 0)
            E.may_raise_any(st, out, node, "len")
            return [(st, VInt(t))]
        raise OutOfSubset("len of %r" % (v,))
    if name == "str":
        return [(st, VStr(E.pystr(args[0], st)))]
    if name == "int":
        v = args[0]
        if isinstance(v, VInt):
            return [(st, v)]
        if isinstance(v, VObj):
            E.may_raise_any(st, out, node, "int")
            return [(st, VInt(z3.Function("py_int_of", PyObj, I)(v.t)))]
        raise OutOfSubset("int() of %r" % (v,))
    if name == "bool":
        return [(st, VBool(E.truthy(args[0], st)))]
    if name == "isinstance":
        return [(st, VBool(isinstance_(E, args[0], args[1], st)))]
    if name == "hasattr":
        return [(st, VBool(hasattr_(E, args[0], args[1], st)))]
    if name == "type":
        v = args[0]
        if isinstance(v, VRef):
            return [(st, VType(z3.Select(E.heap(st, "$cls"), v.t)))]
        raise OutOfSubset("type() of %r" % (v,))
    if name in ("enumerate", "range", "zip"):
        return [(st, VTuple([VConst(("iter", name)), VTuple(args), VDict(kw)]))]
    if name in ("max", "min") and len(args) == 2 and all(isinstance(x, VInt) for x in args):
        a_, b_ = args[0].t, args[1].t
        return [(st, VInt(z3.If(a_ >= b_, a_, b_) if name == "max" else z3.If(a_ <= b_, a_, b_)))]
    if name == "max":
        return [(st, max_(E, args, st, out, node))]
    if name in ("any", "all"):
        v = args[0]
        if isinstance(v, VCList):
            ts = [E.truthy(x, st) for x in v.items]
            return [(st, VBool(z3.Or(ts + [z3.BoolVal(False)]) if name == "any" else z3.And(ts + [z3.BoolVal(True)])))]
        if isinstance(v, VList) and v.ety == BOOL:
            k = z3.Int(fresh_name("q"))
            body = z3.Select(v.cols[0], k)
            rng = z3.And(0 <= k, k < v.n)
            return [(st, VBool(z3.Exists([k], z3.And(rng, body)) if name == "any" else z3.ForAll([k], z3.Implies(rng, body))))]
        raise OutOfSubset("any/all of %r" % (v,))
    if name == "iter":
        v = args[0]
        if isinstance(v, (VNone, VInt, VBool)) or (isinstance(v, VConst) and isinstance(v.obj, (int, float))):
            E.raise_(st, "TypeError", out, node)      # iter() of a non-iterable
            return []
        if isinstance(v, VObj):
            E.may_raise_any(st, out, node, "iter")
        return [(st, v)]
    if name == "chr":
        return [(st, VStr(z3.Function("py_chr", I, S)(args[0].t)))]
    if name == "open":
        return call_lib(E, "open", args, kw, st, out, node)
    if name == "set" and args and isinstance(args[0], VCList) and all(isinstance(x, VStr) and z3.is_string_value(z3.simplify(x.t)) for x in args[0].items):
        seen, out_ = set(), []
        for x in args[0].items:
            k_ = pystr(z3.simplify(x.t))
            if k_ not in seen:
                seen.add(k_); out_.append(x)
        return [(st, VCList(out_))]
    if name == "set" and args and isinstance(args[0], VList) and args[0].ety == INT:
        # only len(set(xs)) is supported: the number of distinct values, axiomatised for the value 1 (T-enc)
        xs = args[0]
        d = z3.Int(fresh_name("distinct"))
        q_ = z3.Int(fresh_name("dq"))
        st.assume(z3.And(d >= 0, d <= xs.n, (d == 0) == (xs.n == 0)))
        st.assume((d == 1) == z3.And(xs.n > 0, z3.ForAll([q_], z3.Implies(z3.And(0 <= q_, q_ < xs.n), z3.Select(xs.cols[0], q_) == z3.Select(xs.cols[0], 0)))))
        return [(st, VList(d, [z3.Const(fresh_name("setelems"), z3.ArraySort(I, I))], INT))]
    if name in ("set", "tuple", "list", "dict"):
        if not args:
            return [(st, VCList([]) if name != "dict" else VDict())]
        return [(st, args[0])]
    if name == "float":
        E.may_raise_any(st, out, node, "float")
        return [(st, VObj(z3.Function("py_float", PyObj, PyObj)(E.to_obj(args[0]))))]
    raise OutOfSubset("builtin %s" % name)


def max_(E, args, st, out, node):
    v = args[0]
    if len(args) != 1:
        raise OutOfSubset("max of several args")
    if isinstance(v, VCList):
        if not v.items:
            E.raise_(st.fork(), "ValueError", out, node)
            raise OutOfSubset("max of empty concrete list")
        m = z3.Int(fresh_name("max"))
        ts = [x.t for x in v.items]
        st.assume(z3.And([m >= t for t in ts]))
        st.assume(z3.Or([m == t for t in ts]))
        return VInt(m)
    if isinstance(v, VList) and v.ety == INT:
        # T-enc: built-in contract of max over a non-empty int list
        E.goal(st, "safety:max-nonempty", v.n > 0, "safety", node)
        m = z3.Int(fresh_name("max"))
        k = z3.Int(fresh_name("mk"))
        w = z3.Int(fresh_name("mw"))
        st.assume(z3.ForAll([k], z3.Implies(z3.And(0 <= k, k < v.n), m >= z3.Select(v.cols[0], k))))
        st.assume(z3.And(0 <= w, w < v.n, m == z3.Select(v.cols[0], w)))
        return VInt(m)
    raise OutOfSubset("max of %r" % (v,))


CLS_IDS = {"HeaderItem": 1, "CurveItem": 2, "SectionItems": 3, "LASFile": 4}


def _subclass(E, c, base):
    todo = [c]
    while todo:
        x = todo.pop()
        if x == base:
            return True
        todo += E.reg.classes.get(x, {}).get("bases", [])
    return False


def isinstance_(E, v, tv, st):
    if isinstance(tv, VTuple):
        return z3.Or([isinstance_(E, v, t, st) for t in tv.items])
    if not isinstance(tv, VExt):
        raise OutOfSubset("isinstance with %r" % (tv,))
    tn = tv.name.split(":")[-1]
    if tn in ("str", "basestring"):
        if isinstance(v, VStr):
            return z3.BoolVal(True)
        if isinstance(v, VObj):
            return is_str(v.t)
        return z3.BoolVal(False)
    if tn == "int":
        if isinstance(v, (VInt, VBool)):
            return z3.BoolVal(True)
        if isinstance(v, VObj):
            return z3.Function("py_is_int", PyObj, B)(v.t)
        return z3.BoolVal(False)
    if tn == "slice":
        if isinstance(v, VConst) and isinstance(v.obj, tuple) and v.obj and v.obj[0] == "slice":
            return z3.BoolVal(True)
        if isinstance(v, VObj):
            return z3.Function("py_is_slice", PyObj, B)(v.t)
        return z3.BoolVal(False)
    if tn in E.reg.classes:
        if isinstance(v, VRef):
            if _subclass(E, v.cls, tn):
                return z3.BoolVal(True)
            if _subclass(E, tn, v.cls):
                # static type is a base of tn: decided by the dynamic class tag
                ids = [CLS_IDS[c] for c in E.reg.classes if _subclass(E, c, tn) and c in CLS_IDS]
                tag = z3.Select(E.heap(st, "$cls"), v.t)
                return z3.Or([tag == i for i in ids])
            return z3.BoolVal(False)
        if isinstance(v, VObj):
            return z3.Function("py_isinstance_" + tn, PyObj, B)(v.t)
        return z3.BoolVal(False)
    if isinstance(v, VObj):
        return z3.Function("py_isinstance_" + tn.replace(".", "_"), PyObj, B)(v.t)
    if tn in ("dict",):
        return z3.BoolVal(isinstance(v, VDict))
    return z3.BoolVal(False)


def hasattr_(E, v, name, st):
    nt = z3.simplify(name.t)
    if not z3.is_string_value(nt):
        raise OutOfSubset("hasattr with symbolic name")
    a = pystr(nt)
    if isinstance(v, VRef):
        if a in E.all_fields(v.cls) or E.find_method(v.cls, a):
            return z3.BoolVal(True)
        raise OutOfSubset("hasattr(%s, %s)" % (v.cls, a))
    if isinstance(v, VFile):
        return z3.BoolVal(a in ("close", "write", "read", "readline", "seek", "tell"))
    if isinstance(v, (VStr, VInt, VBool, VNone)):
        return z3.BoolVal(hasattr({VStr: "", VInt: 0, VBool: True, VNone: None}[type(v)], a))
    if isinstance(v, VObj):
        return z3.Function("py_hasattr_" + a, PyObj, B)(v.t)
    raise OutOfSubset("hasattr of %r" % (v,))


# ------------------------------------------------------------------ bound methods
def call_bound(E, b, args, kw, st, out, node):
    r, m = b.recv, b.name
    if isinstance(r, VStr):
        return str_method(E, r, m, args, kw, st, out, node)
    if isinstance(r, VFile):
        return file_method(E, r, m, args, kw, st, out, node)
    if isinstance(r, VRef):
        return E.call_method(r, m, args, kw, st, out, node)
    if isinstance(r, VPy):
        q = E.find_method(r.cls, m)
        return inline_call(E, E.funcs[q], {}, [r] + list(args), kw, st, out, node, q, module=q.split(".")[0])
    if isinstance(r, VDict):
        if m == "get":
            k = args[0]
            dflt = args[1] if len(args) > 1 else VNone()
            if isinstance(k, VStr):
                kt = z3.simplify(k.t)
                if z3.is_string_value(kt):
                    return [(st, r.d.get(pystr(kt), dflt))]
                # symbolic key on a table of strings: an if-then-else chain over the table's keys
                skeys = [k_ for k_ in r.d if isinstance(k_, str)]
                if skeys and all(isinstance(r.d[k_], VStr) for k_ in skeys) and isinstance(dflt, VStr) and len(skeys) == len(r.d):
                    t_ = dflt.t
                    for k_ in reversed(skeys):
                        t_ = z3.If(k.t == z3.StringVal(k_), r.d[k_].t, t_)
                    return [(st, VStr(t_))]
                # symbolic key: ite chain (all values must be strings)
                vals = [(key, v) for key, v in r.d.items() if isinstance(key, str)]
                if all(isinstance(v, VStr) for _, v in vals) and isinstance(dflt, VStr):
                    t = dflt.t
                    for key, v in reversed(vals):
                        t = z3.If(k.t == z3.StringVal(key), v.t, t)
                    return [(st, VStr(t))]
                raise OutOfSubset("dict.get with symbolic key and non-str values")
            if isinstance(k, VConst):
                return [(st, r.d.get(k.obj, dflt))]
            raise OutOfSubset("dict.get key %r" % (k,))
        if m == "items":
            return [(st, VCList([VTuple([lift_const(k), v]) for k, v in r.d.items()]))]
        if m == "keys":
            return [(st, VCList([lift_const(k) for k in r.d]))]
        if m == "values":
            return [(st, VCList(list(r.d.values())))]
        raise OutOfSubset("dict method %s" % m)
    if isinstance(r, VList):
        if m == "index":
            x = args[0]
            if len(r.cols) != 1:
                raise OutOfSubset("index on tuple list")
            k = z3.Int(fresh_name("ix"))
            j = z3.Int(fresh_name("j"))
            col = r.cols[0]
            found = z3.Exists([j], z3.And(0 <= j, j < r.n, z3.Select(col, j) == x.t))
            res = []
            st1 = st.fork(); st1.trace.append("%d:ix1" % node.lineno)
            st1.assume(z3.And(0 <= k, k < r.n, z3.Select(col, k) == x.t))
            st1.assume(z3.ForAll([j], z3.Implies(z3.And(0 <= j, j < k), z3.Select(col, j) != x.t)))
            res.append((st1, VInt(k)))
            st2 = st.fork(); st2.trace.append("%d:ix0" % node.lineno)
            st2.assume(z3.ForAll([j], z3.Implies(z3.And(0 <= j, j < r.n), z3.Select(col, j) != x.t)))
            E.raise_(st2, "ValueError", out, node)
            return res
        if m == "items" and not args:
            # only an int-keyed dict modelled as a list (contract attribute dict_like) has .items(): (key, value) pairs in key order
            return [(st, VTuple([VConst(("iter", "enumerate")), VTuple([r]), VDict({})]))]
        raise OutOfSubset("list method %s" % m)
    if isinstance(r, VCList):
        raise OutOfSubset("concrete list method %s" % m)
    if isinstance(r, VObj):
        E.notes.append("opaque method call .%s() on an opaque object" % m)
        if m in ("append", "extend", "insert", "remove", "pop", "clear", "sort", "reverse", "update", "add", "discard", "setdefault",
                 "popitem", "fill", "resize", "put", "itemset") and st.ghost.get("$mutated") is not None:
            # the in-place mutators of the built-in containers (and ndarray): the receiver - and every alias of it - changes
            st.ghost["$mutated"] = z3.Store(st.ghost["$mutated"], r.t, z3.BoolVal(True))
        E.may_raise_any(st, out, node, m)
        f = z3.Function("py_meth_%s_%d" % (m, len(args)), *([PyObj] * (len(args) + 2)))
        return [(st, VObj(f(r.t, *[E.to_obj(a) for a in args])))]
    raise OutOfSubset("method %s of %r" % (m, r))


def str_method(E, r, m, args, kw, st, out, node):
    t = r.t
    if m == "strip":
        if not args:
            return [(st, VStr(E.mk_strip(st, t)))]
        a = z3.simplify(args[0].t)
        if z3.is_string_value(a) and pystr(a) == "\n":
            return [(st, VStr(E.mk_strip_nl(st, t)))]
        if z3.is_string_value(a) and pystr(a) == ".":
            r2 = strip_dot(t)
            st.assume(z3.Length(r2) <= z3.Length(t))
            return [(st, VStr(r2))]
        raise OutOfSubset("strip(%s)" % a)
    if m in ("rstrip", "lstrip") and not args:
        if E._conc(t) is not None:
            return [(st, VStr(getattr(E._conc(t), m)()))]
        r_ = z3.Function("py_" + m, S, S)(t)
        st.assume(z3.Length(r_) <= z3.Length(t))
        return [(st, VStr(r_))]
    if m == "upper":
        return [(st, VStr(E.mk_upper(st, t)))]
    if m == "lower":
        if E._conc(t) is not None:
            return [(st, VStr(E._conc(t).lower()))]
        return [(st, VStr(lower(t)))]
    if m in ("startswith", "endswith"):
        rel = z3.PrefixOf if m == "startswith" else z3.SuffixOf
        if isinstance(args[0], (VTuple, VCList)):
            # a tuple of alternatives
            if not all(isinstance(x, VStr) for x in args[0].items):
                raise OutOfSubset("%s with a non-string alternative" % m)
            return [(st, VBool(z3.Or([rel(x.t, t) for x in args[0].items] + [z3.BoolVal(False)])))]
        if not isinstance(args[0], VStr):
            raise OutOfSubset("%s(%r)" % (m, args[0]))
        return [(st, VBool(rel(args[0].t, t)))]
    if m == "find":
        return [(st, VInt(z3.IndexOf(t, args[0].t, 0)))]
    if m == "rfind":
        f = z3.Function("py_rfind", S, S, I)
        k = f(t, args[0].t)
        st.assume(z3.And(k >= -1, k < z3.Length(t)))
        st.assume((k >= 0) == z3.Contains(t, args[0].t))
        st.assume(k >= z3.IndexOf(t, args[0].t, 0))
        return [(st, VInt(k))]
    if m in ("ljust", "rjust"):
        w = args[0].t
        fill = args[1].t if len(args) > 1 else z3.StringVal(" ")
        f = z3.Function("py_fill", S, I, S)   # fill char repeated n times
        pad = f(fill, w - z3.Length(t))
        st.assume(z3.Length(pad) == z3.If(w - z3.Length(t) > 0, w - z3.Length(t), 0))
        return [(st, VStr(z3.Concat(t, pad) if m == "ljust" else z3.Concat(pad, t)))]
    if m == "replace":
        f = z3.Function("py_replace", S, S, S, S)
        return [(st, VStr(f(t, args[0].t, args[1].t)))]
    if m == "join" and args and isinstance(args[0], VObj):
        # "".join(t) of an opaque tuple of strings
        tv = z3.simplify(t)
        if z3.is_string_value(tv) and pystr(tv) == "":
            return [(st, VStr(z3.Function("py_str_payload", PyObj, S)(args[0].t)))]
    if m == "splitlines":
        # a function of the receiver: the same text always splits into the same list (length and elements uninterpreted)
        n_ = z3.Function("py_splitlines_len", S, I)(t)
        arr = z3.Function("py_splitlines_arr", S, z3.ArraySort(I, S))(t)
        st.assume(n_ >= 0)
        return [(st, VList(n_, [arr], STR))]
    if m == "split":
        tv = z3.simplify(t)
        if z3.is_string_value(tv) and args and z3.is_string_value(z3.simplify(args[0].t)):
            parts = pystr(tv).split(pystr(z3.simplify(args[0].t)))
            return [(st, VCList([VStr(p) for p in parts]))]
        # symbolic receiver with concrete finite alternatives: case split
        alts = _string_alternatives(E, t, st)
        if alts is not None and args and z3.is_string_value(z3.simplify(args[0].t)):
            res = []
            sep = pystr(z3.simplify(args[0].t))
            for a in alts:
                st2 = st.fork(); st2.assume(t == z3.StringVal(a)); st2.trace.append("%d:alt=%s" % (node.lineno, a))
                res.append((st2, VCList([VStr(p) for p in a.split(sep)])))
            return res
        v, asm = fresh(LIST(STR), "split")
        for a in asm:
            st.assume(a)
        return [(st, v)]
    if m == "format":
        return [(st, VStr(z3.String(fresh_name("format"))))]
    if m == "join":
        return [(st, VStr(z3.String(fresh_name("join"))))]
    if m == "isdigit":
        return [(st, VBool(z3.Bool(fresh_name("isdigit"))))]
    raise OutOfSubset("str method %s" % m)


def _string_alternatives(E, t, st):
    """If term t is an ite-chain over string constants, return the constants."""
    t = z3.simplify(t)
    alts = []

    def walk(x):
        if z3.is_string_value(x):
            alts.append(pystr(x))
            return True
        if z3.is_app(x) and x.decl().kind() == z3.Z3_OP_ITE:
            return walk(x.arg(1)) and walk(x.arg(2))
        return False

    return sorted(set(alts)) if walk(t) else None


# ------------------------------------------------------------------ files (T-io)
def file_method(E, r, m, args, kw, st, out, node):
    if m != "close":
        # close() is not a fault point: an io object is closed even when its
        # final flush fails (T-io)
        E.may_raise_any(st, out, node, "file." + m)
    if m == "close":
        st.heap["$open"] = z3.Store(E.heap(st, "$open"), r.t, z3.BoolVal(False))
        st.written.add("$open")
        return [(st, VNone())]
    if "lines" not in st.ghost:
        # no content model (typestate verification): results are opaque
        if m in ("readline", "read", "write", "tell", "seek", "readlines", "flush"):
            return [(st, VObj(z3.Const(fresh_name("io_" + m), PyObj)))]
        raise OutOfSubset("file method %s" % m)
    cur = z3.Select(E.heap(st, "$cursor"), r.t)
    lines, N = st.ghost["lines"], st.ghost["N"]
    if m == "readline":
        res = []
        st1 = st.fork(); st1.assume(cur < N); st1.trace.append("%d:rl1" % node.lineno)
        ln = z3.Select(lines, cur)
        st1.assume(z3.Length(ln) > 0)
        st1.heap["$cursor"] = z3.Store(E.heap(st1, "$cursor"), r.t, cur + 1)
        res.append((st1, VStr(ln)))
        st2 = st.fork(); st2.assume(cur >= N); st2.trace.append("%d:rl0" % node.lineno)
        res.append((st2, VStr("")))
        return res
    if m == "tell":
        return [(st, VInt(cookie(cur)))]
    if m == "seek":
        k = args[0].t
        st.heap["$cursor"] = z3.Store(E.heap(st, "$cursor"), r.t, uncookie(k))
        return [(st, VNone())]
    if m == "close":
        st.heap["$open"] = z3.Store(E.heap(st, "$open"), r.t, z3.BoolVal(False))
        return [(st, VNone())]
    if m in ("read", "write"):
        return [(st, VObj(z3.Const(fresh_name("io_" + m), PyObj)))]
    raise OutOfSubset("file method %s" % m)


# ------------------------------------------------------------------ constructors
def construct(E, cls, args, kw, st, out, node):
    r = z3.Int(fresh_name("new_" + cls))
    alloc = E.heap(st, "$alloc")
    st.assume(z3.Not(z3.Select(alloc, r)))
    st.assume(r > 0)
    st.heap["$alloc"] = z3.Store(alloc, r, z3.BoolVal(True))
    if cls in CLS_IDS:
        st.heap["$cls"] = z3.Store(E.heap(st, "$cls"), r, z3.IntVal(CLS_IDS[cls]))
    self_ = VRef(r, cls)
    info = E.class_info(cls)
    if info.get("seq"):
        if args and not (len(args) == 1 and isinstance(args[0], VCList) and all(isinstance(x, VRef) for x in args[0].items)):
            raise OutOfSubset("sequence constructor with non-literal arguments")
        elems = args[0].items if args else []
        arr = z3.Const(fresh_name("items_new"), z3.ArraySort(I, I))
        for idx, x in enumerate(elems):
            arr = z3.Store(arr, idx, x.t)
        named = z3.Const(fresh_name("items"), arr.sort())
        st.assume(named == arr)
        st.heap["$len"] = z3.Store(E.heap(st, "$len"), r, z3.IntVal(len(elems)))
        st.heap["$items"] = z3.Store(E.heap(st, "$items"), r, named)
        args = []     # list.__init__ consumed them; SectionItems.__init__ only sets the flag
    q = E.find_method(cls, "__init__")
    if q is None:
        return [(st, self_)]
    res = []
    for st1, _ in E.call_function(q, [self_] + list(args), kw, st, out, node):
        res.append((st1, self_))
    return res


def super_call(E, cname, self_, m, args, st, out, node):
    base = E.class_info(cname).get("builtin_base")
    r = self_.t
    for b in E.class_info(cname).get("bases", []):
        q = E.find_method(b, m)
        if q is not None:
            return E.call_function(q, [self_] + list(args), {}, st, out, node)
    if m == "__init__":
        return [(st, VNone())]
    if m == "__setattr__":
        nt = z3.simplify(args[0].t)
        if not z3.is_string_value(nt):
            # object.__setattr__ with a symbolic name: an instance attribute
            # that is not one of the modelled fields (checked by the caller's
            # contract through the ghost predicate below)
            st.ghost.setdefault("$dyn_setattr", []).append((r, args[0].t))
            return [(st, VNone())]
        E.store(st, r, pystr(nt), args[1])
        return [(st, VNone())]
    if m == "__getattr__" and base == "list":
        # list has no __getattr__: the lookup itself raises AttributeError
        E.raise_(st, "AttributeError", out, node)
        return []
    if base != "list":
        raise OutOfSubset("super().%s of %s" % (m, cname))
    n0 = E.seq_len(st, r)
    items = E.seq_items(st, r)
    k = z3.Int(fresh_name("k"))
    if m == "append":
        E.set_seq(st, r, n0 + 1, z3.Store(items, n0, args[0].t))
        return [(st, VNone())]
    if m == "insert":
        i = args[0].t
        idx_t = z3.simplify(z3.If(i < 0, z3.If(n0 + i < 0, 0, n0 + i), z3.If(i > n0, n0, i)))
        idx = z3.Int(fresh_name("idx"))
        st.assume(idx == idx_t)
        new = z3.Const(fresh_name("items_ins"), items.sort())
        st.assume(z3.ForAll([k], z3.Select(new, k) == z3.If(k < idx, z3.Select(items, k), z3.If(k == idx, args[1].t, z3.Select(items, k - 1))),
                            patterns=[z3.Select(new, k)]))
        E.set_seq(st, r, n0 + 1, new)
        return [(st, VNone())]
    if m in ("__getitem__", "__delitem__", "__setitem__", "pop"):
        key = args[0]
        if not isinstance(key, VInt):
            raise OutOfSubset("list.%s with key %r" % (m, key))
        i = key.t
        ok = z3.And(i < n0, i >= -n0)
        res = []
        if not is_true(ok):
            st0 = st.fork(); st0.assume(z3.Not(ok)); st0.trace.append("%d:lx0" % node.lineno)
            E.raise_(st0, "IndexError", out, node)
        if is_false(ok):
            return res
        st1 = st.fork(); st1.assume(ok); st1.trace.append("%d:lx1" % node.lineno)
        idx = z3.simplify(z3.If(i < 0, n0 + i, i))
        if not (z3.is_const(idx) or z3.is_int_value(idx)):
            named = z3.Int(fresh_name("idx"))
            st1.assume(named == idx)
            idx = named
        if m == "__getitem__":
            ety = E.class_info(cname)["seq"]
            return res + [(st1, VRef(z3.Select(items, idx), ety))]
        if m == "__setitem__":
            E.set_seq(st1, r, n0, z3.Store(items, idx, args[1].t))
            return res + [(st1, VNone())]
        ety = E.class_info(cname)["seq"]
        old = VRef(z3.Select(items, idx), ety)
        new = z3.Const(fresh_name("items_del"), items.sort())
        st1.assume(z3.ForAll([k], z3.Select(new, k) == z3.If(k < idx, z3.Select(items, k), z3.Select(items, k + 1)),
                             patterns=[z3.Select(new, k)]))
        E.set_seq(st1, r, n0 - 1, new)
        return res + [(st1, old if m == "pop" else VNone())]
    raise OutOfSubset("list.%s" % m)


# ------------------------------------------------------------------ inlining
def bind_args(E, fnode, args, kw, st, out, defaults_env=None):
    """Bind call arguments to the parameters of the real signature."""
    a = fnode.args
    names = [x.arg for x in a.args]
    env = {}
    if len(args) > len(names) and not a.vararg:
        raise OutOfSubset("too many positional arguments")
    for nm, v in zip(names, args):
        env[nm] = v
    extra_kw = {}
    for k, v in kw.items():
        if k in names:
            env[k] = v
        elif a.kwarg:
            extra_kw[k] = v
        else:
            raise OutOfSubset("unexpected keyword %s" % k)
    ndef = len(a.defaults)
    for idx, nm in enumerate(names):
        if nm not in env:
            di = idx - (len(names) - ndef)
            if di < 0:
                raise OutOfSubset("missing argument %s" % nm)
            d = a.defaults[di]
            if isinstance(d, ast.Constant):
                env[nm] = lift_const(d.value)
            else:
                pre = getattr(fnode, "_pyvc_defaults", {})
                if nm in pre:
                    env[nm] = pre[nm]
                else:
                    r = E.ev(d, st, out)
                    if len(r) != 1:
                        raise OutOfSubset("default forks")
                    env[nm] = r[0][1]
    if a.kwarg:
        env[a.kwarg.arg] = VDict(extra_kw)
    return env


def inline_call(E, fnode, closure, args, kw, st, out, node, qual, module=None):
    env = dict(closure)
    env.update(bind_args(E, fnode, args, kw, st, out))
    st.stack.append(st.env)
    st.env = env
    saved_mod = E.cur_module
    if module:
        E.cur_module = module
    depth = len(st.stack)
    res = []
    try:
        if isinstance(fnode, ast.Lambda):
            sub = []
            rs = E.ev(fnode.body, st, sub)
            outs = [Outcome("return", s1, val=v) for s1, v in rs] + sub
        else:
            outs = E.exec_block(fnode.body, st)
    finally:
        E.cur_module = saved_mod
    for o in outs:
        s1 = o.st
        # pop the frame
        while len(s1.stack) >= depth:
            s1.env = s1.stack.pop()
        if o.kind in ("normal",):
            res.append((s1, VNone()))
        elif o.kind == "return":
            res.append((s1, o.val if o.val is not None else VNone()))
        elif o.kind == "raise":
            out.append(o)
        else:
            raise OutOfSubset("break/continue escaping a function")
    return res
