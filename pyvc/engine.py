"""Symbolic executor / VC generator over the ast of the real source."""
import ast
import hashlib
import os
import z3

from .values import *
from .state import *
from .spec import Contract, Registry

MAX_PATHS = 4000


def lift_const(obj):
    if obj is None:
        return VNone()
    if isinstance(obj, bool):
        return VBool(obj)
    if isinstance(obj, int):
        return VInt(obj)
    if isinstance(obj, str):
        return VStr(obj)
    if isinstance(obj, (list, tuple)) and not isinstance(obj, str):
        items = [lift_const(x) for x in obj]
        return VTuple(items) if isinstance(obj, tuple) else VCList(items)
    if isinstance(obj, dict):
        return VDict({k: lift_const(v) for k, v in obj.items()})
    return VConst(obj)


def _mark_global(v, qual):
    """a module-level list/dict lifted from the source is process-wide state: remember where it came from"""
    if isinstance(v, (VDict, VCList)):
        v.global_name = qual
    return v


def is_true(t):
    return z3.is_true(z3.simplify(t))


def is_false(t):
    return z3.is_false(z3.simplify(t))


class SpecCtx:
    """What a contract clause can see."""

    def __init__(s, eng, st, args, h0, res=None, i=None, extra=None):
        s.eng, s.st, s.a, s.h0, s.res, s.i = eng, st, args, h0, res, i
        s.x = extra or {}

    def h(s, f):
        return s.eng.heap(s.st, f)

    def old(s, f):
        return s.h0[f] if f in s.h0 else s.eng.heap0(s.st, s.h0, f)

    def v(s, name):
        return s.st.env[name]

    def t(s, name):
        """term of argument or local"""
        val = s.st.env.get(name, None)
        if val is None:
            val = s.a[name]
        return val.t

    def g(s, name):
        return s.st.ghost[name]


class Engine:
    def __init__(s, repo_root, registry, modules=("reader", "las", "las_items", "writer", "defaults")):
        s.root = repo_root
        s.reg = registry
        s.src = {}
        s.tree = {}
        s.funcs = {}        # qualname -> ast.FunctionDef
        s.cls_of_func = {}
        for m in modules:
            p = os.path.join(repo_root, "lasio", m + ".py")
            text = open(p, encoding="utf-8").read()
            s.src[m] = text
            s.tree[m] = ast.parse(text)
            s._index(m, s.tree[m])
        s.goals = []
        s.notes = []        # assumptions actually used
        s.cur = None        # current contract under verification
        s.cur_func = None
        s.npaths = 0
        s.module_consts = {}

    # ------------------------------------------------------------ indexing
    def _index(s, m, tree):
        for n in tree.body:
            if isinstance(n, ast.FunctionDef):
                s.funcs["%s.%s" % (m, n.name)] = n
            elif isinstance(n, ast.ClassDef):
                for b in n.body:
                    if isinstance(b, ast.FunctionDef):
                        q = "%s.%s.%s" % (m, n.name, b.name)
                        # property setters share the name: keep the first (getter)
                        if q in s.funcs:
                            continue
                        s.funcs[q] = b
                        s.cls_of_func[q] = n.name

    def source_of(s, qual):
        n = s.funcs[qual]
        m = qual.split(".")[0]
        return ast.get_source_segment(s.src[m], n)

    def sha_of(s, qual):
        return hashlib.sha256(s.source_of(qual).encode()).hexdigest()[:16]

    def module_const(s, m, name):
        """Evaluate a module-level constant table from the parsed source."""
        key = (m, name)
        if key not in s.module_consts:
            for n in s.tree[m].body:
                if isinstance(n, ast.Assign) and any(
                    isinstance(t, ast.Name) and t.id == name for t in n.targets
                ):
                    s.module_consts[key] = s._const_eval(n.value, m)
                    break
            else:
                raise OutOfSubset("no module constant %s.%s" % (m, name))
        return s.module_consts[key]

    def _const_eval(s, node, m):
        import re as _re
        import collections

        class _NP:
            nan = float("nan")

        glb = {"re": _re, "OrderedDict": collections.OrderedDict, "np": _NP, "u": str}
        code = compile(ast.Expression(node), "<const %s>" % m, "eval")
        return eval(code, glb, {})

    # ------------------------------------------------------------ heap
    def field_type(s, f):
        for c, info in s.reg.classes.items():
            if f in info["fields"]:
                return info["fields"][f]
        builtin = {"$len": INT, "$cursor": INT, "$alloc": BOOL, "$open": BOOL, "$cls": INT}
        if f in builtin:
            return builtin[f]
        if f == "$items":
            return "items"
        raise OutOfSubset("unknown field %s" % f)

    def heap(s, st, f):
        if f not in st.heap:
            st.heap[f] = s._heap0(f, "h0")
        return st.heap[f]

    def _heap0(s, f, tag):
        ty = s.field_type(f)
        if isinstance(ty, tuple) and ty[0] == "rec":
            return None
        if isinstance(ty, tuple) and ty[0] == "strmap":
            return z3.Const("%s.%s" % (tag, f), z3.ArraySort(I, z3.ArraySort(S, I)))
        if isinstance(ty, tuple) and ty[0] == "strmap_s":
            return z3.Const("%s.%s" % (tag, f), z3.ArraySort(I, z3.ArraySort(S, S)))
        if ty == "items":
            return z3.Const("%s.%s" % (tag, f), z3.ArraySort(I, z3.ArraySort(I, I)))
        return z3.Const("%s.%s" % (tag, f), z3.ArraySort(I, sort_of(ty)))

    def heap0(s, st, h0, f):
        ty0 = s.field_type(f)
        if isinstance(ty0, tuple) and ty0[0] == "rec":
            return None
        if f not in h0:
            h0[f] = s._heap0(f, "h0")
            if f not in st.heap:
                st.heap[f] = h0[f]
        return h0[f]

    def load(s, st, ref, f):
        ty = s.field_type(f)
        if isinstance(ty, tuple) and ty[0] == "rec":
            return VRec(ref, ty[1])
        if ty == "py":
            key = (str(z3.simplify(ref)), f)
            d = st.ghost.get("$py", {})
            if key not in d:
                raise OutOfSubset("python-valued field %s read before being set" % f)
            return d[key]
        t = z3.Select(s.heap(st, f), ref)
        return wrap(ty, t)

    def store(s, st, ref, f, val):
        ty = s.field_type(f)
        if isinstance(ty, tuple) and ty[0] == "rec":
            # assignment of a whole dict literal to a record field
            if not isinstance(val, VDict):
                raise OutOfSubset("record field %s assigned a non-dict" % f)
            for k_, v_ in val.d.items():
                if k_ in ty[1] and isinstance(v_, VRef):
                    s.store(st, ref, ty[1][k_], v_)
                elif isinstance(v_, VRef):
                    raise OutOfSubset("record key %r is not modelled" % (k_,))
                else:
                    s.notes.append("record entry %s[%r] (not a section object) is not modelled" % (f, k_))
            return
        if ty == "py":
            d = dict(st.ghost.get("$py", {}))
            d[(str(z3.simplify(ref)), f)] = val
            st.ghost["$py"] = d
            return
        t = s.coerce(val, ty, st)
        st.heap[f] = z3.Store(s.heap(st, f), ref, t)
        st.written.add(f)

    def coerce(s, val, ty, st=None):
        """term of `val` viewed as type ty (OBJ fields accept anything)."""
        if ty == OBJ:
            return s.to_obj(val)
        if ty == INT and isinstance(val, (VInt,)):
            return val.t
        if ty == BOOL and isinstance(val, VBool):
            return val.t
        if ty == STR and isinstance(val, VStr):
            return val.t
        if isinstance(ty, tuple) and ty[0] == "ref" and isinstance(val, VRef):
            return val.t
        if ty == STR and isinstance(val, VObj):
            # a str-typed field receiving an opaque object: view through str_of
            raise OutOfSubset("opaque object stored into str field")
        raise OutOfSubset("cannot coerce %r to %r" % (val, ty))

    def to_obj(s, val):
        if isinstance(val, VObj):
            return val.t
        if isinstance(val, VStr):
            return obj_of_str(val.t)
        if isinstance(val, VInt):
            return obj_of_int(val.t)
        if isinstance(val, VNone):
            return none_obj
        if isinstance(val, VConst):
            return z3.Const("const_%s" % _mangle(repr(val.obj)), PyObj)
        if isinstance(val, VCmp):
            return val.obj
        if isinstance(val, VBool):
            return z3.If(val.t, z3.Const("const_True", PyObj), z3.Const("const_False", PyObj))
        if isinstance(val, VRef):
            return z3.Function("py_obj_of_ref", I, PyObj)(val.t)
        if isinstance(val, VExt):
            return z3.Const("ext_%s" % _mangle(val.name), PyObj)
        if isinstance(val, (VCList, VTuple)):
            f = z3.Const("seq_%s" % _mangle(repr([repr(x) for x in val.items])), PyObj)
            return f
        raise OutOfSubset("to_obj %r" % (val,))

    # list-subclass objects
    def seq_len(s, st, ref):
        return z3.Select(s.heap(st, "$len"), ref)

    def seq_items(s, st, ref):
        return z3.Select(s.heap(st, "$items"), ref)

    # ------------------------------------------------------------ goals
    def goal(s, st, name, concl, kind, node=None, note=""):
        if isinstance(concl, bool):
            concl = z3.BoolVal(concl)
        if is_true(concl):
            # trivially discharged by simplification: still counted
            g = Goal(s._gname(st, name), [], z3.BoolVal(True), kind, s.cur.key, getattr(node, "lineno", None), note)
            g.status, g.solver = "unsat", "simplify"
            s.goals.append(g)
            return g
        hyps = s.axioms_for(s.cur) + list(st.pc)
        g = Goal(s._gname(st, name), hyps, concl, kind, s.cur.key, getattr(node, "lineno", None), note)
        g.trace = list(st.trace)
        s.goals.append(g)
        return g

    def axioms_for(s, c):
        rv = set(getattr(c, "reveal", ()) or ())
        out = []
        for ax in s.reg.axioms:
            tag = ax[2] if len(ax) > 2 else None
            if tag is None or tag in rv:
                out.append(ax[1])
        return out

    def _gname(s, st, name):
        sig = hashlib.sha1(",".join(st.trace).encode()).hexdigest()[:8]
        return "%s:%s@%s" % (s.cur.key, name, sig)

    # ------------------------------------------------------------ primitives
    def truthy(s, v, st):
        if isinstance(v, VBool):
            return v.t
        if isinstance(v, VInt):
            return v.t != 0
        if isinstance(v, VStr):
            return z3.Length(v.t) > 0
        if isinstance(v, VNone):
            return z3.BoolVal(False)
        if isinstance(v, VObj):
            return truthy(v.t)
        if isinstance(v, VList):
            return v.n > 0
        if isinstance(v, (VCList,)):
            return z3.BoolVal(len(v.items) > 0)
        if isinstance(v, VTuple):
            return z3.BoolVal(len(v.items) > 0)
        if isinstance(v, VDict):
            return z3.BoolVal(len(v.d) > 0)
        if isinstance(v, VRef):
            info = s.reg.classes.get(v.cls, {})
            if info.get("seq"):
                return s.seq_len(st, v.t) > 0
            return z3.BoolVal(True)
        if isinstance(v, (VFunc, VFile, VExt, VBound, VType)):
            return z3.BoolVal(True)
        if isinstance(v, VConst):
            return z3.BoolVal(bool(v.obj))
        raise OutOfSubset("truthy of %r" % (v,))

    def eq(s, a, b, st):
        """Python == as a BoolRef"""
        if isinstance(a, VType) or isinstance(b, VType):
            return s.is_(a, b, st)
        if isinstance(a, VNone) or isinstance(b, VNone):
            if isinstance(a, VNone) and isinstance(b, VNone):
                return z3.BoolVal(True)
            o = b if isinstance(a, VNone) else a
            if isinstance(o, VObj):
                return is_none(o.t)
            return z3.BoolVal(False)
        if isinstance(a, VStr) and isinstance(b, VStr):
            return a.t == b.t
        if isinstance(a, VInt) and isinstance(b, VInt):
            return a.t == b.t
        if isinstance(a, VBool) and isinstance(b, VBool):
            return a.t == b.t
        if isinstance(a, VRef) != isinstance(b, VRef) and isinstance(a, (VRef, VStr, VInt, VConst)) and isinstance(b, (VRef, VStr, VInt, VConst)):
            # an item/section (dict or list subclass) never equals a str/int
            return z3.BoolVal(False)
        if isinstance(a, VRef) and isinstance(b, VRef):
            # HeaderItem is an OrderedDict with no keys: == between two items is
            # dict equality (always True); we only model identity comparisons.
            raise OutOfSubset("== between objects")
        if isinstance(a, VConst) and isinstance(b, VConst):
            return z3.BoolVal(a.obj == b.obj)
        if isinstance(a, VObj) and isinstance(b, VObj):
            return z3.Function("py_eq", PyObj, PyObj, B)(a.t, b.t)
        if isinstance(a, VObj) or isinstance(b, VObj):
            o, c = (a, b) if isinstance(a, VObj) else (b, a)
            return z3.Function("py_eq", PyObj, PyObj, B)(o.t, s.to_obj(c))
        if isinstance(a, VTuple) and isinstance(b, VTuple):
            if len(a.items) != len(b.items):
                return z3.BoolVal(False)
            return z3.And([s.eq(x, y, st) for x, y in zip(a.items, b.items)] + [z3.BoolVal(True)])
        if isinstance(a, VCList) and isinstance(b, VCList):
            if len(a.items) != len(b.items):
                return z3.BoolVal(False)
            return z3.And([s.eq(x, y, st) for x, y in zip(a.items, b.items)] + [z3.BoolVal(True)])
        # different kinds (str vs int, const vs str ...): Python == is False
        kinds = (VStr, VInt, VBool, VConst)
        if isinstance(a, kinds) and isinstance(b, kinds):
            if isinstance(a, VConst) and isinstance(a.obj, float) and isinstance(b, VInt):
                bv = z3.simplify(b.t)
                if z3.is_int_value(bv):
                    return z3.BoolVal(a.obj == bv.as_long())
            if isinstance(b, VConst) and isinstance(b.obj, float) and isinstance(a, VInt):
                return s.eq(b, a, st)
            return z3.BoolVal(False)
        raise OutOfSubset("eq of %r and %r" % (a, b))

    def pystr(s, v, st):
        if isinstance(v, VStr):
            return v.t
        if isinstance(v, VInt):
            return fmt_d(v.t)
        if isinstance(v, VObj):
            return str_of(v.t)
        if isinstance(v, VNone):
            return z3.StringVal("None")
        if isinstance(v, VConst):
            return z3.StringVal(str(v.obj))
        if isinstance(v, VBool):
            return z3.If(v.t, z3.StringVal("True"), z3.StringVal("False"))
        raise OutOfSubset("str() of %r" % (v,))

    def _conc(s, t):
        t = z3.simplify(t)
        return pystr(t) if z3.is_string_value(t) else None

    def mk_strip(s, st, t):
        if s._conc(t) is not None:
            return z3.StringVal(s._conc(t).strip())
        r = strip(t)
        st.assume(strip(r) == r)
        st.assume(z3.Length(r) <= z3.Length(t))
        return r

    def mk_strip_nl(s, st, t):
        if s._conc(t) is not None:
            return z3.StringVal(s._conc(t).strip("\n"))
        r = strip_nl(t)
        st.assume(strip(r) == strip(t))
        st.assume(z3.Length(r) <= z3.Length(t))
        st.assume(z3.Implies(strip(t) == t, r == t))
        return r

    def mk_upper(s, st, t):
        if s._conc(t) is not None:
            return z3.StringVal(s._conc(t).upper())
        r = upper(t)
        st.assume(upper(r) == r)
        return r

    # ------------------------------------------------------------ expressions
    def evs(s, nodes, st, out):
        res = [(st, [])]
        for n in nodes:
            nxt = []
            for st1, vals in res:
                for st2, v in s.ev(n, st1, out):
                    nxt.append((st2, vals + [v]))
            res = nxt
        return res

    def ev(s, node, st, out):
        m = getattr(s, "ev_" + type(node).__name__, None)
        if s.cur is not None and getattr(s.cur, "abstract_exprs", False):
            # typestate mode (DESIGN 5/C20): an expression outside the subset is
            # abstracted to an opaque value that may raise, PROVIDED it cannot touch
            # a tracked handle (it does not mention any variable bound to a file).
            mark = (len(out), len(s.goals))
            try:
                if m is None:
                    raise OutOfSubset("expression %s" % type(node).__name__)
                snap = st.fork()
                return m(node, st, out)
            except OutOfSubset as e:
                if m is not None:
                    st.__dict__.update(snap.__dict__)
                del out[mark[0]:]
                del s.goals[mark[1]:]
                names = {x.id for x in ast.walk(node) if isinstance(x, ast.Name)}
                tracked = {k for k, v in st.env.items() if isinstance(v, VFile)} | set(getattr(s.cur, "handle_names", ()))
                if names & tracked:
                    raise OutOfSubset("cannot abstract an expression that mentions a file handle (%s): %s" % (sorted(names & tracked), e))
                s.notes.append("abstracted expression at %s line %s (%s)" % (s.cur_module, getattr(node, "lineno", "?"), e))
                s.may_raise_any(st, out, node, "abstracted expression")
                return [(st, VObj(z3.Const(fresh_name("abs"), PyObj)))]
        if m is None:
            raise OutOfSubset("expression %s at line %s" % (type(node).__name__, getattr(node, "lineno", "?")))
        return m(node, st, out)

    def ev_Constant(s, n, st, out):
        return [(st, lift_const(n.value))]

    def ev_Name(s, n, st, out):
        if n.id in st.env:
            return [(st, st.env[n.id])]
        try:
            return [(st, s.global_name(n.id))]
        except OutOfSubset:
            if getattr(s.cur, "block", None) or getattr(s.cur, "free_default", False):
                # a free variable of an extracted block that the contract does not
                # type: an unconstrained opaque value (so nothing can be concluded from it)
                v = VObj(z3.Const("free_" + n.id, PyObj))
                st.env[n.id] = v
                s.notes.append("untyped free variable %s of block %s treated as opaque" % (n.id, s.cur.key))
                return [(st, v)]
            raise

    def global_name(s, name):
        m = s.cur_module
        q = "%s.%s" % (m, name)
        if q in s.funcs:
            return VExt(q)
        for cname, info in s.reg.classes.items():
            if cname == name:
                return VExt("class:" + name)
        known = {
            "len", "str", "int", "isinstance", "hasattr", "enumerate", "range", "max", "min",
            "any", "all", "zip", "type", "super", "iter", "set", "dict", "list", "tuple",
            "float", "open", "bool", "slice", "chr", "print", "sorted", "abs", "getattr",
        }
        if name in known:
            return VExt("builtin:" + name)
        excs = set(EXC_PARENT) | {"BaseException"}
        if name in excs:
            return VExt("exc:" + name)
        mods = {"np", "re", "logger", "defaults", "exceptions", "reader", "writer", "json", "csv",
                "io", "os", "codecs", "sys", "traceback", "textwrap", "urllib", "logging"}
        if name in mods:
            return VExt("mod:" + name)
        if name.startswith("__verif_"):
            return VExt("lib:" + name)
        if name in ("deepcopy", "StringIO", "OrderedDict", "Sequence", "basestring",
                    "sow_regex", "URL_REGEXP"):
            return VExt("lib:" + name)
        try:
            cv = s.module_const(m, name)
        except OutOfSubset:
            cv = None
            pass
        else:
            if isinstance(cv, (dict, list, set)) and len(cv) == 0:
                # an EMPTY module-level container can only be meant as mutable process-wide state:
                # an opaque global object (reads are opaque, stores are recorded in the $mutated ghost)
                return VObj(z3.Const("global_%s_%s" % (m, name), PyObj))
            return _mark_global(lift_const(cv), "%s.%s" % (m, name))
        raise OutOfSubset("unknown global name %s" % name)

    def ev_Tuple(s, n, st, out):
        return [(st1, VTuple(vals)) for st1, vals in s.evs(n.elts, st, out)]

    def ev_List(s, n, st, out):
        return [(st1, VCList(vals)) for st1, vals in s.evs(n.elts, st, out)]

    def ev_Dict(s, n, st, out):
        keys = []
        for k in n.keys:
            if not (isinstance(k, ast.Constant) and isinstance(k.value, str)):
                raise OutOfSubset("dict literal with non-constant key")
            keys.append(k.value)
        return [(st1, VDict(dict(zip(keys, vals)))) for st1, vals in s.evs(n.values, st, out)]

    def ev_JoinedStr(s, n, st, out):
        # f-strings occur only in logger calls (dropped); give an opaque string
        return [(st, VStr(z3.String(fresh_name("fstr"))))]

    def ev_UnaryOp(s, n, st, out):
        res = []
        for st1, v in s.ev(n.operand, st, out):
            if isinstance(n.op, ast.Not):
                res.append((st1, VBool(z3.Not(s.truthy(v, st1)))))
            elif isinstance(n.op, ast.USub) and isinstance(v, VInt):
                res.append((st1, VInt(-v.t)))
            elif isinstance(n.op, ast.USub) and isinstance(v, VConst):
                res.append((st1, VConst(-v.obj)))
            else:
                raise OutOfSubset("unary op")
        return res

    def ev_BoolOp(s, n, st, out):
        # short-circuit, value-returning; forks
        def go(idx, st0):
            res = []
            for st1, v in s.ev(n.values[idx], st0, out):
                if idx == len(n.values) - 1:
                    res.append((st1, v))
                    continue
                c = s.truthy(v, st1)
                stop = c if isinstance(n.op, ast.Or) else z3.Not(c)
                for cond, cont in ((stop, False), (z3.Not(stop), True)):
                    if is_false(cond):
                        continue
                    st2 = st1.fork()
                    st2.assume(cond)
                    st2.trace.append("%d:%s%d" % (n.lineno, "b", int(cont)))
                    if cont:
                        res += go(idx + 1, st2)
                    else:
                        res.append((st2, v))
            return res
        return go(0, st)

    def ev_IfExp(s, n, st, out):
        res = []
        for st1, c in s.ev(n.test, st, out):
            ct = s.truthy(c, st1)
            for cond, br in ((ct, n.body), (z3.Not(ct), n.orelse)):
                if is_false(cond):
                    continue
                st2 = st1.fork()
                st2.assume(cond)
                st2.trace.append("%d:ie%d" % (n.lineno, int(br is n.body)))
                res += s.ev(br, st2, out)
        return res

    def ev_Compare(s, n, st, out):
        res = []
        for st1, vals in s.evs([n.left] + list(n.comparators), st, out):
            conj = []
            for k, op in enumerate(n.ops):
                conj.append(s.compare(op, vals[k], vals[k + 1], st1, out, n))
            if len(n.ops) == 1 and isinstance(n.ops[0], (ast.Eq, ast.NotEq)) and (isinstance(vals[0], VObj) or isinstance(vals[1], VObj)):
                f = z3.Function("py_cmp_" + type(n.ops[0]).__name__, PyObj, PyObj, PyObj)
                res.append((st1, VCmp(conj[0], f(s.to_obj(vals[0]), s.to_obj(vals[1])))))
                continue
            res.append((st1, VBool(conj[0] if len(conj) == 1 else z3.And(conj))))
        return res

    def compare(s, op, a, b, st, out, node):
        if isinstance(op, ast.Eq):
            return s.eq(a, b, st)
        if isinstance(op, ast.NotEq):
            return z3.Not(s.eq(a, b, st))
        if isinstance(op, (ast.Is, ast.IsNot)):
            r = s.is_(a, b, st)
            return r if isinstance(op, ast.Is) else z3.Not(r)
        if isinstance(op, (ast.Lt, ast.LtE, ast.Gt, ast.GtE)):
            if isinstance(a, VInt) and isinstance(b, VInt):
                return {ast.Lt: a.t < b.t, ast.LtE: a.t <= b.t, ast.Gt: a.t > b.t, ast.GtE: a.t >= b.t}[type(op)]
            if isinstance(a, VConst) and isinstance(b, VConst):
                import operator
                f = {ast.Lt: operator.lt, ast.LtE: operator.le, ast.Gt: operator.gt, ast.GtE: operator.ge}[type(op)]
                return z3.BoolVal(f(a.obj, b.obj))
            raise OutOfSubset("ordering of %r, %r" % (a, b))
        if isinstance(op, (ast.In, ast.NotIn)):
            r = s.contains(a, b, st, out, node)
            return r if isinstance(op, ast.In) else z3.Not(r)
        raise OutOfSubset("compare op")

    def is_(s, a, b, st):
        if isinstance(a, VType) or isinstance(b, VType):
            from .calls import CLS_IDS
            t, o = (a, b) if isinstance(a, VType) else (b, a)
            if isinstance(o, VType):
                return t.tag == o.tag
            if isinstance(o, VExt) and o.name.startswith("class:"):
                return t.tag == CLS_IDS[o.name[6:]]
            return z3.BoolVal(False)
        if isinstance(a, VNone) and isinstance(b, VNone):
            return z3.BoolVal(True)
        if isinstance(a, VNone) or isinstance(b, VNone):
            o = b if isinstance(a, VNone) else a
            if isinstance(o, VObj):
                return is_none(o.t)
            return z3.BoolVal(False)
        if isinstance(a, VRef) and isinstance(b, VRef):
            return a.t == b.t
        if isinstance(a, VBool) and isinstance(b, VBool):
            return a.t == b.t
        if isinstance(a, VObj) and isinstance(b, VBool):
            return z3.Function("py_is_bool", PyObj, B, B)(a.t, b.t)
        if isinstance(a, VExt) and isinstance(b, VExt):
            return z3.BoolVal(a.name == b.name)
        if isinstance(a, VConst) and isinstance(b, VConst):
            return z3.BoolVal(a.obj is b.obj)
        if type(a) is not type(b):
            if isinstance(a, VObj) or isinstance(b, VObj):
                raise OutOfSubset("`is` with opaque object")
            return z3.BoolVal(False)
        raise OutOfSubset("`is` of %r, %r" % (a, b))

    def contains(s, a, b, st, out, node):
        """a in b"""
        if isinstance(b, VStr) and isinstance(a, VStr):
            return z3.Contains(b.t, a.t)
        if isinstance(b, (VCList, VTuple)):
            return z3.Or([s.eq(a, x, st) for x in b.items] + [z3.BoolVal(False)])
        if isinstance(b, VDict):
            if isinstance(a, VStr):
                return z3.Or([a.t == z3.StringVal(k) for k in b.d if isinstance(k, str)] + [z3.BoolVal(False)])
            if isinstance(a, VConst):
                return z3.BoolVal(a.obj in b.d)
            if isinstance(a, VInt):
                av = z3.simplify(a.t)
                if z3.is_int_value(av):
                    return z3.BoolVal(av.as_long() in b.d)
            raise OutOfSubset("`in` dict with key %r" % (a,))
        if isinstance(b, VList):
            k = z3.Int(fresh_name("k"))
            if len(b.cols) != 1:
                raise OutOfSubset("`in` list of tuples")
            return z3.Exists([k], z3.And(0 <= k, k < b.n, z3.Select(b.cols[0], k) == a.t))
        if isinstance(b, VRef):
            # dispatch to the real __contains__ through its contract
            r = s.call_method(b, "__contains__", [a], {}, st, out, node)
            if len(r) != 1:
                raise OutOfSubset("`in` forks")
            st1, v = r[0]
            if st1 is not st:
                st.__dict__.update(st1.__dict__)
            return s.truthy(v, st)
        if isinstance(b, VObj) or (isinstance(b, VStr) and isinstance(a, VObj)):
            # membership in an opaque container (or of an opaque object in a string): an uninterpreted function of (container, key)
            return z3.Function("py_contains", PyObj, PyObj, B)(s.to_obj(b), s.to_obj(a))
        raise OutOfSubset("`in` of %r in %r" % (a, b))

    def ev_BinOp(s, n, st, out):
        res = []
        for st1, (a, b) in s.evs([n.left, n.right], st, out):
            res.append((st1, s.binop(n.op, a, b, st1, n)))
        return res

    def binop(s, op, a, b, st, node):
        if isinstance(a, VInt) and isinstance(b, VInt):
            if isinstance(op, ast.Add):
                return VInt(a.t + b.t)
            if isinstance(op, ast.Sub):
                return VInt(a.t - b.t)
            if isinstance(op, ast.Mult):
                return VInt(a.t * b.t)
        if isinstance(op, ast.Add) and isinstance(a, VStr) and isinstance(b, VStr):
            return VStr(z3.Concat(a.t, b.t))
        if isinstance(op, ast.Mult) and isinstance(a, VStr) and isinstance(b, VInt):
            av = z3.simplify(a.t)
            if z3.is_string_value(av) and pystr(av) == " ":
                if getattr(s.cur, "pad_obligation", False):
                    # the blank run between unit and value/description must not be empty
                    s.goal(st, "pad>=1@line%s" % getattr(node, "lineno", "?"), b.t >= 1, "safety", node,
                           note="the header formatter separates unit and value by at least one blank")
                r = blanks(b.t)
                st.assume(z3.Length(r) == z3.If(b.t > 0, b.t, 0))
                return VStr(r)
            raise OutOfSubset("str * int")
        if isinstance(op, ast.Mod) and isinstance(a, VStr):
            return s.percent(a, b, st, node)
        if isinstance(op, ast.Add) and isinstance(a, VList) and isinstance(b, VList) and len(a.cols) == 1 and len(b.cols) == 1 \
                and a.cols[0].sort() == b.cols[0].sort():
            # concatenation of two symbolic lists: a fresh element array pinned down by two quantified clauses
            arr = z3.Const(fresh_name("concat"), a.cols[0].sort())
            k = z3.Int("k_cat")
            st.assume(z3.ForAll([k], z3.Implies(z3.And(0 <= k, k < a.n), z3.Select(arr, k) == z3.Select(a.cols[0], k)), patterns=[z3.Select(arr, k)]))
            st.assume(z3.ForAll([k], z3.Implies(z3.And(0 <= k, k < b.n), z3.Select(arr, a.n + k) == z3.Select(b.cols[0], k)), patterns=[z3.Select(b.cols[0], k)]))
            return VList(a.n + b.n, [arr], a.ety)
        if isinstance(op, ast.Add) and isinstance(a, VCList) and isinstance(b, VCList):
            return VCList(a.items + b.items)
        if isinstance(op, ast.Add) and isinstance(a, VTuple) and isinstance(b, VTuple):
            return VTuple(a.items + b.items)
        if isinstance(a, VObj) or isinstance(b, VObj) or isinstance(a, VConst) or isinstance(b, VConst):
            # opaque arithmetic (floats, arrays): uninterpreted binary function
            f = z3.Function("py_binop_" + type(op).__name__, PyObj, PyObj, PyObj)
            return VObj(f(s.to_obj(a), s.to_obj(b)))
        raise OutOfSubset("binop %s on %r, %r" % (type(op).__name__, a, b))

    def percent(s, fmt, arg, st, node):
        ft = z3.simplify(fmt.t)
        if not z3.is_string_value(ft):
            # symbolic format (fmt % n): opaque text depending on both
            f = z3.Function("py_fmt", S, PyObj, S)
            return VStr(f(fmt.t, s.to_obj(arg)))
        f = pystr(ft)
        args = arg.items if isinstance(arg, VTuple) else [arg]
        parts, k, i = [], 0, 0
        buf = ""
        while i < len(f):
            if f[i] == "%" and i + 1 < len(f):
                c = f[i + 1]
                if c == "%":
                    buf += "%"
                elif c == "s":
                    parts.append(z3.StringVal(buf)); buf = ""
                    parts.append(s.pystr(args[k], st)); k += 1
                elif c == "d":
                    parts.append(z3.StringVal(buf)); buf = ""
                    if not isinstance(args[k], VInt):
                        raise OutOfSubset("%d of non-int")
                    parts.append(fmt_d(args[k].t)); k += 1
                else:
                    # other conversions (%g, %.5f, ...): opaque text depending on format and argument
                    fo = z3.Function("py_fmt", S, PyObj, S)
                    return VStr(fo(fmt.t, s.to_obj(arg)))
                i += 2
            else:
                buf += f[i]
                i += 1
        parts.append(z3.StringVal(buf))
        parts = [p for p in parts if not (z3.is_string_value(p) and pystr(p) == "")]
        if not parts:
            return VStr("")
        return VStr(parts[0] if len(parts) == 1 else z3.Concat(*parts))

    def ev_Lambda(s, n, st, out):
        return [(st, VFunc(n, dict(st.env), "<lambda@%d>" % n.lineno))]

    def ev_Attribute(s, n, st, out):
        res = []
        for st1, v in s.ev(n.value, st, out):
            res += s.getattr_(v, n.attr, st1, out, n)
        return res

    def getattr_(s, v, attr, st, out, node):
        if isinstance(v, VPy):
            if attr in v.attrs:
                return [(st, v.attrs[attr])]
            if s.find_method(v.cls, attr):
                return [(st, VBound(v, attr))]
            s.raise_(st, "AttributeError", out, node)
            return []
        if isinstance(v, VRef) and attr == "__class__":
            return [(st, VType(z3.Select(s.heap(st, "$cls"), v.t)))]
        if isinstance(v, VRef):
            info = s.class_info(v.cls)
            # data field?
            if attr in s.all_fields(v.cls):
                return [(st, s.load(st, v.t, attr))]
            # property?
            q = s.find_method(v.cls, attr)
            if q is not None and s.is_property(q):
                return s.call_function(q, [v], {}, st, out, node)
            if q is not None:
                return [(st, VBound(v, attr))]
            if info.get("builtin_base") == "list" and attr in dir(list):
                return [(st, VBound(v, attr))]
            if info.get("getattr"):
                return s.call_method(v, "__getattr__", [VStr(attr)], {}, st, out, node)
            if info.get("closed", True):
                s.raise_(st, "AttributeError", out, node)
                return []
            raise OutOfSubset("attribute %s of %s" % (attr, v.cls))
        if isinstance(v, VExt):
            if v.name in ("mod:defaults",):
                try:
                    return [(st, _mark_global(lift_const(s.module_const("defaults", attr)), "defaults." + attr))]
                except OutOfSubset:
                    pass
            return [(st, VExt(v.name + "." + attr))]
        if isinstance(v, (VInt, VBool, VNone)):
            probe = {VInt: 0, VBool: True, VNone: None}[type(v)]
            if not hasattr(probe, attr):
                s.raise_(st, "AttributeError", out, node)
                return []
            raise OutOfSubset("attribute %s of %r" % (attr, v))
        if isinstance(v, VStr) and not hasattr("", attr):
            s.raise_(st, "AttributeError", out, node)
            return []
        if isinstance(v, VObj):
            s.may_raise_any(st, out, node, "attribute of opaque object")
            return [(st, VObj(z3.Function("py_attr_" + attr, PyObj, PyObj)(v.t)))]
        if isinstance(v, (VStr, VFile, VCList, VList, VDict, VConst, VTuple)):
            return [(st, VBound(v, attr))]
        raise OutOfSubset("attribute %s of %r" % (attr, v))

    def class_info(s, cls):
        if cls not in s.reg.classes:
            raise OutOfSubset("unknown class %s" % cls)
        return s.reg.classes[cls]

    def all_fields(s, cls):
        out = {}
        c = cls
        seen = set()
        todo = [cls]
        while todo:
            c = todo.pop()
            if c in seen or c not in s.reg.classes:
                continue
            seen.add(c)
            out.update(s.reg.classes[c]["fields"])
            todo += s.reg.classes[c].get("bases", [])
        return out

    def find_method(s, cls, name):
        todo = [cls]
        while todo:
            c = todo.pop(0)
            if c not in s.reg.classes:
                continue
            q = "%s.%s.%s" % (s.reg.classes[c]["module"], c, name)
            if q in s.funcs:
                return q
            todo += s.reg.classes[c].get("bases", [])
        return None

    def is_property(s, q):
        n = s.funcs[q]
        return any(isinstance(d, ast.Name) and d.id == "property" for d in n.decorator_list)

    def ev_Subscript(s, n, st, out):
        res = []
        if isinstance(n.slice, ast.Slice):
            sl = n.slice
            parts = [sl.lower, sl.upper]
            for st1, v in s.ev(n.value, st, out):
                for st2, bounds in s.evs([p for p in parts if p is not None], st1, out):
                    bl = list(bounds)
                    lo = bl.pop(0) if sl.lower is not None else None
                    hi = bl.pop(0) if sl.upper is not None else None
                    res.append((st2, s.slice_(v, lo, hi, st2, n)))
            return res
        for st1, (v, k) in s.evs([n.value, n.slice], st, out):
            res += s.index(v, k, st1, out, n)
        return res

    def slice_(s, v, lo, hi, st, node):
        if isinstance(v, VStr):
            L = z3.Length(v.t)
            def norm(b, dflt):
                if b is None:
                    return dflt
                if not isinstance(b, VInt):
                    raise OutOfSubset("slice bound")
                return z3.If(b.t < 0, z3.If(L + b.t < 0, 0, L + b.t), z3.If(b.t > L, L, b.t))
            a, b = norm(lo, z3.IntVal(0)), norm(hi, L)
            return VStr(z3.If(b > a, z3.SubString(v.t, a, b - a), z3.StringVal("")))
        if isinstance(v, VCList):
            def cv(b):
                if b is None:
                    return None
                t = z3.simplify(b.t)
                if not z3.is_int_value(t):
                    raise OutOfSubset("symbolic slice of concrete list")
                return t.as_long()
            return VCList(v.items[cv(lo):cv(hi)])
        raise OutOfSubset("slice of %r" % (v,))

    def index(s, v, k, st, out, node):
        """v[k] -> [(st, value)]; IndexError/KeyError outcomes appended to out"""
        if isinstance(v, VRec):
            kt = z3.simplify(k.t) if isinstance(k, VStr) else None
            if kt is None or not z3.is_string_value(kt):
                raise OutOfSubset("record field indexed with a symbolic key")
            key = pystr(kt)
            if key not in v.mapping:
                raise OutOfSubset("record key %r is not modelled" % key)
            return [(st, s.load(st, v.ref, v.mapping[key]))]
        if isinstance(v, VDict):
            if isinstance(k, VStr):
                kt = z3.simplify(k.t)
                if z3.is_string_value(kt):
                    key = pystr(kt)
                    if key in v.d:
                        return [(st, v.d[key])]
                    s.raise_(st, "KeyError", out, node)
                    return []
                # symbolic key into concrete dict
                res = []
                for key, val in v.d.items():
                    if not isinstance(key, str):
                        continue
                    c = k.t == z3.StringVal(key)
                    if is_false(c):
                        continue
                    st2 = st.fork(); st2.assume(c); st2.trace.append("%d:k=%s" % (node.lineno, key))
                    res.append((st2, val))
                st3 = st.fork()
                st3.assume(z3.And([k.t != z3.StringVal(key) for key in v.d if isinstance(key, str)] + [z3.BoolVal(True)]))
                st3.trace.append("%d:k!" % node.lineno)
                s.raise_(st3, "KeyError", out, node)
                return res
            if isinstance(k, VConst):
                if k.obj in v.d:
                    return [(st, v.d[k.obj])]
                s.raise_(st, "KeyError", out, node)
                return []
            if isinstance(k, VInt):
                kv = z3.simplify(k.t)
                if z3.is_int_value(kv) and kv.as_long() in v.d:
                    return [(st, v.d[kv.as_long()])]
            raise OutOfSubset("dict index %r" % (k,))
        if isinstance(v, VTuple) and v.items and isinstance(v.items[0], VConst) and isinstance(v.items[0].obj, tuple) \
                and v.items[0].obj == ("iter", "range") and isinstance(k, VInt):
            ra = v.items[1].items
            if len(ra) != 1 or not isinstance(ra[0], VInt):
                raise OutOfSubset("subscript of range with several arguments")
            n_ = ra[0].t
            ok = z3.And(k.t < n_, k.t >= -n_)
            res = []
            st2 = st.fork(); st2.assume(ok); st2.trace.append("%d:rg1" % node.lineno)
            res.append((st2, VInt(z3.If(k.t < 0, n_ + k.t, k.t))))
            st3 = st.fork(); st3.assume(z3.Not(ok)); st3.trace.append("%d:rg0" % node.lineno)
            s.raise_(st3, "IndexError", out, node)
            return res
        if isinstance(v, (VCList, VTuple)):
            if not isinstance(k, VInt):
                raise OutOfSubset("index of concrete sequence with %r" % (k,))
            kt = z3.simplify(k.t)
            if z3.is_int_value(kt):
                i = kt.as_long()
                if -len(v.items) <= i < len(v.items):
                    return [(st, v.items[i])]
                s.raise_(st, "IndexError", out, node)
                return []
            # symbolic index into concrete list: safety goal + ite chain
            n = len(v.items)
            res = []
            for i in range(n):
                c = z3.Or(k.t == i, k.t == i - n)
                if is_false(c):
                    continue
                st2 = st.fork(); st2.assume(c); st2.trace.append("%d:i=%d" % (node.lineno, i))
                res.append((st2, v.items[i]))
            st3 = st.fork(); st3.assume(z3.Or(k.t >= n, k.t < -n)); st3.trace.append("%d:i!" % node.lineno)
            s.raise_(st3, "IndexError", out, node)
            return res
        if isinstance(v, VStr):
            if not isinstance(k, VInt):
                raise OutOfSubset("str index")
            L = z3.Length(v.t)
            ok = z3.And(k.t < L, k.t >= -L)
            res = []
            if not is_false(ok):
                st2 = st.fork(); st2.assume(ok); st2.trace.append("%d:si1" % node.lineno)
                idx = z3.If(k.t < 0, L + k.t, k.t)
                res.append((st2, VStr(z3.SubString(v.t, idx, 1))))
            if not is_true(ok):
                st3 = st.fork(); st3.assume(z3.Not(ok)); st3.trace.append("%d:si0" % node.lineno)
                s.raise_(st3, "IndexError", out, node)
            return res
        if isinstance(v, VList):
            if not isinstance(k, VInt):
                raise OutOfSubset("list index")
            ok = z3.And(k.t < v.n, k.t >= -v.n)
            res = []
            if not is_false(ok):
                st2 = st.fork(); st2.assume(ok); st2.trace.append("%d:li1" % node.lineno)
                idx = z3.If(k.t < 0, v.n + k.t, k.t)
                idx = z3.simplify(idx)
                res.append((st2, build(v.ety, [z3.Select(c, idx) for c in v.cols])))
            if not is_true(ok):
                st3 = st.fork(); st3.assume(z3.Not(ok)); st3.trace.append("%d:li0" % node.lineno)
                s.raise_(st3, "IndexError", out, node)
            return res
        if isinstance(v, VRef):
            return s.call_method(v, "__getitem__", [k], {}, st, out, node)
        if isinstance(v, VObj):
            f = z3.Function("py_getitem", PyObj, PyObj, PyObj)
            s.may_raise_any(st, out, node, "subscript of opaque object")
            return [(st, VObj(f(v.t, s.to_obj(k))))]
        raise OutOfSubset("index of %r" % (v,))

    def raise_(s, st, exc, out, node, val=None):
        out.append(Outcome("raise", st, val=val, exc=exc, node=node))

    def may_raise_any(s, st, out, node, why):
        """An uncontracted/opaque operation: fork an 'Any' exception outcome if
        the current contract asks for exception-completeness (typestate)."""
        if s.cur is not None and getattr(s.cur, "anyraise", False):
            st2 = st.fork()
            st2.trace.append("%s:any" % getattr(node, "lineno", "?"))
            s.raise_(st2, "Any", out, node)

    def ev_ListComp(s, n, st, out):
        if len(n.generators) != 1 or n.generators[0].ifs and len(n.generators[0].ifs) > 1:
            raise OutOfSubset("comprehension shape")
        gen = n.generators[0]
        res = []
        for st1, it in s.ev(gen.iter, st, out):
            if isinstance(it, VTuple) and it.items and isinstance(it.items[0], VConst) and isinstance(it.items[0].obj, tuple) \
                    and it.items[0].obj[:2] == ("iter", "enumerate"):
                a_, kw_ = it.items[1].items, it.items[2].d
                if isinstance(a_[0], (VCList, VTuple)):
                    # enumerate over a concrete sequence: a concrete list of (index, element) pairs
                    st_ = a_[1] if len(a_) > 1 else kw_.get("start", VInt(0))
                    it = VCList([VTuple([VInt(st_.t + i_), x_]) for i_, x_ in enumerate(a_[0].items)])
            if isinstance(it, (VCList, VTuple)) and not (it.items and isinstance(it.items[0], VConst) and isinstance(it.items[0].obj, tuple)
                                                         and it.items[0].obj[:1] == ("iter",)):
                # concrete: unroll
                cur = [(st1, [])]
                for x in it.items:
                    nxt = []
                    for st2, acc in cur:
                        st3 = st2.fork()
                        saved = s.bind_tmp(gen.target, x, st3)
                        keep = [(st3, True)]
                        if gen.ifs:
                            keep = []
                            for st4, c in s.ev(gen.ifs[0], st3, out):
                                ct = s.truthy(c, st4)
                                if is_true(ct):
                                    keep.append((st4, True))
                                elif is_false(ct):
                                    keep.append((st4, False))
                                else:
                                    raise OutOfSubset("symbolic filter in concrete comprehension")
                        for st4, k in keep:
                            if k:
                                for st5, v in s.ev(n.elt, st4, out):
                                    s.unbind_tmp(saved, st5)
                                    nxt.append((st5, acc + [v]))
                            else:
                                s.unbind_tmp(saved, st4)
                                nxt.append((st4, acc))
                    cur = nxt
                res += [(st2, VCList(acc)) for st2, acc in cur]
                continue
            if gen.ifs:
                raise OutOfSubset("filtered symbolic comprehension")
            # symbolic sequence: Lambda array over a bound index
            n_t, elem_at = s.seq_view(it, st1)
            k = z3.Int(fresh_name("ck"))
            from . import values as _V
            cnt0 = _V._cnt[0]
            st2 = st1.fork()
            heap_before = dict(st2.heap)
            saved = s.bind_tmp(gen.target, elem_at(k), st2)
            st2.assume(z3.And(0 <= k, k < n_t))        # the element is only ever evaluated for indices of the sequence
            mark = len(st2.pc)
            sub_out = []
            r = s.ev(n.elt, st2, sub_out)
            for o_ in sub_out:
                # an exceptional outcome of the element expression is tolerated only when it is provably infeasible
                sol = z3.Solver(); sol.set("timeout", 2000)
                for a_ in s.axioms_for(s.cur):
                    sol.add(a_)
                for a_ in o_.st.pc:
                    sol.add(a_)
                if str(sol.check()) != "unsat":
                    raise OutOfSubset("comprehension element may raise %s" % o_.exc)
            if not r:
                raise OutOfSubset("comprehension element has no normal outcome")
            for st_i, _v in r:
                if any(st_i.heap.get(f_) is not heap_before.get(f_) for f_ in set(st_i.heap) | set(heap_before)):
                    raise OutOfSubset("comprehension element writes the heap")
            deltas = [list(st_i.pc[mark:]) for st_i, _v in r]
            st3 = r[0][0]
            del st3.pc[mark - 1:]                      # drop the path condition of the element and the index range
            s.unbind_tmp(saved, st3)
            if len(r) == 1:
                v = r[0][1]
                terms = flatten(v)
                ety = type_of(v)
                facts = deltas[0]
            else:
                # the element forks (short-circuit operators, conditional expressions): one value per path, merged into
                # an if-then-else over the path conditions; the paths are exhaustive, so their disjunction may be assumed
                tys = {repr(type_of(v_)) for _s, v_ in r}
                if len(tys) == 1 and len(flatten(r[0][1])) == 1:
                    ety = type_of(r[0][1])
                    pts = [flatten(v_)[0] for _s, v_ in r]
                else:
                    ety = OBJ
                    pts = [s.to_obj(v_) for _s, v_ in r]
                t_ = pts[-1]
                for d_, p_ in reversed(list(zip(deltas[:-1], pts[:-1]))):
                    t_ = z3.If(z3.And(d_ + [z3.BoolVal(True)]), p_, t_)
                terms = [t_]
                facts = [z3.Or([z3.And(d_ + [z3.BoolVal(True)]) for d_ in deltas])]
            # constants created while evaluating the element stand for per-element values: Skolem functions of the index
            terms, facts = _skolemize(terms, facts, k, cnt0)
            cols = [z3.Lambda([k], t) for t in terms]
            # facts created while evaluating the element are re-added universally quantified over the index
            for f in facts:
                st3.assume(z3.ForAll([k], z3.Implies(z3.And(0 <= k, k < n_t), f)))
            res.append((st3, VList(n_t, cols, ety)))
        return res

    def seq_view(s, it, st):
        """(length term, index -> Value) of an iterable value"""
        if isinstance(it, VTuple) and it.items and isinstance(it.items[0], VConst) and isinstance(it.items[0].obj, tuple) \
                and it.items[0].obj[:2] == ("iter", "enumerate"):
            # enumerate(seq[, start]) over a symbolic sequence: pairs (start + k, seq[k])
            a_, kw_ = it.items[1].items, it.items[2].d
            start_ = a_[1] if len(a_) > 1 else kw_.get("start", VInt(0))
            n_, inner = s.seq_view(a_[0], st)
            return n_, (lambda k: VTuple([VInt(start_.t + k), inner(k)]))
        if isinstance(it, VList):
            return it.n, (lambda k: build(it.ety, [z3.Select(c, k) for c in it.cols]))
        if isinstance(it, VRef) and s.class_info(it.cls).get("seq"):
            ety = s.class_info(it.cls)["seq"]
            items = s.seq_items(st, it.t)
            return s.seq_len(st, it.t), (lambda k: VRef(z3.Select(items, k), ety))
        if isinstance(it, VObj) and getattr(s.cur, "opaque_iterables", False):
            # an opaque iterable (numpy array): its elements as an uninterpreted sequence (T-enc: iteration yields
            # len(o) elements item(o, 0..len-1)); only where the contract asks for it
            items = z3.Function("py_items_of", PyObj, z3.ArraySort(I, PyObj))(it.t)
            n_ = len_of(it.t)
            st.assume(n_ >= 0)
            return n_, (lambda k: VObj(z3.Select(items, k)))
        raise OutOfSubset("not a sequence: %r" % (it,))

    def bind_tmp(s, target, val, st):
        names = [x.id for x in ast.walk(target) if isinstance(x, ast.Name)]
        saved = {nm: st.env.get(nm) for nm in names}
        s.assign(target, val, st, [], None)
        return saved

    def unbind_tmp(s, saved, st):
        # Python 3 comprehension variables do not leak
        for nm, v in saved.items():
            if v is None:
                st.env.pop(nm, None)
            else:
                st.env[nm] = v

    def ev_DictComp(s, n, st, out):
        """{k: v for ... in <concrete> [for ... in <concrete>]} - unrolled; keys must be concrete strings/ints"""
        if any(g.ifs for g in n.generators) or len(n.generators) > 2:
            raise OutOfSubset("dict comprehension shape")
        from .stmts import _concrete_key

        def go(gi, st0, acc):
            if gi == len(n.generators):
                res_ = []
                for st1, (kv, vv) in s.evs([n.key, n.value], st0, out):
                    d_ = dict(acc); d_[_concrete_key(kv)] = vv
                    res_.append((st1, d_))
                return res_
            g = n.generators[gi]
            outs = []
            for st1, it in s.ev(g.iter, st0, out):
                if not isinstance(it, (VCList, VTuple)) or (it.items and isinstance(it.items[0], VConst) and isinstance(it.items[0].obj, tuple) and it.items[0].obj[:1] == ("iter",)):
                    raise OutOfSubset("dict comprehension over a symbolic sequence")
                cur = [(st1, acc)]
                for x in it.items:
                    nxt = []
                    for st2, a2 in cur:
                        saved = s.bind_tmp(g.target, x, st2)
                        for st3, a3 in go(gi + 1, st2, a2):
                            s.unbind_tmp(saved, st3)
                            nxt.append((st3, a3))
                    cur = nxt
                outs += cur
            return outs
        return [(st1, VDict(d_)) for st1, d_ in go(0, st, {})]

    def ev_GeneratorExp(s, n, st, out):
        return s.ev_ListComp(n, st, out)

    def ev_Call(s, n, st, out):
        from .calls import ev_call
        return ev_call(s, n, st, out)

    def ev_Starred(s, n, st, out):
        raise OutOfSubset("starred expression")


def _skolemize(terms, facts, k, cnt0):
    """replace every constant created after counter value cnt0 (names end in !N) by a fresh function of k"""
    import re as _re
    seen, todo, consts = set(), list(terms) + list(facts), {}
    while todo:
        e = todo.pop()
        if e.get_id() in seen:
            continue
        seen.add(e.get_id())
        if z3.is_const(e) and e.decl().kind() == z3.Z3_OP_UNINTERPRETED:
            m_ = _re.search(r"!(\d+)$", e.decl().name())
            if m_ and int(m_.group(1)) > cnt0 and not e.eq(k):
                consts[e.get_id()] = e
        elif z3.is_quantifier(e):
            todo.append(e.body())
        else:
            todo.extend(e.children())
    if not consts:
        return terms, facts
    subs = [(c_, z3.Function(c_.decl().name() + "@k", z3.IntSort(), c_.sort())(k)) for c_ in consts.values()]
    return [z3.substitute(t_, *subs) for t_ in terms], [z3.substitute(f_, *subs) for f_ in facts]


def _mangle(x):
    return hashlib.sha1(x.encode()).hexdigest()[:10]
