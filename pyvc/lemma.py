"""Lemma obligations stated over contract formulas only (no code)."""
import z3
from .values import *
from .state import State, Goal
from .engine import SpecCtx


def ctx_for(E, params, reveal=()):
    """a symbolic pre-state with the given typed arguments"""
    reset_names()
    st = State()
    args = {}
    for nm, ty in params.items():
        v, asm = fresh(ty, nm)
        for a in asm:
            st.assume(a)
        args[nm] = v
        st.env[nm] = v
    h0 = {}
    for f in E.known_fields():
        E.heap0(st, h0, f)
    return st, SpecCtx(E, st, args, h0)


def goal(E, prop, name, hyps, concl, reveal=()):
    class _C:
        pass
    c = _C(); c.reveal = reveal
    g = Goal("lemma:%s:%s" % (prop, name), E.axioms_for(c) + list(hyps), concl, "lemma", "lemma:" + prop)
    return g


def result_ctx(c, res):
    r = SpecCtx(c.eng, c.st, c.a, c.h0, res=res)
    r.callee = True
    return r
