"""Tiny regular-expression combinators with two back ends: a z3 regex (for
language-inclusion goals) and a Python `re` pattern (for native validation of the
same language against CPython/numpy).  One source, two uses."""
import re as _re


class R:
    def __init__(s, kind, *args):
        s.kind, s.args = kind, args

    def __add__(s, o):
        return R("cat", s, o)

    def __or__(s, o):
        return R("alt", s, o)

    def to_py(s):
        k, a = s.kind, s.args
        if k == "lit":
            return _re.escape(a[0])
        if k == "range":
            return "[%s-%s]" % (_re.escape(a[0]), _re.escape(a[1]))
        if k == "cat":
            return "(?:%s%s)" % (a[0].to_py(), a[1].to_py())
        if k == "alt":
            return "(?:%s|%s)" % (a[0].to_py(), a[1].to_py())
        if k == "star":
            return "(?:%s)*" % a[0].to_py()
        if k == "plus":
            return "(?:%s)+" % a[0].to_py()
        if k == "opt":
            return "(?:%s)?" % a[0].to_py()
        if k == "eps":
            return ""
        raise ValueError(k)

    def to_z3(s):
        import z3
        k, a = s.kind, s.args
        if k == "lit":
            return z3.Re(z3.StringVal(a[0]))
        if k == "range":
            return z3.Range(a[0], a[1])
        if k == "cat":
            return z3.Concat(a[0].to_z3(), a[1].to_z3())
        if k == "alt":
            return z3.Union(a[0].to_z3(), a[1].to_z3())
        if k == "star":
            return z3.Star(a[0].to_z3())
        if k == "plus":
            return z3.Plus(a[0].to_z3())
        if k == "opt":
            return z3.Option(a[0].to_z3())
        if k == "eps":
            return z3.Re(z3.StringVal(""))
        raise ValueError(k)

    def matches(s, text):
        return _re.fullmatch(s.to_py(), text) is not None


def lit(x):
    return R("lit", x)


def rng(a, b):
    return R("range", a, b)


def star(r):
    return R("star", r)


def plus(r):
    return R("plus", r)


def opt(r):
    return R("opt", r)


def alt(*rs):
    out = rs[0]
    for r in rs[1:]:
        out = out | r
    return out


def cat(*rs):
    out = rs[0]
    for r in rs[1:]:
        out = out + r
    return out


def word_ci(w):
    """a word in any letter case"""
    return cat(*[alt(lit(ch.lower()), lit(ch.upper())) if ch.isalpha() else lit(ch) for ch in w])


EPS = R("eps")


# ---------------------------------------------------------------- Python `re` pattern -> R (subset)
def from_python(pattern, flags=0):
    """Translate a Python regular expression (the subset used in lasio's tables:
    literals, classes, \\d \\w \\s, ranges, groups, alternation, * + ? {m,n}) into R.
    Raises ValueError outside the subset (then the lemma is out of reach)."""
    try:
        import re._parser as sp
        import re._constants as sc
    except ImportError:          # Python < 3.11
        import sre_parse as sp
        import sre_constants as sc
    tree = sp.parse(pattern, flags)

    def chars(cs):
        return alt(*[lit(c) for c in cs]) if cs else None

    DIGIT = rng("0", "9")
    WORD = alt(rng("0", "9"), rng("a", "z"), rng("A", "Z"), lit("_"))
    SPACE = alt(*[lit(c) for c in " \t\n\r\x0b\x0c"])

    def category(c):
        if c == sc.CATEGORY_DIGIT:
            return DIGIT
        if c == sc.CATEGORY_WORD:
            return WORD
        if c == sc.CATEGORY_SPACE:
            return SPACE
        raise ValueError("regex category %r" % (c,))

    def seq(items):
        out = EPS
        first = True
        for op, av in items:
            r = node(op, av)
            out = r if first else out + r
            first = False
        return out

    def node(op, av):
        if op == sc.LITERAL:
            return lit(chr(av))
        if op == sc.IN:
            parts = []
            for o2, a2 in av:
                if o2 == sc.LITERAL:
                    parts.append(lit(chr(a2)))
                elif o2 == sc.RANGE:
                    parts.append(rng(chr(a2[0]), chr(a2[1])))
                elif o2 == sc.CATEGORY:
                    parts.append(category(a2))
                else:
                    raise ValueError("regex class item %r" % (o2,))
            return alt(*parts)
        if op == sc.SUBPATTERN:
            return seq(av[3])
        if op == sc.BRANCH:
            return alt(*[seq(b) for b in av[1]])
        if op in (sc.MAX_REPEAT, sc.MIN_REPEAT):
            lo, hi, sub = av
            r = seq(sub)
            if hi == sc.MAXREPEAT:
                base = star(r)
                for _ in range(lo):
                    base = r + base
                return base
            out = EPS
            for k in range(hi, 0, -1):
                out = opt(r + out) if k > lo else r + out
            return out
        if op == sc.CATEGORY:
            return category(av)
        raise ValueError("regex construct %r" % (op,))

    return seq(list(tree))
