"""Tiny regular-expression combinators with two back ends: a z3 regex (for
language-inclusion goals) and a Python `re` pattern (for native validation of the
same language against CPython/numpy).  One source, two uses."""
import re as _re


class R:
    def __init__(s, kind, *args):
        s.kind, s.args = kind, args

    def __add__(s, o):
        return R("cat", s, o)

    def __or__(s, o):
        return R("alt", s, o)

    def to_py(s):
        k, a = s.kind, s.args
        if k == "lit":
            return _re.escape(a[0])
        if k == "range":
            return "[%s-%s]" % (_re.escape(a[0]), _re.escape(a[1]))
        if k == "cat":
            return "(?:%s%s)" % (a[0].to_py(), a[1].to_py())
        if k == "alt":
            return "(?:%s|%s)" % (a[0].to_py(), a[1].to_py())
        if k == "star":
            return "(?:%s)*" % a[0].to_py()
        if k == "plus":
            return "(?:%s)+" % a[0].to_py()
        if k == "opt":
            return "(?:%s)?" % a[0].to_py()
        if k == "eps":
            return ""
        raise ValueError(k)

    def to_z3(s):
        import z3
        k, a = s.kind, s.args
        if k == "lit":
            return z3.Re(z3.StringVal(a[0]))
        if k == "range":
            return z3.Range(a[0], a[1])
        if k == "cat":
            return z3.Concat(a[0].to_z3(), a[1].to_z3())
        if k == "alt":
            return z3.Union(a[0].to_z3(), a[1].to_z3())
        if k == "star":
            return z3.Star(a[0].to_z3())
        if k == "plus":
            return z3.Plus(a[0].to_z3())
        if k == "opt":
            return z3.Option(a[0].to_z3())
        if k == "eps":
            return z3.Re(z3.StringVal(""))
        raise ValueError(k)

    def matches(s, text):
        return _re.fullmatch(s.to_py(), text) is not None


def lit(x):
    return R("lit", x)


def rng(a, b):
    return R("range", a, b)


def star(r):
    return R("star", r)


def plus(r):
    return R("plus", r)


def opt(r):
    return R("opt", r)


def alt(*rs):
    out = rs[0]
    for r in rs[1:]:
        out = out | r
    return out


def cat(*rs):
    out = rs[0]
    for r in rs[1:]:
        out = out + r
    return out


def word_ci(w):
    """a word in any letter case"""
    return cat(*[alt(lit(ch.lower()), lit(ch.upper())) if ch.isalpha() else lit(ch) for ch in w])


EPS = R("eps")
