"""Discharge goals: z3 (python API, process pool) first, cvc5 CLI for what z3
leaves open.  A goal is discharged iff (hyps and not concl) is unsat."""
import hashlib
import os
import subprocess
import tempfile
import time
from concurrent.futures import ProcessPoolExecutor


def _z3_abs_check(args):
    """z3 on the string-abstracted query (sound for unsat only)"""
    text, timeout_ms, seed = args
    from .strabs import abstract
    t0 = time.time()
    try:
        ab = abstract(text)
    except Exception as e:
        return "error", "abstraction failed: %r" % (e,), time.time() - t0
    if ab is None:
        return "unknown", "not abstractable", time.time() - t0
    r, reason, dt = _z3_check((ab, timeout_ms, seed, False))
    if r == "sat":
        r, reason = "unknown", "model of the abstraction only"
    return r, reason, time.time() - t0


def _z3_check(args):
    text, timeout_ms, seed, mbqi = args
    import z3
    t0 = time.time()
    try:
        s = z3.Solver()
        s.set("timeout", timeout_ms)
        s.set("random_seed", seed)
        if not mbqi:
            s.set("auto_config", False)
            s.set("mbqi", False)
        s.from_string(text)
        r = str(s.check())
        reason = s.reason_unknown() if r == "unknown" else ""
    except Exception as e:  # solver crash is never a verdict
        r, reason = "error", repr(e)
    return r, reason, time.time() - t0


def _cvc5_check(args):
    text, timeout_ms = args
    t0 = time.time()
    fd, p = tempfile.mkstemp(suffix=".smt2", dir=os.environ.get("VERIF_SCRATCH", "/var/tmp"))
    try:
        with os.fdopen(fd, "w") as f:
            f.write("(set-logic ALL)\n" + text)
        try:
            pr = subprocess.run(
                ["/usr/bin/cvc5", "--strings-exp", "--tlimit=%d" % timeout_ms, p],
                capture_output=True, text=True, timeout=timeout_ms / 1000 + 10)
            out = (pr.stdout or "").strip().splitlines()
            r = out[0] if out else "error"
            reason = (pr.stderr or "")[:200]
            if r not in ("sat", "unsat", "unknown"):
                r, reason = "error", (pr.stdout + pr.stderr)[:300]
        except subprocess.TimeoutExpired:
            r, reason = "unknown", "timeout"
    finally:
        try:
            os.unlink(p)
        except OSError:
            pass
    return r, reason, time.time() - t0


def discharge(goals, timeout_s=20, workers=None, use_cvc5=True, both=False, seed=0, stages=("z3-abs", "z3", "z3-mbqi", "cvc5")):
    """Sets g.status in {unsat, sat, unknown, error}, g.solver, g.time.
    stages: which back ends to try, in order, on the goals still open."""
    workers = workers or min(16, os.cpu_count() or 4)
    todo = [g for g in goals if both or g.status != "unsat"]
    stats = {"z3_time": 0.0, "cvc5_time": 0.0, "z3": 0, "cvc5": 0}
    if not todo:
        return stats
    for g in todo:
        if g.status is None:
            g.time = 0.0
    with ProcessPoolExecutor(max_workers=workers) as ex:
        for stage in stages:
            open_ = [g for g in todo if g.status not in ("unsat", "sat")]     # a model is a definitive answer
            if stage == "cvc5" and both:
                open_ = todo
            if not open_:
                break
            if stage == "z3-abs":
                rs = list(ex.map(_z3_abs_check, [(g.to_smt2(), int(min(timeout_s, 20) * 1000), seed) for g in open_], chunksize=1))
                for g, (r, reason, dt) in zip(open_, rs):
                    stats["z3_time"] += dt
                    g.time += dt
                    if r == "unsat":
                        g.status, g.solver = "unsat", "z3(strings abstracted)"
                        stats["z3"] += 1
                    elif g.status != "unsat":
                        g.status, g.reason, g.solver = "unknown", reason, "z3-abs"
            elif stage in ("z3", "z3-mbqi"):
                rs = list(ex.map(_z3_check, [(g.to_smt2(), int(timeout_s * 1000), seed, stage == "z3-mbqi") for g in open_], chunksize=1))
                for g, (r, reason, dt) in zip(open_, rs):
                    stats["z3_time"] += dt
                    g.time += dt
                    if r == "unsat":
                        g.status, g.solver = "unsat", stage
                        stats["z3"] += 1
                    elif g.status != "unsat":
                        g.status, g.reason = ("unknown" if r != "sat" else "sat"), reason or ("model found (%s)" % stage if r == "sat" else "")
                        g.solver = stage
            elif stage == "cvc5" and use_cvc5:
                rs = list(ex.map(_cvc5_check, [(g.to_smt2(), int(timeout_s * 1000)) for g in open_], chunksize=1))
                for g, (r, reason, dt) in zip(open_, rs):
                    stats["cvc5_time"] += dt
                    g.cvc5 = (r, reason, round(dt, 2))
                    if g.status != "unsat" and r == "unsat":
                        g.status, g.solver, g.time = "unsat", "cvc5", g.time + dt
                        stats["cvc5"] += 1
                    elif g.status == "unsat" and r == "unsat" and "cvc5" not in g.solver:
                        g.solver = g.solver + "+cvc5"
    return stats


def goal_hash(g):
    return hashlib.sha256(g.to_smt2().encode()).hexdigest()[:16]
