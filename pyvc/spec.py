"""Contract objects.  Contracts live in /verif/specs/*.py (sidecar; /repo is not
annotated).  A contract is keyed by 'module.Class.func' or 'module.func', or by
'module.func#BLOCK' for a mechanically extracted block."""


class Contract:
    def __init__(
        s,
        name,
        params,                 # ordered dict name -> type  (one specialisation)
        case="",                # specialisation label
        requires=None,          # f(c) -> [(name, BoolRef)]
        ensures=None,           # f(c) -> [(name, BoolRef)]   (c.res = result)
        raises=None,            # [(ExcName, f(c) -> BoolRef)]  raised IFF cond
        may_raise=None,         # [ExcName] allowed with no stated condition
        modifies=None,          # {field: f(c, r) -> BoolRef region} (None=whole)
        loops=None,             # {ordinal: f(c) -> [(name, BoolRef)]}
        loop_anchor=None,       # {ordinal: substring expected in the loop header}
        ghost_init=None,        # f(c, st)  set up ghost/file model at entry
        returns=None,           # result type when used as a callee
        inline=False,           # callee is inlined (executed) instead of contracted
        assumed=False,          # contract is not verified (library / out of reach)
        block=None,             # block anchor for extracted blocks
        properties=(),          # property ids this contract serves
        note="",
        hooks=None,             # {anchor: f(c, st)} ghost updates at statements
        outputs=None,           # for blocks: names whose final values are results
        self_type=None,
        **extra
    ):
        s.name, s.params, s.case = name, params, case
        s.requires, s.ensures = requires, ensures
        s.raises, s.may_raise = raises or [], may_raise or []
        s.modifies = modifies or {}
        s.loops, s.loop_anchor = loops or {}, loop_anchor or {}
        s.ghost_init, s.returns = ghost_init, returns
        s.inline, s.assumed, s.block = inline, assumed, block
        s.properties, s.note = tuple(properties), note
        s.hooks = hooks or {}
        s.outputs = outputs
        s.local_types = {}
        s.loop_types = {}
        s.loop_fields = []
        s.loop_ghost = {}
        s.anyraise = False
        for k_, v_ in extra.items():
            setattr(s, k_, v_)

    @property
    def key(s):
        return s.name + ("[" + s.case + "]" if s.case else "")


class Registry:
    def __init__(s):
        s.contracts = {}    # name -> [Contract]
        s.classes = {}      # class -> {"fields": {f: type}, "bases": [..], "module": m}
        s.axioms = []       # [(name, BoolRef)] global axioms (T-str etc.)

    def add(s, c):
        s.contracts.setdefault(c.name, []).append(c)
        return c

    def get(s, name):
        return s.contracts.get(name, [])
