"""Execution state, outcomes and goals."""
import copy
import z3
from .values import *


class OutOfSubset(Exception):
    """The function uses a construct the translator does not support: the
    function is reported 'out of reach', never proved, never a violation."""


class State:
    def __init__(s):
        s.env = {}          # local variables of the current frame
        s.stack = []        # saved envs of callers (inlined calls)
        s.heap = {}         # field -> z3 array
        s.pc = []           # path condition (list of BoolRef)
        s.ghost = {}        # ghost state
        s.trace = []        # branch decisions (for stable path names)
        s.written = set()   # heap fields stored to on this path (frame check)

    def fork(s):
        n = State()
        memo = {}
        n.env = {k: _cp(v, memo) for k, v in s.env.items()}
        n.stack = [{k: _cp(v, memo) for k, v in e.items()} for e in s.stack]
        n.heap = dict(s.heap)
        n.pc = list(s.pc)
        n.ghost = {k: _cp(v, memo) for k, v in s.ghost.items()}
        n.trace = list(s.trace)
        n.written = set(s.written)
        return n

    def assume(s, f):
        if isinstance(f, bool):
            f = z3.BoolVal(f)
        s.pc.append(f)


def _cp(v, memo=None):
    """copy mutable concrete structures, preserving aliasing between frames"""
    if memo is None:
        memo = {}
    if isinstance(v, (VDict, VCList, VPy)):
        if id(v) in memo:
            return memo[id(v)]
        if isinstance(v, VDict):
            n = VDict(); memo[id(v)] = n
            n.d = {k: _cp(x, memo) for k, x in v.d.items()}
            if getattr(v, "global_name", None):
                n.global_name = v.global_name
        elif isinstance(v, VCList):
            n = VCList([]); memo[id(v)] = n
            n.items = [_cp(x, memo) for x in v.items]
            if getattr(v, "global_name", None):
                n.global_name = v.global_name
        else:
            n = VPy(v.cls); memo[id(v)] = n
            n.attrs = {k: _cp(x, memo) for k, x in v.attrs.items()}
        return n
    if isinstance(v, dict):
        return {k: _cp(x, memo) for k, x in v.items()}
    if isinstance(v, list):
        return [_cp(x, memo) for x in v]
    return v


class Outcome:
    """kind in normal | return | raise | break | continue"""

    def __init__(s, kind, st, val=None, exc=None, node=None):
        s.kind, s.st, s.val, s.exc, s.node = kind, st, val, exc, node

    def __repr__(s):
        return "Outcome(%s,%s,%s)" % (s.kind, s.val, s.exc)


class Goal:
    def __init__(s, name, hyps, concl, kind, func, line=None, note=""):
        s.name, s.hyps, s.concl = name, list(hyps), concl
        s.kind, s.func, s.line, s.note = kind, func, line, note
        s.status = None
        s.solver = None
        s.time = 0.0
        s.smt2 = None

    def to_smt2(s):
        if s.smt2 is None:
            sol = z3.Solver()
            for h in s.hyps:
                sol.add(h)
            sol.add(z3.Not(s.concl))
            s.smt2 = sol.to_smt2()
        return s.smt2


# exception hierarchy (child -> parent)
EXC_PARENT = {
    "Exception": "BaseException",
    "KeyError": "LookupError",
    "IndexError": "LookupError",
    "LookupError": "Exception",
    "AttributeError": "Exception",
    "ValueError": "Exception",
    "TypeError": "Exception",
    "AssertionError": "Exception",
    "OSError": "Exception",
    "IOError": "OSError",
    "UnicodeDecodeError": "ValueError",
    "ImportError": "Exception",
    "LASHeaderError": "Exception",
    "LASDataError": "Exception",
    "LASUnknownUnitError": "Exception",
    "KeyboardInterrupt": "BaseException",
    "ZeroDivisionError": "Exception",
    "StopIteration": "Exception",
    "Any": "Exception",   # an unknown exception raised by uncontracted code
}


def exc_is(cls, handler):
    """True / False / None(maybe) : does exception class `cls` match handler?"""
    if handler is None or handler == "BaseException":
        return True
    c = cls
    while c is not None:
        if c == handler:
            return True
        c = EXC_PARENT.get(c)
    if cls == "Any":
        # unknown exception: may or may not be an instance of handler
        return True if handler == "Exception" else None
    return False
