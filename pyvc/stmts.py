"""Statements, loops (cut by invariants), modular calls, function verification."""
import ast
import z3

from .values import *
from .state import *
from .engine import Engine, SpecCtx, lift_const, is_true, is_false, MAX_PATHS
from . import calls as C


def exec_block(E, stmts, st):
    """Execute a statement list; returns a list of Outcomes."""
    cur = [st]
    done = []
    idx = 0
    use = getattr(E, "block_use", None) or {}
    while idx < len(stmts):
        stmt = stmts[idx]
        nxt = []
        ub = use.get(id(stmt))
        if ub is not None and [id(x) for x in stmts[idx:idx + len(ub[1])]] == [id(x) for x in ub[1]]:
            # a verified block of this function: the caller sees its contract, not its body
            for s1 in cur:
                out = []
                nxt += apply_block(E, ub[0], ub[1], s1, out, ub[2])
                done += out
            idx += len(ub[1])
        else:
            for s1 in cur:
                for o in E.exec_stmt(stmt, s1):
                    if o.kind == "normal":
                        nxt.append(o.st)
                    else:
                        done.append(o)
            idx += 1
        cur = nxt
        if len(cur) + len(done) > MAX_PATHS:
            raise OutOfSubset("path explosion (> %d)" % MAX_PATHS)
        if not cur:
            break
    return done + [Outcome("normal", s1) for s1 in cur]


def apply_block(E, c, blk, st, out, hook=None):
    """Modular use of a block contract inside the function it was extracted from: its
    requires become goals over the current locals, the heap fields in its frame and the
    locals the block assigns are havocked, its ensures are assumed over the new locals."""
    node = blk[0]
    line = getattr(node, "lineno", "?")
    E.used_contracts.add(c.key)
    args = {}
    for nm, ty in c.params.items():
        if nm not in st.env:
            raise OutOfSubset("block %s: free variable %s is not bound at line %s" % (c.key, nm, line))
        args[nm] = adapt(E, st.env[nm], ty) if not isinstance(ty, V) and ty != "dict" else st.env[nm]
    h_pre = dict(st.heap)
    pre = SpecCtx(E, st, args, h_pre)
    pre.callee = True
    if c.requires:
        for nm, f in c.requires(pre):
            E.goal(st, "block@%s:%s:pre:%s" % (line, c.key, nm), f, "call-pre", node)
    conds = []
    for exc, cond in c.raises:
        ct = cond(pre)
        conds.append(ct)
        if is_false(ct):
            continue
        s_e = st.fork(); s_e.assume(ct); s_e.trace.append("%s:raise:%s" % (line, exc))
        havoc_frame(E, c, s_e, pre, h_pre)
        E.raise_(s_e, exc, out, node)
    for exc in c.may_raise:
        s_e = st.fork(); s_e.trace.append("%s:mayraise:%s" % (line, exc))
        havoc_frame(E, c, s_e, pre, h_pre)
        E.raise_(s_e, exc, out, node)
    for ct in conds:
        st.assume(z3.Not(ct))
    havoc_frame(E, c, st, pre, h_pre)
    types = dict(getattr(c, "local_types", None) or {})
    types.update(getattr(c, "loop_types", None) or {})
    types.update(getattr(c, "block_outputs", None) or {})
    for nm in sorted(assigned_names(blk)):
        ty = types.get(nm)
        if ty is None and nm in c.params and not isinstance(c.params[nm], V) and c.params[nm] != "dict":
            ty = c.params[nm]
        if ty is None:
            # a local of the block the contract says nothing about: an opaque value
            st.env[nm] = VObj(z3.Const(fresh_name("blk_" + nm), PyObj))
            continue
        v, asm = fresh(ty, "blk_" + nm)
        for a in asm:
            st.assume(a)
        st.env[nm] = v
    post = SpecCtx(E, st, args, h_pre, res=VNone())
    post.callee = True
    if c.ensures:
        for nm, f in c.ensures(post):
            st.assume(f)
    if hook is not None:
        hook(post, st)      # ghost update of the enclosing contract: "this block was executed"
    st.trace.append("%s:block:%s" % (line, c.name.split("#")[-1]))
    return [st]


def exec_stmt(E, n, st):
    # ghost hooks keyed by source text of the statement's first line
    hook = E.find_hook(n)
    if hook is not None:
        st.hook_node = n        # the statement the hook is attached to (a hook may evaluate parts of it)
        hook(SpecCtx(E, st, E.cur_args, E.cur_h0), st)
    m = getattr(E, "st_" + type(n).__name__, None)
    if m is None:
        raise OutOfSubset("statement %s at line %s" % (type(n).__name__, n.lineno))
    return m(n, st)


def find_hook(E, n):
    if not E.cur or not E.cur.hooks:
        return None
    seg = E.stmt_text(n)
    for anchor, fn in E.cur.hooks.items():
        if anchor.startswith("contains:"):
            # simple statements only: a compound statement's text contains the text of its branches, and the hook must fire
            # when the statement itself is executed, not when the `if` around it is reached
            if isinstance(n, (ast.Expr, ast.Assign, ast.AugAssign)) and anchor[len("contains:"):] in seg:
                return fn
        elif seg.startswith(anchor):
            return fn
    return None


def stmt_text(E, n):
    src = E.src[E.cur_module]
    seg = ast.get_source_segment(src, n) or ""
    return seg.strip()


def st_Expr(E, n, st):
    if isinstance(n.value, ast.Constant):
        return [Outcome("normal", st)]      # docstring
    if isinstance(n.value, ast.Yield):
        out = []
        res = []
        for s1, v in E.ev(n.value.value, st, out):
            E.do_yield(s1, v, n)
            res.append(Outcome("normal", s1))
        return out + res
    out = []
    res = [Outcome("normal", s1) for s1, _ in E.ev(n.value, st, out)]
    return out + res


def do_yield(E, st, v, node):
    y = st.ghost.get("$yielded")
    if y is None:
        raise OutOfSubset("yield without a generator model")
    st.ghost["$yielded"] = C.list_append(E, y, v if isinstance(v, VObj) else VObj(E.to_obj(v)), st)


def st_Pass(E, n, st):
    return [Outcome("normal", st)]


def st_Assign(E, n, st):
    out, res = [], []
    for s1, v in E.ev(n.value, st, out):
        cur = [s1]
        for tgt in n.targets:
            nxt = []
            for s2 in cur:
                nxt += E.assign(tgt, v, s2, out, n)
            cur = nxt
        res += [Outcome("normal", s2) for s2 in cur]
    return out + res


def st_AugAssign(E, n, st):
    out, res = [], []
    load = _as_load(n.target)
    for s1, (a, b) in E.evs([load, n.value], st, out):
        if isinstance(a, VObj) and s1.ghost.get("$mutated") is not None:
            # `x op= y` on an opaque object (numpy array, list ...) may update that object IN PLACE, and with it every
            # alias of it: recorded in the ghost set of mutated objects
            s1.ghost["$mutated"] = z3.Store(s1.ghost["$mutated"], a.t, z3.BoolVal(True))
        v = E.binop(n.op, a, b, s1, n)
        for s2 in E.assign(n.target, v, s1, out, n):
            res.append(Outcome("normal", s2))
    return out + res


def degrade_local(E, st, name):
    """replace the concrete dict/list bound to a local by an opaque object; it counts as created in this call ($fresh) unless it
    is a module-level table"""
    v = st.env[name]
    if isinstance(v, VObj):
        return v
    gname = getattr(v, "global_name", None)
    if gname is not None:
        o_ = VObj(z3.Const("global_" + gname.replace(".", "_"), PyObj))
    else:
        o_ = VObj(z3.Const(fresh_name("local_" + name), PyObj))
        st.ghost["$fresh"] = z3.Store(st.ghost["$fresh"], o_.t, z3.BoolVal(True))
    for nm, x in list(st.env.items()):
        if x is v:
            st.env[nm] = o_
    return o_


def _as_load(t):
    import copy
    t2 = copy.deepcopy(t)
    for x in ast.walk(t2):
        if hasattr(x, "ctx"):
            x.ctx = ast.Load()
    return t2


def assign(E, tgt, v, st, out, node):
    """Assign value to target; returns list of states (may fork on setattr)."""
    if isinstance(tgt, ast.Name):
        lt = getattr(E.cur, "local_types", None) or {}
        if tgt.id in lt and isinstance(v, VCList) and not st.stack:
            v = to_vlist(v, lt[tgt.id])
        st.env[tgt.id] = v
        return [st]
    if isinstance(tgt, (ast.Tuple, ast.List)):
        if isinstance(v, (VTuple, VCList)):
            items = v.items
        elif isinstance(v, VObj) and getattr(E.cur, "opaque_iterables", False):
            items = [VObj(z3.Function("py_unpack_%d" % i_, PyObj, PyObj)(v.t)) for i_ in range(len(tgt.elts))]
        else:
            raise OutOfSubset("unpacking of %r" % (v,))
        if len(items) != len(tgt.elts):
            raise OutOfSubset("unpack arity")
        cur = [st]
        for t, x in zip(tgt.elts, items):
            nxt = []
            for s1 in cur:
                nxt += E.assign(t, x, s1, out, node)
            cur = nxt
        return cur
    if isinstance(tgt, ast.Attribute):
        res = []
        for s1, recv in E.ev(tgt.value, st, out):
            if isinstance(recv, VPy):
                # the object lives in the environment: update it in place there
                recv.attrs[tgt.attr] = v
                res.append(s1)
                continue
            if not isinstance(recv, VRef):
                raise OutOfSubset("attribute store on %r" % (recv,))
            q = E.find_method(recv.cls, "__setattr__")
            if q is not None:
                for s2, _ in E.call_function(q, [recv, VStr(tgt.attr), v], {}, s1, out, node):
                    res.append(s2)
            else:
                if tgt.attr not in E.all_fields(recv.cls):
                    raise OutOfSubset("store to unknown field %s.%s" % (recv.cls, tgt.attr))
                E.store(s1, recv.t, tgt.attr, v)
                res.append(s1)
        return res
    if isinstance(tgt, ast.Subscript):
        res = []
        for s1, (recv, key) in E.evs([tgt.value, tgt.slice], st, out):
            if isinstance(recv, VRec):
                try:
                    k = _concrete_key(key)
                except OutOfSubset:
                    k = None
                if k is None:
                    # symbolic key: either one of the modelled constant keys or an entry of the custom map
                    if isinstance(key, VStr) and isinstance(v, VStr) and "*s" in recv.mapping:
                        # a text entry (free-text section): the string-valued constant keys, else the text map
                        sconsts = [kk_ for kk_ in recv.mapping if not kk_.startswith("*") and E.field_type(recv.mapping[kk_]) == STR]
                        for kk_ in sconsts:
                            f_ = recv.mapping[kk_]
                            old_ = z3.Select(E.heap(s1, f_), recv.ref)
                            s1.heap[f_] = z3.Store(E.heap(s1, f_), recv.ref, z3.If(key.t == z3.StringVal(kk_), v.t, old_))
                            s1.written.add(f_)
                        fm = recv.mapping["*s"]
                        oldm = z3.Select(E.heap(s1, fm), recv.ref)
                        s1.heap[fm] = z3.Store(E.heap(s1, fm), recv.ref, z3.Store(oldm, key.t, v.t))
                        s1.written.add(fm)
                        res.append(s1)
                        continue
                    if not (isinstance(key, VStr) and isinstance(v, VRef) and "*" in recv.mapping):
                        raise OutOfSubset("record store with a symbolic key")
                    consts = [kk_ for kk_ in recv.mapping if not kk_.startswith("*") and E.field_type(recv.mapping[kk_]) != STR]
                    for kk_ in consts:
                        f_ = recv.mapping[kk_]
                        old_ = z3.Select(E.heap(s1, f_), recv.ref)
                        s1.heap[f_] = z3.Store(E.heap(s1, f_), recv.ref, z3.If(key.t == z3.StringVal(kk_), v.t, old_))
                        s1.written.add(f_)
                    fm = recv.mapping["*"]
                    oldm = z3.Select(E.heap(s1, fm), recv.ref)
                    is_const = z3.Or([key.t == z3.StringVal(kk_) for kk_ in consts])
                    s1.heap[fm] = z3.Store(E.heap(s1, fm), recv.ref, z3.If(is_const, oldm, z3.Store(oldm, key.t, v.t)))
                    s1.written.add(fm)
                    res.append(s1)
                    continue
                if k not in recv.mapping:
                    raise OutOfSubset("record key %r is not modelled" % (k,))
                E.store(s1, recv.ref, recv.mapping[k], v)
                res.append(s1)
            elif isinstance(recv, VDict):
                gname = getattr(recv, "global_name", None)
                if gname is not None:
                    # a store into a module-level table: process-wide state is updated
                    if s1.ghost.get("$mutated") is None:
                        raise OutOfSubset("store into the module-level table %s (no $mutated ghost declared)" % gname)
                    s1.ghost["$mutated"] = z3.Store(s1.ghost["$mutated"], z3.Const("global_" + gname.replace(".", "_"), PyObj), z3.BoolVal(True))
                    res.append(s1)
                    continue
                try:
                    k = _concrete_key(key)
                except OutOfSubset:
                    if s1.ghost.get("$fresh") is None or not isinstance(tgt.value, ast.Name):
                        raise
                    # a dict built in this call receives a symbolic key: from here on it is an opaque object created here
                    o_ = degrade_local(E, s1, tgt.value.id)
                    s1.ghost["$mutated"] = z3.Store(s1.ghost["$mutated"], o_.t, z3.BoolVal(True))
                    res.append(s1)
                    continue
                recv.d[k] = v
                res.append(s1)
            elif isinstance(recv, VRef):
                for s2, _ in E.call_method(recv, "__setitem__", [key, v], {}, s1, out, node):
                    res.append(s2)
            elif isinstance(recv, VObj):
                # opaque in-place update of a library object (numpy arr[mask] = v):
                # recorded in the ghost set of mutated objects, keyed by the mask used
                g = s1.ghost.get("$mutated")
                if g is None:
                    raise OutOfSubset("subscript store on an opaque object (no $mutated ghost declared)")
                s1.ghost["$mutated"] = z3.Store(g, recv.t, z3.BoolVal(True))
                def _obj(x):
                    try:
                        return E.to_obj(x)
                    except OutOfSubset:
                        return z3.Const(fresh_name("stored"), PyObj)      # a structured value: recorded as some object
                s1.ghost["$mutated_key"] = z3.Store(s1.ghost["$mutated_key"], recv.t, _obj(key))
                s1.ghost["$mutated_val"] = z3.Store(s1.ghost["$mutated_val"], recv.t, _obj(v))
                E.may_raise_any(s1, out, node, "opaque subscript store")
                res.append(s1)
            elif isinstance(recv, VList) and isinstance(tgt.value, ast.Name) and isinstance(key, VInt) \
                    and tgt.value.id in (getattr(E.cur, "dict_like", ()) or ()):
                # a dict with keys 0..n-1 modelled as a list: assigning key n adds it
                E.goal(s1, "safety:int-keyed-dict-stays-dense", z3.And(key.t >= 0, key.t <= recv.n), "safety", node)
                cols = [z3.Store(c, key.t, t) for c, t in zip(recv.cols, flatten(v))]
                s1.env[tgt.value.id] = VList(z3.If(key.t == recv.n, recv.n + 1, recv.n), cols, recv.ety)
                res.append(s1)
            elif isinstance(recv, VList) and isinstance(tgt.value, ast.Name) and isinstance(key, VInt):
                # value-list element store (index assumed in range: safety goal)
                E.goal(s1, "safety:list-store-index", z3.And(key.t >= 0, key.t < recv.n), "safety", node)
                cols = [z3.Store(c, key.t, t) for c, t in zip(recv.cols, flatten(v))]
                s1.env[tgt.value.id] = VList(recv.n, cols, recv.ety)
                res.append(s1)
            else:
                raise OutOfSubset("subscript store on %r" % (recv,))
        return res
    raise OutOfSubset("assignment target %s" % type(tgt).__name__)


def to_vlist(v, ty):
    ety = ty[1]
    cols = [z3.Const(fresh_name("lit.c%d" % k), z3.ArraySort(I, sort_of(l))) for k, l in enumerate(leaves(ety))]
    for idx, x in enumerate(v.items):
        cols = [z3.Store(c, idx, t) for c, t in zip(cols, flatten(x))]
    return VList(z3.IntVal(len(v.items)), cols, ety)


def _concrete_key(key):
    if isinstance(key, VStr):
        t = z3.simplify(key.t)
        if z3.is_string_value(t):
            return pystr(t)
    if isinstance(key, VInt):
        t = z3.simplify(key.t)
        if z3.is_int_value(t):
            return t.as_long()
    if isinstance(key, VConst):
        return key.obj
    raise OutOfSubset("symbolic dict key in store")


def branch(E, st, cond, line, tag):
    """fork on a BoolRef: returns [(state, taken_bool)] without infeasible sides"""
    res = []
    if not is_false(cond) and E.feasible(st, cond):
        s1 = st.fork(); s1.assume(cond); s1.trace.append("%s:%s1" % (line, tag))
        res.append((s1, True))
    if not is_true(cond) and E.feasible(st, z3.Not(cond)):
        s2 = st.fork(); s2.assume(z3.Not(cond)); s2.trace.append("%s:%s0" % (line, tag))
        res.append((s2, False))
    return res


def feasible(E, st, cond):
    """optional path pruning (contract attribute prune=True): a branch is dropped
    only when z3 proves it infeasible; unknown/timeout keeps it"""
    if not getattr(E.cur, "prune", False):
        return True
    sol = z3.Solver()
    sol.set("timeout", 300)
    for a in E.axioms_for(E.cur):
        sol.add(a)
    for a in st.pc:
        sol.add(a)
    sol.add(cond)
    return str(sol.check()) != "unsat"


def st_If(E, n, st):
    out, res = [], []
    if "KINVERARITY1_LASIO_VERIF" in (ast.get_source_segment(E.src[E.cur_module], n.test) or ""):
        # env-guarded verification hook (add-only instrumentation): dropped, like logger calls
        E.notes.append("dropped env-guarded hook block at %s line %d" % (E.cur_module, n.lineno))
        return [Outcome("normal", st)]
    for s1, c in E.ev(n.test, st, out):
        cond = E.truthy(c, s1)
        brs = E.branch(s1, cond, n.lineno, "if")
        outs = [(taken, E.exec_block(n.body if taken else n.orelse, s2)) for s2, taken in brs]
        merged = None
        if len(outs) == 2 and getattr(E.cur, "merge", True):
            merged = merge_diamond(E, s1, cond, outs, n)
        if merged is not None:
            res.append(Outcome("normal", merged))
        else:
            for _, os_ in outs:
                res += os_
    return out + res


def _merge_val(cond, a, b):
    """value that is `a` when cond else `b`; None when not mergeable"""
    if a is b:
        return a
    if type(a) is not type(b):
        return None
    if isinstance(a, (VInt, VBool, VStr, VObj, VFile)):
        return a if a.t.eq(b.t) else type(a)(z3.If(cond, a.t, b.t))
    if isinstance(a, VRef):
        if a.cls != b.cls:
            return None
        return a if a.t.eq(b.t) else VRef(z3.If(cond, a.t, b.t), a.cls)
    if isinstance(a, VNone):
        return a
    if isinstance(a, VTuple) and len(a.items) == len(b.items):
        items = [_merge_val(cond, x, y) for x, y in zip(a.items, b.items)]
        return None if any(i is None for i in items) else VTuple(items)
    if isinstance(a, VList) and a.ety == b.ety and len(a.cols) == len(b.cols):
        n = a.n if a.n.eq(b.n) else z3.If(cond, a.n, b.n)
        cols = [x if x.eq(y) else z3.If(cond, x, y) for x, y in zip(a.cols, b.cols)]
        return VList(n, cols, a.ety)
    if isinstance(a, VConst):
        return a if a.obj is b.obj or a.obj == b.obj else None
    if isinstance(a, VExt):
        return a if a.name == b.name else None
    if isinstance(a, VCList) and len(a.items) == len(b.items):
        items = [_merge_val(cond, x, y) for x, y in zip(a.items, b.items)]
        return None if any(i is None for i in items) else VCList(items)
    if isinstance(a, VDict) and list(a.d) == list(b.d):
        d = {k: _merge_val(cond, a.d[k], b.d[k]) for k in a.d}
        return None if any(v is None for v in d.values()) else VDict(d)
    if isinstance(a, VFunc):
        return a if a.node is b.node else None
    if isinstance(a, VBound):
        return a if (a.recv is b.recv and a.name == b.name) else None
    return None


def merge_diamond(E, s1, cond, outs, n):
    """join the two branches of an if-statement when both simply fall through"""
    (t1, o1), (t2, o2) = outs
    if len(o1) != 1 or len(o2) != 1 or o1[0].kind != "normal" or o2[0].kind != "normal":
        return None
    a, b = (o1[0].st, o2[0].st) if t1 else (o2[0].st, o1[0].st)     # a = then-state
    if len(a.stack) != len(b.stack) or set(a.env) != set(b.env) or set(a.ghost) != set(b.ghost):
        return None
    L = len(s1.pc)
    m = s1.fork()
    env = {}
    for k in a.env:
        v = _merge_val(cond, a.env[k], b.env[k])
        if v is None:
            return None
        env[k] = v
    ghost = {}
    for k in a.ghost:
        x, y = a.ghost[k], b.ghost[k]
        if x is y or (z3.is_expr(x) and z3.is_expr(y) and x.eq(y)):
            ghost[k] = x
        elif isinstance(x, V) and isinstance(y, V):
            v = _merge_val(cond, x, y)
            if v is None:
                return None
            ghost[k] = v
        elif isinstance(x, (list, dict, str)) and x == y:
            ghost[k] = x
        else:
            return None
    for sa, sb in zip(a.stack, b.stack):
        for k in sa:
            if k not in sb or _merge_val(cond, sa[k], sb[k]) is None:
                return None
    m.env = env
    m.ghost = ghost
    m.stack = [{k: _merge_val(cond, sa[k], sb[k]) for k in sa} for sa, sb in zip(a.stack, b.stack)]
    for f in set(a.heap) | set(b.heap):
        x, y = a.heap.get(f), b.heap.get(f)
        if x is None or y is None:
            x = x if x is not None else E.heap(a, f)
            y = y if y is not None else E.heap(b, f)
        m.heap[f] = x if x.eq(y) else z3.If(cond, x, y)
    m.pc = list(s1.pc) + [z3.Implies(cond, e) for e in a.pc[L + 1:]] + [z3.Implies(z3.Not(cond), e) for e in b.pc[L + 1:]]
    m.written = set(a.written) | set(b.written)
    m.trace = list(s1.trace) + ["%d:merged" % n.lineno]
    return m


def st_Return(E, n, st):
    if n.value is None:
        return [Outcome("return", st, val=VNone())]
    out = []
    res = [Outcome("return", s1, val=v) for s1, v in E.ev(n.value, st, out)]
    return out + res


def st_Break(E, n, st):
    return [Outcome("break", st, node=n)]


def st_Continue(E, n, st):
    return [Outcome("continue", st)]


def st_Raise(E, n, st):
    if n.exc is None:
        exc = st.ghost.get("$handling", "Any")
        return [Outcome("raise", st, exc=exc, node=n)]
    out = []
    res = []
    node = n.exc
    # raise X(...) / raise X / raise X(...).with_traceback(...)
    name = _exc_name(node)
    if name is None:
        raise OutOfSubset("raise of non-class expression")
    # arguments are evaluated (may raise themselves) unless they are pure formatting
    return [Outcome("raise", st, exc=name, node=n)]


def _exc_name(node):
    if isinstance(node, ast.Call):
        if isinstance(node.func, ast.Attribute) and node.func.attr == "with_traceback":
            return _exc_name(node.func.value)
        return _exc_name(node.func)
    if isinstance(node, ast.Name):
        return node.id
    if isinstance(node, ast.Attribute):
        return node.attr
    return None


def st_Assert(E, n, st):
    out, res = [], []
    for s1, c in E.ev(n.test, st, out):
        for s2, ok in E.branch(s1, E.truthy(c, s1), n.lineno, "as"):
            if ok:
                res.append(Outcome("normal", s2))
            else:
                res.append(Outcome("raise", s2, exc="AssertionError", node=n))
    return out + res


def st_Delete(E, n, st):
    out, res = [], []
    cur = [st]
    for tgt in n.targets:
        nxt = []
        for s0 in cur:
            if not isinstance(tgt, ast.Subscript):
                raise OutOfSubset("del of non-subscript")
            for s1, (recv, key) in E.evs([tgt.value, tgt.slice], s0, out):
                if isinstance(recv, VRef):
                    nxt += [s2 for s2, _ in E.call_method(recv, "__delitem__", [key], {}, s1, out, n)]
                else:
                    raise OutOfSubset("del on %r" % (recv,))
        cur = nxt
    return out + [Outcome("normal", s1) for s1 in cur]


def st_FunctionDef(E, n, st):
    # closure: snapshot of the defining environment (DESIGN 2.2); defaults are
    # evaluated now, as Python does
    out = []
    pre = {}
    a = n.args
    names = [x.arg for x in a.args]
    for idx, d in enumerate(a.defaults):
        nm = names[len(names) - len(a.defaults) + idx]
        if not isinstance(d, ast.Constant):
            r = E.ev(d, st, out)
            if len(r) != 1:
                raise OutOfSubset("default forks")
            pre[nm] = r[0][1]
    n._pyvc_defaults = pre
    f = VFunc(n, None, n.name)
    st.env[n.name] = f
    f.closure = dict(st.env)
    return out + [Outcome("normal", st)]


def st_Import(E, n, st):
    return [Outcome("normal", st)]


st_ImportFrom = st_Import


def st_Try(E, n, st):
    res = []
    body = E.exec_block(n.body, st)
    after = []   # outcomes after handlers/else, before finally
    for o in body:
        if o.kind == "raise":
            handled = False
            cur_states = [o.st]
            for h in n.handlers:
                hname = _handler_names(h)
                nxt = []
                for s0 in cur_states:
                    if hname is None:
                        verdicts = [True]
                    else:
                        ms = [exc_is(o.exc, x) for x in hname]
                        verdicts = [True] if any(m is True for m in ms) else ([None] if any(m is None for m in ms) else [False])
                    v = verdicts[0]
                    if v is True:
                        s0.ghost["$handling"] = o.exc
                        if h.name:
                            s0.env[h.name] = VObj(z3.Const(fresh_name("exc"), PyObj))
                        after += E.exec_block(h.body, s0)
                    elif v is None:
                        s_yes = s0.fork(); s_yes.trace.append("%d:h1" % h.lineno)
                        s_yes.ghost["$handling"] = o.exc
                        if h.name:
                            s_yes.env[h.name] = VObj(z3.Const(fresh_name("exc"), PyObj))
                        after += E.exec_block(h.body, s_yes)
                        s0.trace.append("%d:h0" % h.lineno)
                        nxt.append(s0)
                    else:
                        nxt.append(s0)
                cur_states = nxt
                if not cur_states:
                    break
            for s0 in cur_states:
                after.append(Outcome("raise", s0, exc=o.exc, node=o.node))
        elif o.kind == "normal":
            after += E.exec_block(n.orelse, o.st) if n.orelse else [o]
        else:
            after.append(o)
    if not n.finalbody:
        return after
    for o in after:
        for f in E.exec_block(n.finalbody, o.st):
            if f.kind == "normal":
                res.append(Outcome(o.kind, f.st, val=o.val, exc=o.exc, node=o.node))
            else:
                res.append(f)
    return res


def _handler_names(h):
    if h.type is None:
        return None
    if isinstance(h.type, ast.Tuple):
        return [_exc_name(x) for x in h.type.elts]
    return [_exc_name(h.type)]


def st_With(E, n, st):
    # with open(...) as f: body  ==  f = open(...); try: body finally: f.close()
    if len(n.items) != 1:
        raise OutOfSubset("with several items")
    it = n.items[0]
    out, res = [], []
    for s1, v in E.ev(it.context_expr, st, out):
        if it.optional_vars is not None:
            E.assign(it.optional_vars, v, s1, out, n)
        for o in E.exec_block(n.body, s1):
            if isinstance(v, VFile):
                o.st.heap["$open"] = z3.Store(E.heap(o.st, "$open"), v.t, z3.BoolVal(False))
            res.append(o)
    return out + res


# ---------------------------------------------------------------- loops
def loop_ordinal(E, n):
    return E.cur_loops.index(n)


def assigned_names(body):
    names = set()
    for stmt in body:
        for x in ast.walk(stmt):
            if isinstance(x, ast.Name) and isinstance(x.ctx, ast.Store):
                names.add(x.id)
            elif isinstance(x, (ast.FunctionDef, ast.Lambda)):
                pass
    return names


def mutated_receivers(body):
    """names x with x.append(...) / x[...] = ... in body (value lists, dicts)"""
    names = set()
    for stmt in body:
        for x in ast.walk(stmt):
            if isinstance(x, ast.Call) and isinstance(x.func, ast.Attribute) and x.func.attr in ("append",):
                b = x.func.value
                while isinstance(b, ast.Subscript):
                    b = b.value
                if isinstance(b, ast.Name):
                    names.add(b.id)
            if isinstance(x, ast.Subscript) and isinstance(x.ctx, ast.Store):
                b = x.value
                while isinstance(b, ast.Subscript):
                    b = b.value
                if isinstance(b, ast.Name):
                    names.add(b.id)
    return names


def havoc_loop(E, st, n, inv_key):
    """Havoc everything a loop body may change: assigned locals, mutated value
    lists, heap fields in the contract's frame, ghost variables."""
    body = n.body
    for nm in sorted(assigned_names(body) | mutated_receivers(body)):
        if nm in st.env:
            v = st.env[nm]
            try:
                ty = type_of(v)
            except TypeError:
                if isinstance(v, (VDict, VCList, VFunc, VConst, VExt, VBound)):
                    # concrete structures mutated in a symbolic loop are not supported
                    if nm in mutated_receivers(body) or nm in assigned_names(body):
                        if isinstance(v, (VFunc, VExt, VBound)):
                            continue
                        raise OutOfSubset("loop modifies concrete structure %s" % nm)
                    continue
                raise
            if ty == NONE:
                # variable initialised to None and assigned in the loop: the
                # spec must declare its type
                tys = getattr(E.cur, "loop_types", {}) or {}
                if nm in tys:
                    ty = tys[nm]
                else:
                    raise OutOfSubset("loop variable %s starts as None; declare loop_types" % nm)
            nv, asm = fresh(ty, "%s@L%s" % (nm, inv_key))
            st.env[nm] = nv
            for a in asm:
                st.assume(a)
        else:
            tys = getattr(E.cur, "loop_types", {}) or {}
            if nm in tys:
                nv, asm = fresh(tys[nm], "%s@L%s" % (nm, inv_key))
                st.env[nm] = nv
                for a in asm:
                    st.assume(a)
    for f in sorted(E.loop_fields(n)):
        st.heap[f] = z3.Const(fresh_name("h.%s@L%s" % (f, inv_key)), E.heap(st, f).sort())
    for gk in sorted(getattr(E.cur, "loop_ghost", {}).get(inv_key, [])):
        v = st.ghost[gk]
        if isinstance(v, VList):
            nv, asm = fresh(LIST(v.ety), "g.%s@L%s" % (gk, inv_key))
            st.ghost[gk] = nv
            for a in asm:
                st.assume(a)
        else:
            st.ghost[gk] = z3.Const(fresh_name("g.%s@L%s" % (gk, inv_key)), v.sort())


def loop_fields(E, n):
    """heap fields a loop body may write: all fields of the current frame that
    are syntactically reachable (attribute stores, contracted calls)."""
    fields = set()
    if E.cur is not None:
        fields |= set(E.cur.modifies.keys())
        fields |= set(getattr(E.cur, "loop_fields", []) or [])
    # file cursor moves when the body (or the iteration itself) reads
    return fields


def check_inv(E, st, n, k, args_ctx, when, idx=None, extra=None):
    inv = E.cur.loops.get(k)
    if inv is None:
        raise OutOfSubset("loop %d (line %d) has no invariant" % (k, n.lineno))
    c = SpecCtx(E, st, E.cur_args, E.cur_h0, i=idx, extra=extra)
    for nm, f in inv(c):
        E.goal(st, "loop%d:%s:%s" % (k, when, nm), f, "invariant", n)


def break_cut(E, o, n, k, idx, extra):
    """Optional cut at a `break` that sits at the very end of the loop body (contract
    attribute break_cut = {loop: [text of the guarding if-line]}): the invariant for
    the next index is PROVED there and then made available as a lemma for the code
    after the loop (sound: only proved facts are added)."""
    anchors = (getattr(E.cur, "break_cut", None) or {}).get(k)
    if not anchors or o.node is None:
        return
    lines = E.src[E.cur_module].splitlines()
    guard = lines[o.node.lineno - 2] if o.node.lineno >= 2 else ""
    if not any(a in guard for a in anchors):
        return
    inv = E.cur.loops[k]
    c = SpecCtx(E, o.st, E.cur_args, E.cur_h0, i=idx, extra=extra)
    skip = set(getattr(E.cur, "break_cut_skip", ()) or ())
    for nm, f in inv(c):
        if nm in skip:
            continue
        E.goal(o.st, "loop%d:at-final-break:%s" % (k, nm), f, "invariant", n)
        o.st.assume(f)


def assume_inv(E, st, n, k, idx=None, extra=None):
    inv = E.cur.loops[k]
    c = SpecCtx(E, st, E.cur_args, E.cur_h0, i=idx, extra=extra)
    for nm, f in inv(c):
        st.assume(f)
    # instantiation hints: (assumed quantified axiom, [terms]) - the engine itself
    # substitutes, so a hint can only add an instance of an axiom already assumed
    hints = (getattr(E.cur, "loop_hints", None) or {}).get(k)
    if hints:
        for ax, terms in hints(c):
            assert z3.is_quantifier(ax) and ax.is_forall() and ax.num_vars() == len(terms)
            st.assume(z3.substitute_vars(ax.body(), *reversed(terms)))


def iter_spec(E, node_iter, st, out):
    """Classify the iterated expression.  Returns list of (state, kind, data)."""
    res = []
    for s1, v in E.ev(node_iter, st, out):
        res.append((s1, v))
    return res


def st_For(E, n, st):
    out, res = [], []
    for s1, itv in iter_spec(E, n.iter, st, out):
        res += E.for_over(n, itv, s1, out)
    return out + res


def _iter_parts(itv):
    """decode VTuple(iter marker) produced by enumerate/range/zip builtins"""
    if isinstance(itv, VTuple) and itv.items and isinstance(itv.items[0], VConst) \
            and isinstance(itv.items[0].obj, tuple) and itv.items[0].obj[0] == "iter":
        return itv.items[0].obj[1], itv.items[1].items, itv.items[2].d
    return None


def for_over(E, n, itv, st, out):
    if st.ghost.get("$fresh") is not None:
        # dicts/lists built in this call and updated inside the loop become opaque objects (created here) before the loop is cut
        for nm_ in sorted(mutated_receivers(n.body)):
            if isinstance(st.env.get(nm_), (VDict, VCList)):
                degrade_local(E, st, nm_)
    ip = _iter_parts(itv)
    start = None
    seq = itv
    mode = "plain"
    if ip:
        kind, a, kw = ip
        if kind == "enumerate":
            mode = "enum"
            seq = a[0]
            start = a[1] if len(a) > 1 else kw.get("start", VInt(0))
        elif kind == "range":
            mode = "range"
            seq = None
            if len(a) == 1:
                lo, hi = VInt(0), a[0]
            elif len(a) == 2:
                lo, hi = a
            else:
                raise OutOfSubset("range with step")
            _as_int = lambda v: VInt(z3.Function("py_int_of", PyObj, I)(v.t)) if isinstance(v, VObj) else v
            lo, hi = _as_int(lo), _as_int(hi)
        elif kind == "zip":
            raise OutOfSubset("zip loop")
    # ---- concrete sequences: unroll
    if seq is not None and isinstance(seq, (VCList, VTuple)) and not _iter_parts(seq):
        return E.unroll(n, seq.items, mode, start, st)
    if mode == "range":
        lo_t, hi_t = z3.simplify(lo.t), z3.simplify(hi.t)
        if z3.is_int_value(lo_t) and z3.is_int_value(hi_t):
            return E.unroll(n, [VInt(i) for i in range(lo_t.as_long(), hi_t.as_long())], "plain", None, st)
    k = E.loop_ordinal(n)
    anchor = E.cur.loop_anchor.get(k)
    if anchor is not None and anchor not in ast.get_source_segment(E.src[E.cur_module], n.iter):
        raise OutOfSubset("loop %d anchor %r does not match %r" % (k, anchor, ast.get_source_segment(E.src[E.cur_module], n.iter)))
    # ---- symbolic iteration
    if mode == "range":
        n_t = z3.If(hi.t - lo.t > 0, hi.t - lo.t, 0)
        elem_at = lambda i: VInt(lo.t + i)
        is_file = False
    elif isinstance(seq, VFile):
        is_file = True
    else:
        is_file = False
        n_t, elem_at = E.seq_view(seq, st)
    res = []
    if is_file:
        return E.for_file(n, seq, mode, start, st, out, k)
    # 1. invariant on entry (i = 0)
    E.check_inv(st, n, k, None, "entry", idx=z3.IntVal(0))
    # 2. arbitrary iteration
    s_it = st.fork()
    s_it.trace.append("L%d:iter" % k)
    E.havoc_loop(s_it, n, k)
    i = z3.Int(fresh_name("i@L%d" % k))
    n_it, elem_it = (n_t, elem_at) if mode == "range" else E.seq_view(seq, s_it)
    s_it.assume(z3.And(0 <= i, i < n_it))
    E.assume_inv(s_it, n, k, idx=i)
    x = elem_it(i)
    tgt_val = x if mode != "enum" else VTuple([VInt(start.t + i), x])
    for s_b in E.assign(n.target, tgt_val, s_it, out, n):
        for o in E.exec_block(n.body, s_b):
            if o.kind in ("normal", "continue"):
                # sequence must not have been resized by a path that keeps looping
                if mode != "range":
                    n_after, _ = E.seq_view(seq, o.st)
                    E.goal(o.st, "loop%d:iterated-sequence-unchanged" % k, n_after == n_it, "safety", n)
                E.check_inv(o.st, n, k, None, "preserved", idx=i + 1)
            elif o.kind == "break":
                o.st.trace.append("L%d:break" % k)
                E.break_cut(o, n, k, i + 1, None)
                res += [Outcome("normal", o.st)]
            else:
                res.append(o)
    # 3. exit after exhausting the sequence
    s_ex = st.fork()
    s_ex.trace.append("L%d:exit" % k)
    E.havoc_loop(s_ex, n, k)
    n_ex, _ = (n_t, None) if mode == "range" else E.seq_view(seq, s_ex)
    E.assume_inv(s_ex, n, k, idx=n_ex)
    # loop variable after the loop: last element (if any) - havocked above
    if n.orelse:
        res += E.exec_block(n.orelse, s_ex)
    else:
        res.append(Outcome("normal", s_ex))
    return res


def for_file(E, n, f, mode, start, st, out, k):
    """for line in file_obj / for i, line in enumerate(file_obj[, start=])"""
    res = []
    lines, N = st.ghost["lines"], st.ghost["N"]
    cur0 = z3.Select(E.heap(st, "$cursor"), f.t)
    extra0 = {"cur0": cur0}
    E.check_inv(st, n, k, None, "entry", idx=z3.IntVal(0), extra=extra0)
    s_it = st.fork(); s_it.trace.append("L%d:iter" % k)
    E.havoc_loop(s_it, n, k)
    i = z3.Int(fresh_name("i@L%d" % k))
    # built-in fact (T-io/T-enc): after i iterations the cursor is cur0 + i
    s_it.heap["$cursor"] = z3.Store(E.heap(s_it, "$cursor"), f.t, cur0 + i)
    s_it.assume(z3.And(0 <= i, cur0 + i < N))
    E.assume_inv(s_it, n, k, idx=i, extra=extra0)
    ln = z3.Select(lines, cur0 + i)
    s_it.assume(z3.Length(ln) > 0)
    s_it.heap["$cursor"] = z3.Store(E.heap(s_it, "$cursor"), f.t, cur0 + i + 1)
    E.may_raise_any(s_it, out, n, "file iteration")
    x = VStr(ln)
    tgt_val = x if mode != "enum" else VTuple([VInt(start.t + i), x])
    for s_b in E.assign(n.target, tgt_val, s_it, out, n):
        for o in E.exec_block(n.body, s_b):
            if o.kind in ("normal", "continue"):
                cur_now = z3.Select(E.heap(o.st, "$cursor"), f.t)
                E.goal(o.st, "loop%d:cursor-moved-only-by-iteration" % k, cur_now == cur0 + i + 1, "safety", n)
                E.check_inv(o.st, n, k, None, "preserved", idx=i + 1, extra=extra0)
            elif o.kind == "break":
                o.st.trace.append("L%d:break" % k)
                E.break_cut(o, n, k, i + 1, extra0)
                res.append(Outcome("normal", o.st))
            else:
                res.append(o)
    s_ex = st.fork(); s_ex.trace.append("L%d:exit" % k)
    E.havoc_loop(s_ex, n, k)
    cnt = z3.Int(fresh_name("cnt@L%d" % k))
    s_ex.assume(z3.And(cnt >= 0, cur0 + cnt == z3.If(cur0 > N, cur0, N)))
    s_ex.heap["$cursor"] = z3.Store(E.heap(s_ex, "$cursor"), f.t, cur0 + cnt)
    E.assume_inv(s_ex, n, k, idx=cnt, extra=extra0)
    if n.orelse:
        res += E.exec_block(n.orelse, s_ex)
    else:
        res.append(Outcome("normal", s_ex))
    return res


def unroll(E, n, items, mode, start, st):
    cur = [st]
    res = []
    broke = []
    for idx, x in enumerate(items):
        nxt = []
        for s1 in cur:
            val = x if mode != "enum" else VTuple([VInt(z3.simplify(start.t + idx)), x])
            sub_out = []
            for s2 in E.assign(n.target, val, s1, sub_out, n):
                for o in E.exec_block(n.body, s2):
                    if o.kind in ("normal", "continue"):
                        nxt.append(o.st)
                    elif o.kind == "break":
                        broke.append(o.st)
                    else:
                        res.append(o)
            res += sub_out
        cur = nxt
        if len(cur) > MAX_PATHS:
            raise OutOfSubset("path explosion in unrolled loop")
    for s1 in cur:
        if n.orelse:
            res += E.exec_block(n.orelse, s1)
        else:
            res.append(Outcome("normal", s1))
    res += [Outcome("normal", s1) for s1 in broke]
    return res


def st_While(E, n, st):
    k = E.loop_ordinal(n)
    res = []
    E.check_inv(st, n, k, None, "entry")
    # arbitrary iteration
    s_it = st.fork(); s_it.trace.append("L%d:iter" % k)
    E.havoc_loop(s_it, n, k)
    E.assume_inv(s_it, n, k)
    out = []
    for s1, c in E.ev(n.test, s_it, out):
        for s2, taken in E.branch(s1, E.truthy(c, s1), n.lineno, "wh"):
            if taken:
                for o in E.exec_block(n.body, s2):
                    if o.kind in ("normal", "continue"):
                        E.check_inv(o.st, n, k, None, "preserved")
                    elif o.kind == "break":
                        res.append(Outcome("normal", o.st))
                    else:
                        res.append(o)
            else:
                s2.trace.append("L%d:exit" % k)
                if n.orelse:
                    res += E.exec_block(n.orelse, s2)
                else:
                    res.append(Outcome("normal", s2))
    return out + res


# ---------------------------------------------------------------- calls
def call_method(E, recv, name, args, kw, st, out, node):
    q = E.find_method(recv.cls, name)
    if q is None:
        info = E.class_info(recv.cls)
        base = info.get("builtin_base")
        if base == "list":
            return C.super_call(E, recv.cls, recv, name, args, st, out, node)
        raise OutOfSubset("no method %s on %s" % (name, recv.cls))
    return E.call_function(q, [recv] + list(args), kw, st, out, node)


def select_contract(E, q, argmap):
    cs = E.reg.get(q)
    if not cs:
        return None
    want = (getattr(E.cur, "use", None) or {}).get(q)
    if want is not None:
        cs = [c for c in cs if c.case == want]
    else:
        cs = [c for c in cs if not getattr(c, "only_on_request", False)]
    best = None
    for c in cs:
        ok = True
        for nm, ty in c.params.items():
            if nm not in argmap:
                ok = False
                break
            if not _fits(E, argmap[nm], ty):
                ok = False
                break
        if ok:
            best = c
            break
    if best is None:
        raise OutOfSubset("no specialisation of %s fits argument types %s" % (
            q, {k: type(v).__name__ for k, v in argmap.items()}))
    return best


def _fits(E, v, ty):
    if isinstance(ty, V):
        return type(v) is type(ty) and getattr(v, "name", None) == getattr(ty, "name", None)
    if ty == OBJ:
        return isinstance(v, (VObj, VStr, VInt, VNone, VConst, VBool, VRef, VExt, VCList, VTuple))
    if ty == INT:
        return isinstance(v, VInt)
    if ty == STR:
        return isinstance(v, VStr)
    if ty == BOOL:
        return isinstance(v, VBool)
    if ty == NONE:
        return isinstance(v, VNone)
    if ty == FILE:
        return isinstance(v, VFile)
    if isinstance(ty, tuple) and ty[0] == "ref":
        return isinstance(v, VRef) and (C._subclass(E, v.cls, ty[1]))
    if isinstance(ty, tuple) and ty[0] == "list":
        return isinstance(v, VList)
    if isinstance(ty, tuple) and ty[0] == "tuple":
        return isinstance(v, VTuple) and len(v.items) == len(ty[1]) and all(_fits(E, x, t) for x, t in zip(v.items, ty[1]))
    if isinstance(ty, tuple) and ty[0] == "const":
        if isinstance(v, VConst):
            return v.obj == ty[1]
        lv = lift_const(ty[1])
        try:
            return is_true(E.eq(v, lv, None))
        except OutOfSubset:
            return False
    if ty == "dict":
        return isinstance(v, VDict)
    if ty == "func":
        return isinstance(v, (VFunc, VExt, VBound))
    if ty == "any":
        return True
    return False


def adapt(E, v, ty):
    """view an argument at the contract's declared type"""
    if ty == OBJ and not isinstance(v, VObj):
        return VObj(E.to_obj(v))
    if isinstance(ty, tuple) and ty[0] == "ref" and isinstance(v, VRef):
        return v
    return v


def call_function(E, q, args, kw, st, out, node):
    fnode = E.funcs[q]
    module = q.split(".")[0]
    if fnode.args.vararg is not None and E.reg.get(q):
        # pass-through wrappers (def f(*args, **kwargs)): bind by the contract's own parameter order
        names = list(E.reg.get(q)[0].params)
        argmap = dict(zip(names, args)); argmap.update(kw)
    else:
        argmap = C.bind_args(E, fnode, args, kw, st, out)
    c = E.select_contract(q, argmap)
    if c is None:
        raise OutOfSubset("call of %s which has no contract" % q)
    if c.inline:
        E.inlined.add(q)
        return C.inline_call(E, fnode, {}, args, kw, st, out, node, q, module=module)
    return E.apply_contract(c, argmap, st, out, node)


def apply_contract(E, c, argmap, st, out, node):
    E.used_contracts.add(c.key)
    if c.assumed:
        E.notes.append("assumed contract: %s%s" % (c.key, (" - " + c.note) if c.note else ""))
    args = {nm: adapt(E, argmap[nm], ty) for nm, ty in c.params.items() if nm in argmap}
    for nm, v in argmap.items():
        args.setdefault(nm, v)
    h_pre = dict(st.heap)
    pre = SpecCtx(E, st, args, h_pre)
    pre.callee = True
    line = getattr(node, "lineno", "?")
    if c.requires:
        for nm, f in c.requires(pre):
            E.goal(st, "call@%s:%s:pre:%s" % (line, c.key, nm), f, "call-pre", node)
    res = []
    # exceptional exits, decided on the pre-state
    conds = []
    for exc, cond in c.raises:
        ct = cond(pre)
        conds.append(ct)
        if is_false(ct):
            continue
        s_e = st.fork(); s_e.assume(ct); s_e.trace.append("%s:raise:%s" % (line, exc))
        havoc_frame(E, c, s_e, pre, h_pre)
        E.raise_(s_e, exc, out, node)
    for exc in c.may_raise:
        s_e = st.fork(); s_e.trace.append("%s:mayraise:%s" % (line, exc))
        havoc_frame(E, c, s_e, pre, h_pre)
        E.raise_(s_e, exc, out, node)
    if getattr(E.cur, "anyraise", False) and not getattr(c, "noraise", False):
        s_e = st.fork(); s_e.trace.append("%s:any" % line)
        havoc_frame(E, c, s_e, pre, h_pre)
        E.raise_(s_e, "Any", out, node)
    for ct in conds:
        st.assume(z3.Not(ct))
    havoc_frame(E, c, st, pre, h_pre)
    # result
    rty = c.returns
    if callable(rty):
        rty = rty(pre)
    if rty is None:
        resv = VNone()
    elif isinstance(rty, V):
        resv = rty
    else:
        resv, asm = fresh(rty, "res_" + c.name.split(".")[-1])
        for a in asm:
            st.assume(a)
    if isinstance(resv, VRef) and getattr(c, "fresh_result", False):
        alloc = E.heap(st, "$alloc")
        st.assume(z3.Not(z3.Select(h_pre.get("$alloc", alloc), resv.t)))
        st.heap["$alloc"] = z3.Store(alloc, resv.t, z3.BoolVal(True))
    post = SpecCtx(E, st, args, h_pre, res=resv)
    post.callee = True
    if c.ensures:
        for nm, f in c.ensures(post):
            st.assume(f)
    if getattr(c, "post_hook", None):
        c.post_hook(post, st)
    res.append((st, resv))
    return res


def havoc_frame(E, c, st, pre, h_pre):
    for f, region in c.modifies.items():
        old = E.heap(st, f)
        new = z3.Const(fresh_name("h.%s" % f), old.sort())
        if region is not None:
            r = z3.Int(fresh_name("r"))
            st.assume(z3.ForAll([r], z3.Implies(z3.Not(region(pre, r)), z3.Select(new, r) == z3.Select(old, r))))
        st.heap[f] = new
        st.written.add(f)


def set_seq(E, st, r, n, items):
    # keep heap terms small and pattern-friendly: name the new element array
    if not z3.is_const(items):
        named = z3.Const(fresh_name("items"), items.sort())
        st.assume(named == items)
        items = named
    st.heap["$len"] = z3.Store(E.heap(st, "$len"), r, n)
    st.heap["$items"] = z3.Store(E.heap(st, "$items"), r, items)
    st.written.add("$len"); st.written.add("$items")


# ---------------------------------------------------------------- verification
def collect_loops(body):
    loops = []

    class Vst(ast.NodeVisitor):
        def visit_For(s, n):
            loops.append(n); s.generic_visit(n)

        def visit_While(s, n):
            loops.append(n); s.generic_visit(n)

        def visit_FunctionDef(s, n):
            if getattr(n, "_pyvc_top", False):
                s.generic_visit(n)
            # nested defs have their own ordinals when verified as units

        def visit_Lambda(s, n):
            pass

    v = Vst()
    for b in body:
        v.visit(b)
    return loops


def verify(E, c, fnode=None, body=None, module=None):
    """Generate all goals for contract c on the real function (or block)."""
    reset_names()
    q = c.name.split("#")[0]
    if fnode is None:
        fnode = E.funcs[q]
    E.cur = c
    E.cur_func = q
    E.cur_module = module or q.split(".")[0]
    if body is None:
        body = fnode.body
    E.block_use = {}
    for ent in (getattr(c, "use_blocks", None) or (lambda E_: [])) (E):
        E.block_use[id(ent[1][0])] = (ent[0], ent[1], ent[2] if len(ent) > 2 else None)
    if E.block_use:
        # loops inside a used block belong to that block's own proof: their ordinals are not this contract's
        inside = {id(x) for ent in E.block_use.values() for b in ent[1] for x in ast.walk(b)}
        E.cur_loops = [l for l in collect_loops(body) if id(l) not in inside]
    else:
        E.cur_loops = collect_loops(body)
    st = State()
    args = {}
    for nm, ty in c.params.items():
        if ty == "dict":
            v = VDict()
        elif isinstance(ty, V):
            v = ty
        else:
            v, asm = fresh(ty, nm)
            for a in asm:
                st.assume(a)
        args[nm] = v
        st.env[nm] = v
    # defaults of parameters not listed in the contract
    if isinstance(fnode, ast.FunctionDef) and body is fnode.body:
        a = fnode.args
        names = [x.arg for x in a.args]
        nd = len(a.defaults)
        for idx, nm in enumerate(names):
            if nm not in st.env:
                di = idx - (len(names) - nd)
                if di >= 0 and isinstance(a.defaults[di], ast.Constant):
                    st.env[nm] = lift_const(a.defaults[di].value)
                    args[nm] = st.env[nm]
                else:
                    raise OutOfSubset("parameter %s of %s has no declared type" % (nm, q))
        if a.kwarg and a.kwarg.arg not in st.env:
            st.env[a.kwarg.arg] = VDict(); args[a.kwarg.arg] = st.env[a.kwarg.arg]
    h0 = {}
    E.cur_args, E.cur_h0 = args, h0
    # all heap fields start as the symbolic pre-heap
    for f in E.known_fields():
        E.heap0(st, h0, f)
    if c.ghost_init:
        c.ghost_init(SpecCtx(E, st, args, h0), st)
    pre = SpecCtx(E, st, args, h0)
    ngoals0 = len(E.goals)
    if c.requires:
        for nm, f in c.requires(pre):
            st.assume(f)
    # cover: the precondition must be satisfiable (vacuity guard)
    E.covers.append((c.key, E.axioms_for(c) + list(st.pc)))
    outs = E.exec_block(body, st)
    E.npaths += len(outs)
    for o in outs:
        s1 = o.st
        if o.kind in ("normal", "return"):
            resv = o.val if o.kind == "return" and o.val is not None else VNone()
            if c.outputs:
                pass
            post = SpecCtx(E, s1, args, h0, res=resv)
            s1.trace.append("exit:%s" % o.kind)
            for exc, cond in c.raises:
                E.goal(s1, "post:no-%s-condition-on-normal-exit" % exc, z3.Not(cond(pre_at(E, s1, args, h0))), "post", None)
            if c.ensures:
                # clauses are proved in order; a proved clause may be used as a
                # hypothesis (cut) for the later ones of the same exit
                for nm, f in c.ensures(post):
                    E.goal(s1, "post:%s" % nm, f, "post", None)
                    if getattr(c, "cut", True):
                        s1.assume(f)
            frame_goals(E, c, s1, args, h0)
        elif o.kind == "raise":
            s1.trace.append("exit:raise:%s" % o.exc)
            if getattr(c, "exc_ensures", None):
                post = SpecCtx(E, s1, args, h0, res=None)
                post.exc = o.exc
                for nm, f in c.exc_ensures(post):
                    E.goal(s1, "excpost:%s" % nm, f, "post", o.node)
            allowed = [cond for exc, cond in c.raises if exc_is(o.exc, exc) is True]
            if o.exc in c.may_raise or "Any" in c.may_raise or any(exc_is(o.exc, x) is True for x in c.may_raise):
                continue
            if allowed:
                E.goal(s1, "raise:%s:condition" % o.exc, z3.Or([cond(pre_at(E, s1, args, h0)) for cond in allowed]), "raise",
                       o.node)
            else:
                E.goal(s1, "safety:no-%s@line%s" % (o.exc, getattr(o.node, "lineno", "?")), z3.BoolVal(False), "safety", o.node,
                       note="exceptional exit not allowed by the contract")
        else:
            raise OutOfSubset("loop control escaping the function")
    return E.goals[ngoals0:]


def pre_at(E, st, args, h0):
    """context whose current heap is the entry heap (raise conditions are
    stated over the pre-state)"""
    s0 = State()
    s0.heap = dict(h0)
    s0.env = dict(args)
    s0.ghost = st.ghost
    return SpecCtx(E, s0, args, h0)


def frame_goals(E, c, st, args, h0):
    """every field stored to on this path must be inside the contract's frame,
    and inside its region"""
    post = SpecCtx(E, st, args, h0)
    for f in sorted(st.written):
        if f.startswith("$alloc") or f == "$cls":
            continue
        new, old = E.heap(st, f), h0.get(f)
        if old is None:
            continue
        if f not in c.modifies:
            # unchanged on all objects that existed at entry
            r = z3.Int(fresh_name("fr"))
            alloc0 = h0.get("$alloc")
            E.goal(st, "frame:%s-unchanged" % f,
                   z3.ForAll([r], z3.Implies(z3.Select(alloc0, r), z3.Select(new, r) == z3.Select(old, r))), "frame", None)
        else:
            region = c.modifies[f]
            if region is None:
                continue
            r = z3.Int(fresh_name("fr"))
            alloc0 = h0.get("$alloc")
            E.goal(st, "frame:%s-only-in-region" % f,
                   z3.ForAll([r], z3.Implies(z3.And(z3.Select(alloc0, r), z3.Not(region(pre_at(E, st, args, h0), r))),
                                             z3.Select(new, r) == z3.Select(old, r))), "frame", None)


def known_fields(E):
    fs = ["$len", "$items", "$cursor", "$alloc", "$open", "$cls"]
    for c, info in E.reg.classes.items():
        fs += list(info["fields"])
    return fs


for _name, _f in list(globals().items()):
    if callable(_f) and getattr(_f, "__module__", None) == __name__ and _name not in (
            "collect_loops", "assigned_names", "mutated_receivers", "iter_spec", "havoc_frame", "frame_goals", "pre_at",
            "_as_load", "_concrete_key", "to_vlist", "_merge_val", "merge_diamond", "_exc_name", "_handler_names", "_iter_parts", "_fits", "adapt"):
        setattr(Engine, _name, _f)
Engine.inlined = set()
Engine.used_contracts = set()
Engine.covers = []
Engine.cur_args = None
Engine.cur_h0 = None
Engine.cur_module = None
