"""Sound abstraction of the string theory in a goal's SMT-LIB text: the sort String
becomes an uninterpreted sort and every str.* operation an uninterpreted function
(string literals become pairwise distinct constants with their true lengths).
If the abstracted query is unsat, so is the original (fewer constraints).  Used as
the first, cheap discharge stage: z3's sequence solver combined with quantified heap
formulas often answers `unknown` on goals whose proof needs no string reasoning."""
import re

FUNS = {
    "str.len": (1, "Int"), "str.prefixof": (2, "Bool"), "str.suffixof": (2, "Bool"), "str.contains": (2, "Bool"),
    "str.substr": (3, "UStr"), "str.at": (2, "UStr"), "str.indexof": (3, "Int"), "str.replace": (3, "UStr"),
    "str.from_int": (1, "UStr"), "str.to_int": (1, "Int"), "str.<": (2, "Bool"), "str.<=": (2, "Bool"),
    "str.replace_all": (3, "UStr"), "int.to.str": (1, "UStr"), "str.to.int": (1, "Int"),
}
ARGS = {
    "str.len": ["UStr"], "str.prefixof": ["UStr", "UStr"], "str.suffixof": ["UStr", "UStr"], "str.contains": ["UStr", "UStr"],
    "str.substr": ["UStr", "Int", "Int"], "str.at": ["UStr", "Int"], "str.indexof": ["UStr", "UStr", "Int"],
    "str.replace": ["UStr", "UStr", "UStr"], "str.from_int": ["Int"], "str.to_int": ["UStr"], "str.<": ["UStr", "UStr"],
    "str.<=": ["UStr", "UStr"], "str.replace_all": ["UStr", "UStr", "UStr"], "int.to.str": ["Int"], "str.to.int": ["UStr"],
}

TOK = re.compile(r'"(?:[^"]|"")*"|\|[^|]*\||[()]|[^\s()]+')


def parse(text):
    toks = TOK.findall(text)
    pos = 0
    out = []
    stack = [out]
    for t in toks:
        if t == "(":
            new = []
            stack[-1].append(new)
            stack.append(new)
        elif t == ")":
            stack.pop()
        else:
            stack[-1].append(t)
    return out


def dump(x):
    if isinstance(x, list):
        return "(" + " ".join(dump(y) for y in x) + ")"
    return x


def _unescape_len(lit):
    body = lit[1:-1].replace('""', '"')
    body = re.sub(r"\\u\{[0-9a-fA-F]+\}|\\u[0-9a-fA-F]{4}", "X", body)
    return len(body)


def abstract(text):
    """returns abstracted SMT-LIB text, or None when the goal uses regular expressions
    or string operations outside the table"""
    if "re." in text or "RegLan" in text or "(Seq " in text:
        return None
    text = "\n".join(l for l in text.splitlines() if not l.lstrip().startswith(";"))
    sx = parse(text)
    lits = {}
    used = set()
    bad = []

    def walk(x):
        if isinstance(x, list):
            if x and isinstance(x[0], str):
                h = x[0]
                if h == "str.++":
                    args = [walk(a) for a in x[1:]]
                    acc = args[0]
                    for a in args[1:]:
                        acc = ["ustr_cat", acc, a]
                    used.add("str.++")
                    return acc
                if h.startswith("str.") or h in ("int.to.str",):
                    if h not in FUNS:
                        bad.append(h)
                        return x
                    used.add(h)
                    return ["u_" + h.replace(".", "_").replace("<", "lt").replace("=", "eq")] + [walk(a) for a in x[1:]]
            return [walk(a) for a in x]
        if x == "String":
            return "UStr"
        if x.startswith('"'):
            if x not in lits:
                lits[x] = "strlit_%d" % len(lits)
            return lits[x]
        return x

    body = [walk(e) for e in sx]
    if bad:
        return None
    pre = ["(declare-sort UStr 0)"]
    for h in sorted(used):
        if h == "str.++":
            pre.append("(declare-fun ustr_cat (UStr UStr) UStr)")
        else:
            name = "u_" + h.replace(".", "_").replace("<", "lt").replace("=", "eq")
            pre.append("(declare-fun %s (%s) %s)" % (name, " ".join(ARGS[h]), FUNS[h][1]))
    for lit, sym in lits.items():
        pre.append("(declare-fun %s () UStr)" % sym)
    if len(lits) > 1:
        pre.append("(assert (distinct %s))" % " ".join(lits.values()))
    if "str.len" in used:
        for lit, sym in lits.items():
            pre.append("(assert (= (u_str_len %s) %d))" % (sym, _unescape_len(lit)))
    # keep (set-info ...) / (set-logic ...) lines first
    head, rest = [], []
    for e in body:
        (head if isinstance(e, list) and e and e[0] in ("set-info", "set-logic", "set-option") else rest).append(e)
    return "\n".join([dump(e) for e in head] + pre + [dump(e) for e in rest])
