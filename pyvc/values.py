"""Symbolic values, types and the SMT vocabulary shared by engine and specs."""
import z3

PyObj = z3.DeclareSort("PyObj")
I = z3.IntSort()
B = z3.BoolSort()
S = z3.StringSort()

# ---------------------------------------------------------------- types
INT, BOOL, STR, NONE, OBJ, FILE = "int", "bool", "str", "none", "obj", "file"


def REF(cls):
    return ("ref", cls)


def LIST(ety):
    return ("list", ety)


def TUPLE(*etys):
    return ("tuple", tuple(etys))


def CONST(v):
    return ("const", v)


# ---------------------------------------------------------------- values
class V:
    pass


class VInt(V):
    def __init__(s, t):
        s.t = z3.IntVal(t) if isinstance(t, int) else t

    def __repr__(s):
        return "VInt(%s)" % s.t


class VBool(V):
    def __init__(s, t):
        s.t = z3.BoolVal(t) if isinstance(t, bool) else t

    def __repr__(s):
        return "VBool(%s)" % s.t


class VCmp(VBool):
    """result of a comparison between opaque objects: a truth value that also
    remembers the (possibly element-wise) comparison object"""

    def __init__(s, t, obj):
        VBool.__init__(s, t)
        s.obj = obj


class VStr(V):
    def __init__(s, t):
        s.t = z3.StringVal(t) if isinstance(t, str) else t

    def __repr__(s):
        return "VStr(%s)" % s.t


class VNone(V):
    def __repr__(s):
        return "VNone"


class VObj(V):
    """Opaque Python object (float, ndarray, anything): only uninterpreted
    observers are visible."""

    def __init__(s, t):
        s.t = t

    def __repr__(s):
        return "VObj(%s)" % s.t


class VRef(V):
    def __init__(s, t, cls):
        s.t = z3.IntVal(t) if isinstance(t, int) else t
        s.cls = cls

    def __repr__(s):
        return "VRef(%s:%s)" % (s.t, s.cls)


class VFile(V):
    def __init__(s, t):
        s.t = t

    def __repr__(s):
        return "VFile(%s)" % s.t


class VTuple(V):
    def __init__(s, items):
        s.items = list(items)

    def __repr__(s):
        return "VTuple(%s)" % (s.items,)


class VList(V):
    """Value-semantics list: length term + one SMT array per leaf of the
    element type (struct of arrays)."""

    def __init__(s, n, cols, ety):
        s.n, s.cols, s.ety = n, list(cols), ety

    def __repr__(s):
        return "VList(n=%s,%s)" % (s.n, s.ety)


class VCList(V):
    """Concrete Python list of values (tables, literal lists): loops over it
    are unrolled."""

    def __init__(s, items):
        s.items = list(items)

    def __repr__(s):
        return "VCList(%s)" % (s.items,)


class VDict(V):
    def __init__(s, d=None):
        s.d = dict(d or {})

    def __repr__(s):
        return "VDict(%s)" % (s.d,)


class VFunc(V):
    def __init__(s, node, closure, qual):
        s.node, s.closure, s.qual = node, closure, qual


class VConst(V):
    """Concrete Python object that is not modelled further (float literal,
    compiled regex, module, class, type...)."""

    def __init__(s, obj):
        s.obj = obj

    def __repr__(s):
        return "VConst(%r)" % (s.obj,)


class VExt(V):
    """Reference to an external/library callable or module by dotted name."""

    def __init__(s, name):
        s.name = name

    def __repr__(s):
        return "VExt(%s)" % s.name


class VRec(V):
    """A dict-valued field of a heap object whose constant keys are modelled as
    separate heap fields (LASFile.sections['Well'] -> field $sec_Well)."""

    def __init__(s, ref, mapping):
        s.ref, s.mapping = ref, mapping


class VPy(V):
    """A concrete Python object with an attribute dictionary (used when a real
    method is executed concretely on the real tables, e.g. SectionParser.__init__)."""

    def __init__(s, cls, attrs=None):
        s.cls, s.attrs = cls, dict(attrs or {})


class VType(V):
    """type(obj) of a heap object: the dynamic class tag"""

    def __init__(s, tag):
        s.tag = tag


class VBound(V):
    """Bound method: receiver + method name."""

    def __init__(s, recv, name, via_super=None):
        s.recv, s.name, s.via_super = recv, name, via_super


# ---------------------------------------------------------------- vocabulary
strip = z3.Function("py_strip", S, S)            # str.strip()
strip_nl = z3.Function("py_strip_nl", S, S)      # str.strip("\n")
strip_dot = z3.Function("py_strip_dot", S, S)    # str.strip(".")
upper = z3.Function("py_upper", S, S)
lower = z3.Function("py_lower", S, S)
fmt_d = z3.Function("py_fmt_d", I, S)            # "%d" % k
str_of = z3.Function("py_str_of", PyObj, S)      # str(obj)
truthy = z3.Function("py_truthy", PyObj, B)      # bool(obj)
is_none = z3.Function("py_is_none", PyObj, B)    # obj is None
len_of = z3.Function("py_len_of", PyObj, I)      # len(obj)
obj_of_str = z3.Function("py_obj_of_str", S, PyObj)
obj_of_int = z3.Function("py_obj_of_int", I, PyObj)
is_str = z3.Function("py_is_str", PyObj, B)
none_obj = z3.Const("py_None", PyObj)
blanks = z3.Function("py_blanks", I, S)          # " " * n
cookie = z3.Function("io_cookie", I, I)          # tell() cookie of a cursor
uncookie = z3.Function("io_uncookie", I, I)


def sort_of(ty):
    if ty == INT:
        return I
    if ty == BOOL:
        return B
    if ty == STR:
        return S
    if ty == OBJ:
        return PyObj
    if ty == FILE:
        return I
    if isinstance(ty, tuple) and ty[0] == "ref":
        return I
    raise TypeError("no single sort for %r" % (ty,))


def leaves(ty):
    """Flatten an element type into leaf types (tuples -> several columns)."""
    if isinstance(ty, tuple) and ty[0] == "tuple":
        out = []
        for e in ty[1]:
            out += leaves(e)
        return out
    return [ty]


def wrap(ty, t):
    if ty == INT:
        return VInt(t)
    if ty == BOOL:
        return VBool(t)
    if ty == STR:
        return VStr(t)
    if ty == OBJ:
        return VObj(t)
    if ty == FILE:
        return VFile(t)
    if isinstance(ty, tuple) and ty[0] == "ref":
        return VRef(t, ty[1])
    raise TypeError(ty)


def build(ty, terms):
    """Rebuild a value of type ty from a list of leaf terms (consumes)."""
    if isinstance(ty, tuple) and ty[0] == "tuple":
        return VTuple([build(e, terms) for e in ty[1]])
    return wrap(ty, terms.pop(0))


def flatten(v):
    if isinstance(v, VTuple):
        out = []
        for x in v.items:
            out += flatten(x)
        return out
    return [v.t]


def type_of(v):
    if isinstance(v, VInt):
        return INT
    if isinstance(v, VBool):
        return BOOL
    if isinstance(v, VStr):
        return STR
    if isinstance(v, VObj):
        return OBJ
    if isinstance(v, VNone):
        return NONE
    if isinstance(v, VFile):
        return FILE
    if isinstance(v, VRef):
        return REF(v.cls)
    if isinstance(v, VTuple):
        return TUPLE(*[type_of(x) for x in v.items])
    if isinstance(v, VList):
        return LIST(v.ety)
    raise TypeError(v)


_cnt = [0]


def fresh_name(base):
    _cnt[0] += 1
    return "%s!%d" % (base, _cnt[0])


def reset_names():
    _cnt[0] = 0


def fresh(ty, base):
    """Fresh symbolic value of a type; returns (value, [assumptions])."""
    if ty == NONE:
        return VNone(), []
    if isinstance(ty, tuple) and ty[0] == "const":
        from .engine import lift_const
        return lift_const(ty[1]), []
    if isinstance(ty, tuple) and ty[0] == "tuple":
        vs, asm = [], []
        for k, e in enumerate(ty[1]):
            v, a = fresh(e, "%s.%d" % (base, k))
            vs.append(v)
            asm += a
        return VTuple(vs), asm
    if isinstance(ty, tuple) and ty[0] == "list":
        n = z3.Int(fresh_name(base + ".n"))
        cols = [
            z3.Const(fresh_name("%s.c%d" % (base, k)), z3.ArraySort(I, sort_of(l)))
            for k, l in enumerate(leaves(ty[1]))
        ]
        return VList(n, cols, ty[1]), [n >= 0]
    return wrap(ty, z3.Const(fresh_name(base), sort_of(ty))), []


# ---- Python <-> z3 string literals.  z3 prints characters above 255 as \u{hex} and reads \u{hex} / \uXXXX
# in StringVal as escapes: decode on the way out, protect literal backslash-u on the way in.
import re as _re_mod
_Z3_ESC = _re_mod.compile(r"\\u\{([0-9a-fA-F]+)\}")


def pystr(t):
    """the Python string denoted by a z3 string literal"""
    return _Z3_ESC.sub(lambda m: chr(int(m.group(1), 16)), t.as_string())


_orig_StringVal = z3.StringVal


def _safe_StringVal(s, ctx=None):
    if isinstance(s, str) and "\\u" in s:
        s = s.replace("\\u", "\\u{5c}u")
    return _orig_StringVal(s, ctx)


z3.StringVal = _safe_StringVal

