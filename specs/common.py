"""Shared vocabulary for contracts: class table, file model, ghost functions."""
import z3
from pyvc.values import *
from pyvc.spec import Contract, Registry

REG = Registry()

REG.classes.update({
    "HeaderItem": {
        "module": "las_items", "bases": [], "builtin_base": "OrderedDict",
        "fields": {"original_mnemonic": STR, "mnemonic": STR, "unit": OBJ, "value": OBJ, "descr": OBJ, "data": OBJ},
    },
    "CurveItem": {"module": "las_items", "bases": ["HeaderItem"], "builtin_base": "OrderedDict", "fields": {}},
    "SectionItems": {
        "module": "las_items", "bases": [], "builtin_base": "list", "seq": "HeaderItem", "getattr": True,
        "fields": {"mnemonic_transforms": BOOL},
    },
})

# ---- file model (T-io) ------------------------------------------------------
LINES = z3.Const("file.lines", z3.ArraySort(I, S))
NLINES = z3.Int("file.N")
rank = z3.Function("rank", I, I)     # number of title lines strictly before line k


def T(k):
    """line k is a title line: its stripped text starts with '~'"""
    return z3.PrefixOf(z3.StringVal("~"), strip(z3.Select(LINES, k)))


def file_init(fname="file_obj", cursor0=None):
    def init(c, st):
        st.ghost["lines"] = LINES
        st.ghost["N"] = NLINES
        st.assume(NLINES >= 0)
        kk = z3.Int('io_k')
        st.assume(z3.ForAll([kk], z3.Implies(z3.And(0 <= kk, kk < NLINES), z3.Length(z3.Select(LINES, kk)) > 0), patterns=[z3.Select(LINES, kk)]))
        f = c.a[fname]
        cur = z3.Select(c.eng.heap(st, "$cursor"), f.t)
        st.assume(z3.And(cur >= 0, cur <= NLINES))
        if cursor0 is not None:
            st.assume(cur == cursor0(c))
    return init


def cursor(c, fname="file_obj"):
    return z3.Select(c.h("$cursor"), c.a[fname].t)


def forall(vs, body):
    return z3.ForAll(vs if isinstance(vs, list) else [vs], body)


# axioms shared by all goals (T-io, T-str); each is validated against CPython
# by bounded/axioms_check.py on every run
_k = z3.Int("ax_k")
_a, _b = z3.Int("ax_a"), z3.Int("ax_b")
_s = z3.String("ax_s")
REG.axioms += [
    ("T-io:uncookie(cookie(c))=c", z3.ForAll([_k], uncookie(cookie(_k)) == _k, patterns=[cookie(_k)]), "io"),
    ("T-io:cookie(0)=0", cookie(0) == 0, "io"),
    ("ghost:rank(0)=0", rank(0) == 0, "io"),
    ("ghost:rank(k+1)", z3.ForAll([_k], z3.Implies(_k >= 0, rank(_k + 1) == rank(_k) + z3.If(T(_k), 1, 0)),
                                  patterns=[rank(_k + 1)]), "io"),
]


def exists_hint(c, var, body, hints=()):
    """Exists(var, body(var)).  When the clause is a proof goal (not a callee
    assumption) the disjuncts body(h) for local variables h are offered to the
    solver as explicit witnesses; Or(body(h), Exists) is equivalent to the Exists."""
    ex = z3.Exists([var], body(var))
    if getattr(c, "callee", False):
        return ex
    alts = []
    for h in hints:
        v = c.st.env.get(h)
        if v is not None and isinstance(v, VInt):
            alts.append(body(v.t))
    return z3.Or(alts + [ex]) if alts else ex
