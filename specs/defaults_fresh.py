"""C10: every LASFile starts from freshly allocated default sections and items
(no state shared between LASFile objects or carried from one read to the next)."""
import z3
from pyvc.values import *
from pyvc.spec import Contract
from .common import *
from . import las_items as LI
from . import writer as W

REG.add(Contract("lib:np.zeros", params={"shape": "any"}, returns=OBJ, assumed=True, noraise=True,
                 note="numpy.zeros allocates a new array", properties=("C10",)))


def gdi_post(c):
    d = c.res.d
    out = []
    alloc0 = c.old("$alloc")
    secs = [d[k] for k in ("Version", "Well", "Curves", "Parameter")]
    for k, v in zip(("Version", "Well", "Curves", "Parameter"), secs):
        if not isinstance(v, VRef):
            return [("default-%s-is-a-SectionItems" % k, z3.BoolVal(False))]
        n = z3.Select(c.h("$len"), v.t)
        A = z3.Select(c.h("$items"), v.t)
        p = z3.Int("p_" + k)
        out.append(("section-%s-is-a-new-object" % k, z3.Not(z3.Select(alloc0, v.t))))
        out.append(("items-of-%s-are-new-objects" % k, z3.ForAll([p], z3.Implies(z3.And(0 <= p, p < n), z3.Not(z3.Select(alloc0, z3.Select(A, p)))))))
    out.append(("the-four-sections-are-distinct-objects", z3.Distinct(*[v.t for v in secs])))
    return out


GDI = REG.add(Contract(
    "defaults.get_default_items", params={}, ensures=gdi_post,
    modifies={f: (lambda c, r: z3.Not(z3.Select(c.old("$alloc"), r))) for f in LI.HI_FIELDS + ["$len", "$items", "mnemonic_transforms"]},
    properties=("C10", "C14"), noraise=True))
GDI.modifies["$alloc"] = None
GDI.modifies["$cls"] = None
