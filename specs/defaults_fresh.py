"""C10: every LASFile starts from freshly allocated default sections and items
(no state shared between LASFile objects or carried from one read to the next)."""
import z3
from pyvc.values import *
from pyvc.spec import Contract
from .common import *
from . import las_items as LI
from . import writer as W

REG.add(Contract("lib:np.zeros", params={"shape": "any"}, returns=OBJ, assumed=True, noraise=True,
                 note="numpy.zeros allocates a new array", properties=("C10",)))


def gdi_post(c):
    d = c.res.d
    out = []
    alloc0 = c.old("$alloc")
    secs = [d[k] for k in ("Version", "Well", "Curves", "Parameter")]
    for k, v in zip(("Version", "Well", "Curves", "Parameter"), secs):
        if not isinstance(v, VRef):
            return [("default-%s-is-a-SectionItems" % k, z3.BoolVal(False))]
        n = z3.Select(c.h("$len"), v.t)
        A = z3.Select(c.h("$items"), v.t)
        p = z3.Int("p_" + k)
        out.append(("section-%s-is-a-new-object" % k, z3.Not(z3.Select(alloc0, v.t))))
        out.append(("items-of-%s-are-new-objects" % k, z3.ForAll([p], z3.Implies(z3.And(0 <= p, p < n), z3.Not(z3.Select(alloc0, z3.Select(A, p)))))))
    out.append(("the-four-sections-are-distinct-objects", z3.Distinct(*[v.t for v in secs])))
    return out


GDI = REG.add(Contract(
    "defaults.get_default_items", params={}, ensures=gdi_post,
    modifies={f: (lambda c, r: z3.Not(z3.Select(c.old("$alloc"), r))) for f in LI.HI_FIELDS + ["$len", "$items", "mnemonic_transforms"]},
    properties=("C10", "C14"), noraise=True))
GDI.modifies["$alloc"] = None
GDI.modifies["$cls"] = None


def gdi_result(c):
    d = {}
    for k in ("Version", "Well", "Curves", "Parameter"):
        d[k] = VRef(z3.Int(fresh_name("default_" + k)), "SectionItems")
    d["Other"] = VStr("")
    d["Data"] = VObj(z3.Const(fresh_name("default_data"), PyObj))
    return VDict(d)


GDI.returns = gdi_result
from . import las_api as API
from . import las_write_state as WS


def init_post(c):
    me = c.a["self"].t
    alloc0 = c.old("$alloc")
    secs = [z3.Select(c.h(f), me) for f in ("$sec_Version", "$sec_Well", "$sec_Curves", "$sec_Parameter")]
    p = z3.Int("p_i")
    out = [("every-section-of-a-new-LASFile-is-a-new-object", z3.And([z3.Not(z3.Select(alloc0, x)) for x in secs])),
           ("the-four-sections-are-distinct-objects", z3.Distinct(*secs))]
    for f, x in zip(("Version", "Well", "Curves", "Parameter"), secs):
        n, A = z3.Select(c.h("$len"), x), z3.Select(c.h("$items"), x)
        out.append(("items-of-%s-are-new-objects" % f, z3.ForAll([p], z3.Implies(z3.And(0 <= p, p < n), z3.Not(z3.Select(alloc0, z3.Select(A, p)))))))
    return out


LAS_INIT = REG.add(Contract(
    "las.LASFile.__init__", case="no-file", params={"self": API.LAS, "file_ref": NONE, "read_kwargs": "dict"},
    ensures=init_post,
    modifies={f: (lambda c, r: z3.Or(r == c.a["self"].t, z3.Not(z3.Select(c.old("$alloc"), r)))) for f in
              ("$sec_Version", "$sec_Well", "$sec_Curves", "$sec_Parameter", "index_unit", "index_initial", "_text", "$len", "$items",
               "mnemonic_transforms") + tuple(LI.HI_FIELDS)},
    properties=("C10", "C14"), noraise=True))
LAS_INIT.modifies["$alloc"] = None
LAS_INIT.modifies["$cls"] = None
