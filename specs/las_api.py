"""C14: the LASFile curve API refines list operations on las.curves.
Each method is verified against the (weak, shape-only) contracts of the
SectionItems operations it is built from; those are verified in las_items.py /
reader_header.py."""
import z3
from pyvc.values import *
from pyvc.spec import Contract
from .common import *
from . import las_items as LI
from . import reader_header as RH
from . import writer as W

p, q, kk = z3.Int("p"), z3.Int("q"), z3.Int("kk")
LAS = REF("LASFile")
CI = REF("CurveItem")


def cv(c, old=False):
    """view of las.curves"""
    hh = c.old if old else c.h

    class _V(LI.View):
        def __init__(s):
            s.s = z3.Select(hh("$sec_Curves"), c.a["self"].t)
            s.n = z3.simplify(z3.Select(hh("$len"), s.s))
            s.A = z3.simplify(z3.Select(hh("$items"), s.s))
            s.orig, s.sess = hh("original_mnemonic"), hh("mnemonic")
            s.tr = z3.Select(hh("mnemonic_transforms"), s.s)
            s.alloc = hh("$alloc")
            s.hh = hh
    return _V()


def las_shape(c):
    v = cv(c)
    return [("len>=0", v.n >= 0), ("las-allocated", z3.Select(v.alloc, c.a["self"].t)),
            ("curves-section-allocated", z3.And(z3.Select(v.alloc, v.s), v.s != c.a["self"].t)),
            ("items-allocated", forall(p, z3.Implies(v.inrange(p), z3.And(z3.Select(v.alloc, v.item(p)), v.item(p) != v.s))))]


def only_curves(c, r):
    return r == z3.Select(c.old("$sec_Curves"), c.a["self"].t)


def curve_items(c, r):
    v = cv(c, old=True)
    return z3.Exists([p], z3.And(v.inrange(p), v.item(p) == r))


SEQ = {"$len": only_curves, "$items": only_curves}

# weak contract of insert, on request
INSERT_SHAPE = REG.add(Contract(
    "las_items.SectionItems.insert", case="shape", params={"self": LI.SI, "i": INT, "newitem": LI.HI},
    requires=lambda c: LI.shape(c) + [("new-item-allocated", z3.And(z3.Select(LI.View(c).alloc, c.a["newitem"].t),
                                                                   c.a["newitem"].t != c.a["self"].t))],
    ensures=lambda c: [("inserted-at-list-position", LI.inserted(LI.View(c), LI.View(c, old=True),
                                                                LI.insert_index(LI.View(c, old=True).n, c.a["i"].t), c.a["newitem"].t)),
                       ("originals-never-altered", c.h("original_mnemonic") == c.old("original_mnemonic"))],
    modifies=dict(LI.SEQ_FRAME, mnemonic=lambda c, r: z3.Or(r == c.a["newitem"].t, RH.member_of(c, r))),
    only_on_request=True, noraise=True,
    use={"las_items.SectionItems.assign_duplicate_suffixes": "shape"},
    properties=("C14",)))

USE = {"las_items.SectionItems.insert": "shape", "las_items.SectionItems.append": "shape"}
MNEM = lambda c, r: z3.Or(r == c.a["curve_item"].t, curve_items(c, r))

INS_ITEM = REG.add(Contract(
    "las.LASFile.insert_curve_item", params={"self": LAS, "ix": INT, "curve_item": CI},
    requires=lambda c: las_shape(c) + [("item-allocated", z3.And(z3.Select(c.h("$alloc"), c.a["curve_item"].t),
                                                                 c.a["curve_item"].t != cv(c).s))],
    ensures=lambda c: [("list-insert", LI.inserted(cv(c), cv(c, old=True), LI.insert_index(cv(c, old=True).n, c.a["ix"].t), c.a["curve_item"].t)),
                       ("same-section-object", cv(c).s == cv(c, old=True).s)],
    modifies=dict(SEQ, mnemonic=MNEM), use=USE, properties=("C14",), noraise=True))

APP_ITEM = REG.add(Contract(
    "las.LASFile.append_curve_item", params={"self": LAS, "curve_item": CI},
    requires=INS_ITEM.requires,
    ensures=lambda c: [("list-append", LI.appended(cv(c), cv(c, old=True), c.a["curve_item"].t))],
    modifies=dict(SEQ, mnemonic=MNEM), use=USE, properties=("C14",), noraise=True))


def removed(c, idx):
    return LI.removed_at(cv(c), cv(c, old=True), idx)


def ix_out_of_range(c):
    v = cv(c)
    return z3.Or(c.a["ix"].t >= v.n, c.a["ix"].t < -v.n)


DEL_IX = REG.add(Contract(
    "las.LASFile.delete_curve", case="by-index", params={"self": LAS, "mnemonic": NONE, "ix": INT},
    requires=las_shape, raises=[("IndexError", ix_out_of_range)],
    ensures=lambda c: [("list-delete", removed(c, LI.norm_index(cv(c, old=True).n, c.a["ix"].t)))],
    modifies=SEQ, properties=("C14",)))


def no_such_key(c):
    v = cv(c)
    return forall(p, z3.Implies(v.inrange(p), v.sess_at(p) != c.a["mnemonic"].t))


DEL_KEY = REG.add(Contract(
    "las.LASFile.delete_curve", case="by-mnemonic", params={"self": LAS, "mnemonic": STR, "ix": NONE},
    requires=las_shape, raises=[("ValueError", no_such_key)],
    ensures=lambda c: [("deletes-the-first-curve-with-that-session-name", z3.Exists([kk], z3.And(
        cv(c, old=True).inrange(kk), cv(c, old=True).sess_at(kk) == c.a["mnemonic"].t,
        forall(q, z3.Implies(z3.And(0 <= q, q < kk), cv(c, old=True).sess_at(q) != c.a["mnemonic"].t)),
        removed(c, kk))))],
    modifies=SEQ, properties=("C14",)))

KEYS_LAS = REG.add(Contract(
    "las.LASFile.keys", params={"self": LAS}, requires=las_shape,
    ensures=lambda c: [("length", c.res.n == cv(c).n),
                       ("session-names-in-curve-order", forall(p, z3.Implies(cv(c).inrange(p), z3.Select(c.res.cols[0], p) == cv(c).sess_at(p))))],
    returns=LIST(STR), properties=("C14",), noraise=True))

VALUES_LAS = REG.add(Contract(
    "las.LASFile.values", params={"self": LAS}, requires=las_shape,
    ensures=lambda c: [("length", c.res.n == cv(c).n),
                       ("arrays-in-curve-order", forall(p, z3.Implies(cv(c).inrange(p), z3.Select(c.res.cols[0], p) == z3.Select(c.h("data"), cv(c).item(p)))))],
    returns=LIST(OBJ), properties=("C14",), noraise=True))

GETITEM_INT = REG.add(Contract(
    "las.LASFile.__getitem__", case="int", params={"self": LAS, "key": INT},
    requires=las_shape, raises=[("IndexError", lambda c: z3.Or(c.a["key"].t >= cv(c).n, c.a["key"].t < -cv(c).n))],
    ensures=lambda c: [("data-of-that-position", c.res.t == z3.Select(c.h("data"), cv(c).item(LI.norm_index(cv(c).n, c.a["key"].t))))],
    returns=OBJ, properties=("C14",)))

INDEX = REG.add(Contract(
    "las.LASFile.index", params={"self": LAS}, requires=las_shape,
    raises=[("IndexError", lambda c: cv(c).n == 0)],
    ensures=lambda c: [("index-is-curve-0", c.res.t == z3.Select(c.h("data"), cv(c).item(0)))],
    returns=OBJ, properties=("C14",)))

REPLACE = REG.add(Contract(
    "las.LASFile.replace_curve_item", params={"self": LAS, "ix": INT, "curve_item": CI},
    requires=INS_ITEM.requires, raises=[("IndexError", ix_out_of_range)],
    ensures=lambda c: [("list-replace", LI.replaced_at(cv(c), cv(c, old=True), LI.norm_index(cv(c, old=True).n, c.a["ix"].t), c.a["curve_item"].t))],
    modifies=dict(SEQ, mnemonic=MNEM), properties=("C14",)))


# ---------------------------------------------------------------- curves built from fields, item assignment, update
def new_curve_post(c, at):
    """exactly one new CurveItem carrying the given fields is inserted at `at`"""
    v, v0 = cv(c), cv(c, old=True)
    x = v.item(at)
    return [("one-new-curve-at-that-position", z3.And(v.n == v0.n + 1, z3.Not(z3.Select(c.old("$alloc"), x)),
                                                     forall(q, z3.Implies(z3.And(0 <= q, q < at), v.item(q) == v0.item(q))),
                                                     forall(q, z3.Implies(z3.And(at < q, q <= v0.n), v.item(q) == v0.item(q - 1))))),
            ("it-carries-the-given-name-and-metadata", z3.And(
                z3.Select(c.h("original_mnemonic"), x) == c.a["mnemonic"].t,
                z3.Select(c.h("unit"), x) == c.a["unit"].t, z3.Select(c.h("descr"), x) == c.a["descr"].t,
                z3.Select(c.h("value"), x) == c.a["value"].t))]


NEW_FRAME = dict(SEQ, mnemonic=None, **{f: (lambda c, r: z3.Not(z3.Select(c.old("$alloc"), r))) for f in LI.HI_FIELDS if f != "mnemonic"})
NEW_FRAME["$alloc"] = None
NEW_FRAME["$cls"] = None

INS_CURVE = REG.add(Contract(
    "las.LASFile.insert_curve", params={"self": LAS, "ix": INT, "mnemonic": STR, "data": OBJ, "unit": OBJ, "descr": OBJ, "value": OBJ},
    requires=las_shape, ensures=lambda c: new_curve_post(c, LI.insert_index(cv(c, old=True).n, c.a["ix"].t)),
    modifies=NEW_FRAME, use=USE, may_raise=["Any"], properties=("C14",)))
INS_CURVE.note = "numpy.asarray(data) inside CurveItem.__init__ may raise"

APP_CURVE = REG.add(Contract(
    "las.LASFile.append_curve", params={"self": LAS, "mnemonic": STR, "data": OBJ, "unit": OBJ, "descr": OBJ, "value": OBJ},
    requires=las_shape, ensures=lambda c: new_curve_post(c, cv(c, old=True).n),
    modifies=NEW_FRAME, use=USE, may_raise=["Any"], properties=("C14",)))


def first_named(v, key, i):
    return z3.And(v.inrange(i), v.sess_at(i) == key, forall(q, z3.Implies(z3.And(0 <= q, q < i), v.sess_at(q) != key)))


UPD = REG.add(Contract(
    "las.LASFile.update_curve", case="data-by-mnemonic", params={"self": LAS, "mnemonic": STR, "data": OBJ, "kwargs": VDict()},
    requires=las_shape, raises=[("ValueError", no_such_key)],
    ensures=lambda c: [("only-that-curve's-data-changes", z3.Exists([kk], z3.And(
        first_named(cv(c, old=True), c.a["mnemonic"].t, kk),
        z3.Or(z3.Select(c.h("data"), cv(c).item(kk)) == c.a["data"].t, c.h("data") == c.old("data"))))),
        ("curve-list-unchanged", z3.And(cv(c).n == cv(c, old=True).n, cv(c).A == cv(c, old=True).A)),
        ] + ([("the-new-array-is-bound-to-the-curve: no-existing-array-is-refilled-in-place (it may be shared with another curve or LASFile)",
               z3.ForAll([z3.Const("any_obj", PyObj)], z3.Not(z3.Select(c.g("$mutated"), z3.Const("any_obj", PyObj)))))]
             if c.st.ghost.get("$mutated") is not None else []),
    modifies={"data": lambda c, r: z3.Exists([kk], z3.And(first_named(cv(c), c.a["mnemonic"].t, kk), cv(c).item(kk) == r))},
    ghost_init=LI.get_ghost, abstract_exprs=True,
    properties=("C14",)))

SETITEM_ARR = REG.add(Contract(
    "las.LASFile.__setitem__", case="array", params={"self": LAS, "key": STR, "value": OBJ},
    requires=lambda c: las_shape(c) + [("value-is-not-a-CurveItem", z3.Not(z3.Function("py_isinstance_CurveItem", PyObj, B)(c.a["value"].t)))],
    ensures=lambda c: [("existing-session-name:update-in-place-else-append-one-curve", z3.Or(
        z3.And(z3.Not(no_such_key_k(c)), cv(c).n == cv(c, old=True).n, cv(c).A == cv(c, old=True).A),
        z3.And(no_such_key_k(c), cv(c).n == cv(c, old=True).n + 1,
               z3.Select(c.h("original_mnemonic"), cv(c).item(cv(c, old=True).n)) == c.a["key"].t,
               forall(q, z3.Implies(z3.And(0 <= q, q < cv(c, old=True).n), cv(c).item(q) == cv(c, old=True).item(q))))))],
    modifies=dict(NEW_FRAME, data=None), may_raise=["Any"], prune=True, properties=("C14",)))


def no_such_key_k(c):
    v = cv(c, old=True)
    return forall(p, z3.Implies(v.inrange(p), v.sess_at(p) != c.a["key"].t))


# ---------------------------------------------------------------- set_data: everything after `data = np.asarray(array_like)` (C14, C16)
# Located structurally on every run: the statements of LASFile.set_data that follow the assignment `data = np.asarray(array_like)`,
# up to the end of the function.  numpy expressions (data.size, data.shape[1], data[:, i]) are opaque values (abstract_exprs).
# Case: names=None (the caller gives no names).  Contract:
#  * frame: only the curve list (new placeholder curves appended), session mnemonics / data of curve items; NOTHING on the LASFile
#    itself - in particular not index_initial, the snapshot write() compares the index with (C16);
#  * every normal exit has re-numbered the session names (the call of assign_duplicate_suffixes is reached on every path) - ghost flag
#    set by a hook at that call, cleared by a hook at every assignment of a session mnemonic;
#  * originals are never altered when no names are given; the curves that existed before keep their place.
from pyvc import blocks as BL
import ast as _ast2


def _sd_body(E):
    fn = E.funcs["las.LASFile.set_data"]
    for k, s in enumerate(fn.body):
        if (_ast2.get_source_segment(E.src["las"], s) or "").strip().startswith("data = np.asarray(array_like)"):
            return fn.body[k + 1:], fn
    from pyvc.state import OutOfSubset
    raise OutOfSubset("`data = np.asarray(array_like)` not found at the top level of LASFile.set_data")


def sd_verify(E, c):
    body, fn = _sd_body(E)
    return E.verify(c, fnode=fn, body=body, module="las")


def sd_init(c, st):
    st.ghost["$renumbered"] = z3.BoolVal(True)


def sd_hook_ads(c, st):
    st.ghost["$renumbered"] = z3.BoolVal(True)


def sd_hook_rename(c, st):
    st.ghost["$renumbered"] = z3.BoolVal(False)


def sd_kept(c):
    v, v0 = cv(c), cv(c, old=True)
    r_ = z3.Int("r_sd")
    return las_shape(c) + [("allocation-only-grows", forall(r_, z3.Implies(z3.Select(c.old("$alloc"), r_), z3.Select(c.h("$alloc"), r_)))), ("existing-curves-keep-their-place", z3.And(v.n >= v0.n, v.s == v0.s,
                                                        forall(q, z3.Implies(z3.And(0 <= q, q < v0.n), v.item(q) == v0.item(q))))),
            ("later-curves-are-new-placeholders", forall(q, z3.Implies(z3.And(v0.n <= q, q < v.n), z3.And(
                z3.Not(z3.Select(c.old("$alloc"), v.item(q))), z3.Select(v.alloc, v.item(q)), v.item(q) != v.s)))),
            ("originals-of-existing-curves-kept", forall(q, z3.Implies(z3.And(0 <= q, q < v0.n),
                                                                        z3.Select(v.orig, v.item(q)) == z3.Select(v0.orig, v.item(q))))),
            ("LASFile-object-untouched", z3.And(*[z3.Select(c.h(f), c.a["self"].t) == z3.Select(c.old(f), c.a["self"].t)
                                                   for f in ("index_initial", "index_unit", "$sec_Curves", "$sec_Well", "$sec_Version", "$sec_Parameter")]))]


SET_DATA = REG.add(Contract(
    "las.LASFile.set_data#after-asarray", case="names=None",
    params={"self": LAS, "data": OBJ, "names": NONE, "truncate": BOOL},
    requires=las_shape,
    ensures=lambda c: sd_kept(c) + [("session-names-renumbered-after-the-last-rename (assign_duplicate_suffixes reached on every path)",
                                     c.g("$renumbered"))],
    modifies=dict(NEW_FRAME, data=None),
    loops={0: lambda c: sd_kept(c) + [("renumbered-flag", c.g("$renumbered"))],
           1: lambda c: sd_kept(c) + [("renumbered-flag", c.g("$renumbered"))],
           2: lambda c: sd_kept(c)},
    loop_ghost={0: ["$renumbered"], 1: ["$renumbered"], 2: ["$renumbered"]},
    ghost_init=sd_init,
    hooks={"contains:.assign_duplicate_suffixes()": sd_hook_ads, "contains:.mnemonic = ": sd_hook_rename},
    use=USE, abstract_exprs=True, may_raise=["Any"], verify_with=sd_verify, prune=True,
    properties=("C14", "C16")))
SET_DATA.note = "numpy expressions are opaque; the DataFrame branch and np.asarray above the block are outside the contract"


# ---- case names=[...]: the caller's names are bound to the curves in order, missing ones are blank
def sd_names_inv1(c):
    nm, nm0 = c.v("names"), c.a["names"]
    return sd_kept_names(c) + [("renumbered-flag", c.g("$renumbered")),
                               ("names-only-extended-by-blanks", z3.And(nm.n >= nm0.n,
                                forall(q, z3.Implies(z3.And(0 <= q, q < nm0.n), z3.Select(nm.cols[0], q) == z3.Select(nm0.cols[0], q))),
                                forall(q, z3.Implies(z3.And(nm0.n <= q, q < nm.n), z3.Select(nm.cols[0], q) == z3.StringVal("")))))]


def sd_kept_names(c):
    # as sd_kept, without "originals kept" (they are being replaced by the names)
    return [x for x in sd_kept(c) if x[0] != "originals-of-existing-curves-kept"]


def sd_names_bound(c, upto, names):
    v = cv(c)
    return [("curve-q-carries-name-q (blank beyond the caller's list)", forall(q, z3.Implies(z3.And(0 <= q, q < upto), z3.Select(v.orig, v.item(q)) == z3.If(
        q < c.a["names"].n, z3.Select(c.a["names"].cols[0], q), z3.StringVal("")))))]


def sd_names_inv2(c):
    nm, nm0 = c.v("names"), c.a["names"]
    return sd_kept_names(c) + sd_names_bound(c, c.i, nm) + [
        ("names-long-enough", nm.n >= cv(c).n),
        ("names-only-extended-by-blanks", z3.And(nm.n >= nm0.n,
         forall(q, z3.Implies(z3.And(0 <= q, q < nm0.n), z3.Select(nm.cols[0], q) == z3.Select(nm0.cols[0], q))),
         forall(q, z3.Implies(z3.And(nm0.n <= q, q < nm.n), z3.Select(nm.cols[0], q) == z3.StringVal(""))))),
        ("distinct-curve-objects", LI.distinct_objects(cv(c)))]


SET_DATA_NAMES = REG.add(Contract(
    "las.LASFile.set_data#after-asarray", case="names=list",
    params={"self": LAS, "data": OBJ, "names": LIST(STR), "truncate": BOOL},
    requires=lambda c: las_shape(c) + [("some-names-given", c.a["names"].n > 0), ("distinct-curve-objects", LI.distinct_objects(cv(c)))],
    ensures=lambda c: sd_kept_names(c) + [("session-names-renumbered-after-the-last-rename (assign_duplicate_suffixes reached on every path)",
                                           c.g("$renumbered"))],
    modifies=dict(NEW_FRAME, data=None, original_mnemonic=None),
    loops={0: lambda c: sd_kept(c) + [("renumbered-flag", c.g("$renumbered")), ("distinct-curve-objects", LI.distinct_objects(cv(c)))],
           1: lambda c: sd_names_inv1(c) + [("originals-of-existing-curves-kept", sd_kept(c)[-2][1]), ("distinct-curve-objects", LI.distinct_objects(cv(c)))],
           2: sd_names_inv2},
    loop_ghost={0: ["$renumbered"], 1: ["$renumbered"], 2: ["$renumbered"]},
    ghost_init=sd_init,
    hooks={"contains:.assign_duplicate_suffixes()": sd_hook_ads, "contains:.mnemonic = ": sd_hook_rename},
    use=USE, abstract_exprs=True, may_raise=["Any"], verify_with=sd_verify, prune=True,
    properties=("C14",)))
