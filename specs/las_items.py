"""Contracts for lasio/las_items.py  (C13, C15, C14, C17)."""
import z3
from pyvc.values import *
from pyvc.spec import Contract
from .common import *

p, q, kk, r_ = z3.Int("p"), z3.Int("q"), z3.Int("kk"), z3.Int("r")
HI = REF("HeaderItem")
SI = REF("SectionItems")

# ---------------------------------------------------------------- vocabulary
# The heavy obligations (WF preservation) are proved over an ABSTRACT string
# vocabulary - usefulf, keyf, suf, issuf are uninterpreted and constrained only by
# the T-str axioms below (each validated against CPython by bounded/axioms_check.py).
# Their definitions are *revealed* only to the contracts of the three small functions
# that implement them (useful_mnemonic, mnemonic_compare, assign_duplicate_suffixes).
suf = z3.Function("suf", S, I, S)            # u + ":%d" % k
issuf = z3.Function("issuf", S, S, B)        # s == u + ":%d" % k for some k >= 1
usefulf = z3.Function("usefulf", S, S)       # "UNKNOWN" if o.strip() == "" else o
keyf = z3.Function("keyf", B, S, S)          # x.upper() if transforms else x
UNKNOWN = z3.StringVal("UNKNOWN")
_u, _v, _j, _k2, _b = z3.String("ax_u"), z3.String("ax_v"), z3.Int("ax_j"), z3.Int("ax_k2"), z3.Bool("ax_b")
_w = z3.String("ax_w")
REG.axioms += [
    # definitions (revealed on request)
    ("T-str:suf-def", z3.ForAll([_u, _j], suf(_u, _j) == z3.Concat(_u, z3.StringVal(":"), fmt_d(_j)), patterns=[suf(_u, _j)]), "suf"),
    ("def:usefulf", z3.ForAll([_u], usefulf(_u) == z3.If(strip(_u) == z3.StringVal(""), UNKNOWN, _u), patterns=[usefulf(_u)]), "usefulf"),
    ("def:keyf", z3.ForAll([_b, _u], keyf(_b, _u) == z3.If(_b, upper(_u), _u), patterns=[keyf(_b, _u)]), "keyf"),
    # abstract theory (always on)
    ("T-str:suf-injective", z3.ForAll([_u, _v, _j, _k2], z3.Implies(
        z3.And(_j >= 1, _k2 >= 1, suf(_u, _j) == suf(_v, _k2)), z3.And(_u == _v, _j == _k2)),
        patterns=[z3.MultiPattern(suf(_u, _j), suf(_v, _k2))])),
    ("T-str:key-of-suf", z3.ForAll([_b, _u, _j], keyf(_b, suf(_u, _j)) == suf(keyf(_b, _u), _j), patterns=[keyf(_b, suf(_u, _j))])),
    ("T-str:issuf-intro", z3.ForAll([_u, _j], z3.Implies(_j >= 1, issuf(suf(_u, _j), _u)), patterns=[suf(_u, _j)])),
    ("T-str:issuf-key", z3.ForAll([_b, _u, _v], z3.Implies(issuf(_u, _v), issuf(keyf(_b, _u), keyf(_b, _v))),
                                  patterns=[z3.MultiPattern(issuf(_u, _v), keyf(_b, _u))])),
    ("T-str:issuf-functional", z3.ForAll([_w, _u, _v], z3.Implies(z3.And(issuf(_w, _u), issuf(_w, _v)), _u == _v),
                                         patterns=[z3.MultiPattern(issuf(_w, _u), issuf(_w, _v))])),
]


def useful(orig, r):
    return usefulf(z3.Select(orig, r))


def key(tr, x):
    return keyf(tr, x)


class View:
    """the section as the contracts see it, in the current or the entry heap"""

    def __init__(s, c, old=False, selfname="self"):
        hh = c.old if old else c.h
        s.s = c.a[selfname].t
        s.n = z3.simplify(z3.Select(hh("$len"), s.s))
        s.A = z3.simplify(z3.Select(hh("$items"), s.s))
        s.orig = hh("original_mnemonic")
        s.sess = hh("mnemonic")
        s.tr = z3.Select(hh("mnemonic_transforms"), s.s)
        s.alloc = hh("$alloc")
        s.hh = hh

    def item(s, i):
        return z3.Select(s.A, i)

    def sess_at(s, i):
        return z3.Select(s.sess, s.item(i))

    def U_at(s, i):
        return useful(s.orig, s.item(i))

    def cmp(s, a, b):
        return key(s.tr, a) == key(s.tr, b)

    def inrange(s, i):
        return z3.And(0 <= i, i < s.n)


def shape(c, old=False, selfname="self"):
    v = View(c, old, selfname)
    return [
        ("len>=0", v.n >= 0),
        ("self-allocated", z3.Select(v.alloc, v.s)),
        ("items-allocated", forall(p, z3.Implies(v.inrange(p), z3.And(z3.Select(v.alloc, v.item(p)), v.item(p) != v.s)))),
    ]


def distinct_objects(v):
    return forall([p, q], z3.Implies(z3.And(v.inrange(p), v.inrange(q), p != q), v.item(p) != v.item(q)))


def wf(v):
    """C13 representation invariant"""
    return [
        ("distinct-objects", distinct_objects(v)),
        ("session-is-useful-or-suffixed", forall(p, z3.Implies(v.inrange(p), z3.Or(
            v.sess_at(p) == v.U_at(p), issuf(v.sess_at(p), v.U_at(p)))))),
        ("session-names-pairwise-distinct", forall([p, q], z3.Implies(
            z3.And(v.inrange(p), v.inrange(q), p != q), key(v.tr, v.sess_at(p)) != key(v.tr, v.sess_at(q))))),
    ]


def noclash(v, extra_u=None):
    """no useful mnemonic in the section (nor the incoming one) is itself of the
    form <text>:<k>, k >= 1.  Its negation is the class of the known finding
    'A, A, A:1' (a name that collides with a generated suffix)."""
    w = z3.String("w")
    member = z3.Exists([p], z3.And(v.inrange(p), v.item(p) == r_))
    cl = [z3.ForAll([r_, w], z3.Implies(member, z3.Not(issuf(key(v.tr, useful(v.orig, r_)), w))),
                    patterns=[z3.MultiPattern(z3.Select(v.orig, r_), issuf(key(v.tr, useful(v.orig, r_)), w))])]
    if extra_u is not None:
        cl.append(z3.ForAll([w], z3.Not(issuf(key(v.tr, extra_u), w)), patterns=[issuf(key(v.tr, extra_u), w)]))
    return z3.And(cl)


# group rank: number of positions q < p whose useful mnemonic matches `t`
grank = z3.Function("grank", z3.ArraySort(I, I), z3.ArraySort(I, S), B, S, I, I)


def in_group(A, orig, tr, t, i):
    return key(tr, useful(orig, z3.Select(A, i))) == key(tr, t)


def grank_axioms(A, orig, tr, t):
    # patterns may not contain ite/store-heavy terms: name the arrays
    Ac = z3.Const(fresh_name("A_named"), A.sort())
    oc = z3.Const(fresh_name("orig_named"), orig.sort())
    g = lambda i: grank(Ac, oc, tr, t, i)
    return [Ac == A, oc == orig, g(0) == 0,
            z3.ForAll([p], z3.Implies(p >= 0, g(p + 1) == g(p) + z3.If(in_group(Ac, oc, tr, t, p), 1, 0)), patterns=[g(p + 1)]),
            z3.ForAll([p], z3.Implies(p >= 0, g(p) >= 0), patterns=[g(p)])]


# ---------------------------------------------------------------- HeaderItem
def only_self(c, r):
    return r == c.a["self"].t


HI_FIELDS = ["original_mnemonic", "mnemonic", "unit", "value", "descr", "data"]

REG.add(Contract(
    "las_items.HeaderItem.useful_mnemonic", params={"self": HI},
    ensures=lambda c: [("useful", c.res.t == useful(c.h("original_mnemonic"), c.a["self"].t))],
    returns=STR, properties=("C13", "C17"), noraise=True, reveal=("usefulf",)))

REG.add(Contract("las_items.HeaderItem.set_session_mnemonic_only", params={"self": HI, "value": STR}, inline=True))
REG.add(Contract("las_items.HeaderItem.__setattr__", params={"self": HI, "key": STR, "value": "any"}, inline=True))


def hi_init_post(c):
    s = c.a["self"].t
    return [
        ("original", z3.Select(c.h("original_mnemonic"), s) == c.a["mnemonic"].t),
        ("session=useful", z3.Select(c.h("mnemonic"), s) == useful(c.h("original_mnemonic"), s)),
        ("unit", z3.Select(c.h("unit"), s) == c.a["unit"].t),
        ("value", z3.Select(c.h("value"), s) == c.a["value"].t),
        ("descr", z3.Select(c.h("descr"), s) == c.a["descr"].t),
    ]


HI_INIT = REG.add(Contract(
    "las_items.HeaderItem.__init__",
    params={"self": HI, "mnemonic": STR, "unit": OBJ, "value": OBJ, "descr": OBJ, "data": OBJ},
    ensures=lambda c: hi_init_post(c) + [("data", z3.Select(c.h("data"), c.a["self"].t) == c.a["data"].t)],
    modifies={f: only_self for f in HI_FIELDS},
    properties=("C13", "C17"), noraise=True))

CI_INIT = REG.add(Contract(
    "las_items.CurveItem.__init__",
    params={"self": REF("CurveItem"), "mnemonic": STR, "unit": OBJ, "value": OBJ, "descr": OBJ, "data": OBJ},
    ensures=hi_init_post,
    modifies={f: only_self for f in HI_FIELDS},
    properties=("C13", "C14", "C17")))

# ---------------------------------------------------------------- mnemonic_compare
MC_SS = REG.add(Contract(
    "las_items.SectionItems.mnemonic_compare", case="str,str",
    params={"self": SI, "one": STR, "two": STR},
    ensures=lambda c: [("result", c.res.t == View(c).cmp(c.a["one"].t, c.a["two"].t))],
    returns=BOOL, properties=("C13", "C15"), noraise=True, reveal=("keyf",)))

for _case, _one, _two in (("int,str", INT, STR), ("str,int", STR, INT), ("item,str", HI, STR), ("str,item", STR, HI)):
    REG.add(Contract(
        "las_items.SectionItems.mnemonic_compare", case=_case,
        params={"self": SI, "one": _one, "two": _two},
        ensures=lambda c: [("never-equal", z3.Not(c.res.t))],
        returns=BOOL, properties=("C15", "C07", "C14"), noraise=True))


# ---------------------------------------------------------------- __contains__
def contains_inv(test_of):
    def inv(c):
        v = View(c)
        return [("no-match-so-far", forall(p, z3.Implies(z3.And(0 <= p, p < c.i), z3.Not(v.cmp(test_of(c), v.sess_at(p))))))]
    return inv


def contains_post(test_of):
    def post(c):
        v = View(c)
        ex = z3.Exists([p], z3.And(v.inrange(p), v.cmp(test_of(c), v.sess_at(p))))
        return [("true-iff-some-session-name-matches", c.res.t == ex)]
    return post


CONT_S = REG.add(Contract(
    "las_items.SectionItems.__contains__", case="str", params={"self": SI, "testitem": STR},
    requires=shape, ensures=contains_post(lambda c: c.a["testitem"].t),
    loops={0: contains_inv(lambda c: c.a["testitem"].t)}, returns=BOOL, properties=("C15", "C13", "C19"), noraise=True))

CONT_I = REG.add(Contract(
    "las_items.SectionItems.__contains__", case="item", params={"self": SI, "testitem": HI},
    requires=shape,
    ensures=contains_post(lambda c: z3.Select(c.h("mnemonic"), c.a["testitem"].t)),
    loops={0: contains_inv(lambda c: z3.Select(c.h("mnemonic"), c.a["testitem"].t))},
    returns=BOOL, properties=("C15",), noraise=True))

CONT_N = REG.add(Contract(
    "las_items.SectionItems.__contains__", case="int", params={"self": SI, "testitem": INT},
    requires=shape, ensures=lambda c: [("ints-are-never-members", z3.Not(c.res.t))],
    loops={0: lambda c: []}, returns=BOOL, properties=("C15",), noraise=True))


# ---------------------------------------------------------------- __getitem__
def nomatch(v, k):
    return forall(p, z3.Implies(v.inrange(p), z3.Not(v.cmp(v.sess_at(p), k))))


def first_match(v, k, i):
    return z3.And(v.inrange(i), v.cmp(v.sess_at(i), k),
                  forall(q, z3.Implies(z3.And(0 <= q, q < i), z3.Not(v.cmp(v.sess_at(q), k)))))


def seq_unchanged(c):
    return [("section-unchanged-so-far", z3.And(c.h("$len") == c.old("$len"), c.h("$items") == c.old("$items")))]


def delitem_inv(c):
    return getitem_inv(c) + seq_unchanged(c)


def getitem_inv(c):
    v = View(c)
    return [("no-match-so-far", forall(p, z3.Implies(z3.And(0 <= p, p < c.i), z3.Not(v.cmp(v.sess_at(p), c.a["key"].t)))))]


GET_S = REG.add(Contract(
    "las_items.SectionItems.__getitem__", case="str", params={"self": SI, "key": STR},
    requires=shape,
    raises=[("KeyError", lambda c: nomatch(View(c), c.a["key"].t))],
    ensures=lambda c: [("first-item-whose-session-name-matches",
                        z3.Exists([kk], z3.And(first_match(View(c), c.a["key"].t, kk), c.res.t == View(c).item(kk))))],
    loops={0: getitem_inv}, returns=HI, properties=("C15", "C13", "C14")))


def norm_index(n, i):
    return z3.If(i < 0, n + i, i)


def out_of_range(c):
    v = View(c)
    return z3.Or(c.a["key"].t >= v.n, c.a["key"].t < -v.n)


GET_N = REG.add(Contract(
    "las_items.SectionItems.__getitem__", case="int", params={"self": SI, "key": INT},
    requires=shape,
    raises=[("IndexError", out_of_range)],
    ensures=lambda c: [("list-position", c.res.t == View(c).item(norm_index(View(c).n, c.a["key"].t)))],
    loops={0: lambda c: []}, returns=HI, properties=("C15", "C14", "C13", "C07")))


# ---------------------------------------------------------------- __delitem__
def removed_at(vnew, vold, i):
    return z3.And(vnew.n == vold.n - 1,
                  forall(q, z3.Implies(z3.And(0 <= q, q < i), vnew.item(q) == vold.item(q))),
                  forall(q, z3.Implies(z3.And(i <= q, q < vold.n - 1), vnew.item(q) == vold.item(q + 1))))


SEQ_FRAME = {"$len": only_self, "$items": only_self}

DEL_S = REG.add(Contract(
    "las_items.SectionItems.__delitem__", case="str", params={"self": SI, "key": STR},
    requires=shape,
    raises=[("KeyError", lambda c: nomatch(View(c), c.a["key"].t))],
    ensures=lambda c: [("removes-exactly-the-first-match-keeps-order",
                        z3.Exists([kk], z3.And(first_match(View(c, old=True), c.a["key"].t, kk),
                                               removed_at(View(c), View(c, old=True), kk))))],
    modifies=SEQ_FRAME, loops={0: delitem_inv}, properties=("C15", "C13")))

DEL_N = REG.add(Contract(
    "las_items.SectionItems.__delitem__", case="int", params={"self": SI, "key": INT},
    requires=shape,
    raises=[("IndexError", out_of_range)],
    ensures=lambda c: [("removes-that-position-keeps-order",
                        removed_at(View(c), View(c, old=True), norm_index(View(c, old=True).n, c.a["key"].t)))],
    modifies=SEQ_FRAME, loops={0: seq_unchanged}, properties=("C15", "C14")))


# ---------------------------------------------------------------- assign_duplicate_suffixes
def ads_ctx(c, old=False):
    v = View(c, old)
    t = c.a["test_mnemonic"].t
    g = lambda i: grank(v.A, v.orig, v.tr, t, i)
    ing = lambda i: in_group(v.A, v.orig, v.tr, t, i)
    return v, t, g, ing


def ads_init(c, st):
    v, t, g, ing = ads_ctx(c)
    for a in grank_axioms(v.A, v.orig, v.tr, t):
        st.assume(a)


def ads_loop0(c):
    v, t, g, ing = ads_ctx(c)
    loc = c.v("locations")
    i = c.i
    return [
        ("count", loc.n == g(i)),
        ("locations-are-group-members-in-order", forall(q, z3.Implies(z3.And(0 <= q, q < loc.n), z3.And(
            0 <= z3.Select(loc.cols[0], q), z3.Select(loc.cols[0], q) < i, ing(z3.Select(loc.cols[0], q)),
            g(z3.Select(loc.cols[0], q)) == q)))),
        ("every-member-located", forall(p, z3.Implies(z3.And(0 <= p, p < i, ing(p)), z3.And(
            g(p) < loc.n, z3.Select(loc.cols[0], g(p)) == p)))),
        ("heap-untouched", z3.And(c.h("mnemonic") == c.old("mnemonic"))),
    ]


def ads_loop1(c):
    v, t, g, ing = ads_ctx(c)
    v0 = View(c, old=True)
    loc = c.v("locations")
    i = c.i
    L = lambda x: z3.Select(loc.cols[0], x)
    return [
        ("locations-kept", z3.And(loc.n == g(v.n), loc.n > 1)),
        ("locations-are-group-members-in-order", forall(q, z3.Implies(z3.And(0 <= q, q < loc.n), z3.And(
            0 <= L(q), L(q) < v.n, ing(L(q)), g(L(q)) == q)))),
        ("every-member-located", forall(p, z3.Implies(z3.And(0 <= p, p < v.n, ing(p)), z3.And(
            g(p) < loc.n, L(g(p)) == p)))),
        ("renamed-so-far", forall(q, z3.Implies(z3.And(0 <= q, q < i), v.sess_at(L(q)) == suf(v.U_at(L(q)), q + 1)))),
        ("others-untouched", forall(r_, z3.Implies(
            z3.Not(z3.Exists([q], z3.And(0 <= q, q < i, v.item(L(q)) == r_))),
            z3.Select(v.sess, r_) == z3.Select(v0.sess, r_)))),
    ]


def ads_post(c):
    v, t, g, ing = ads_ctx(c)
    v0 = View(c, old=True)
    many = g(v.n) > 1
    return [
        ("group-numbered-1..n-in-section-order", z3.Implies(many, forall(p, z3.Implies(
            z3.And(v.inrange(p), ing(p)), v.sess_at(p) == suf(v.U_at(p), g(p) + 1))))),
        ("non-members-untouched", forall(r_, z3.Implies(
            z3.Not(z3.Exists([p], z3.And(v.inrange(p), ing(p), v.item(p) == r_))),
            z3.Select(v.sess, r_) == z3.Select(v0.sess, r_)))),
        ("unique-names-untouched", z3.Implies(z3.Not(many), v.sess == v0.sess)),
        ("ranks-below-count", forall(p, z3.Implies(z3.And(v.inrange(p), ing(p)), z3.And(0 <= g(p), g(p) < g(v.n))))),
        ("ranks-distinct", forall([p, q], z3.Implies(z3.And(v.inrange(p), v.inrange(q), ing(p), ing(q), g(p) == g(q)), p == q))),
    ]


def group_region(c, r):
    v, t, g, ing = ads_ctx(c)
    return z3.Exists([p], z3.And(v.inrange(p), ing(p), v.item(p) == r))


ADS = REG.add(Contract(
    "las_items.SectionItems.assign_duplicate_suffixes", case="str",
    params={"self": SI, "test_mnemonic": STR},
    requires=lambda c: shape(c) + [("distinct-objects", distinct_objects(View(c)))],
    ensures=ads_post,
    modifies={"mnemonic": group_region},
    loops={1: ads_loop0, 2: ads_loop1},
    ghost_init=ads_init,
    local_types={"locations": LIST(INT)},
    properties=("C13",), noraise=True, reveal=("suf",),
    post_hook=lambda c, st: [st.assume(a) for a in grank_axioms(View(c).A, View(c).orig, View(c).tr, c.a["test_mnemonic"].t)],
))


# ---------------------------------------------------------------- append / insert
def appended(vnew, vold, x):
    return z3.And(vnew.n == vold.n + 1, vnew.item(vold.n) == x,
                  forall(q, z3.Implies(z3.And(0 <= q, q < vold.n), vnew.item(q) == vold.item(q))))


def insert_index(n, i):
    return z3.If(i < 0, z3.If(n + i < 0, 0, n + i), z3.If(i > n, n, i))


def inserted(vnew, vold, idx, x):
    return z3.And(vnew.n == vold.n + 1, vnew.item(idx) == x,
                  forall(q, z3.Implies(z3.And(0 <= q, q < idx), vnew.item(q) == vold.item(q))),
                  forall(q, z3.Implies(z3.And(idx < q, q <= vold.n), vnew.item(q) == vold.item(q - 1))))


def new_item_pre(c):
    v = View(c)
    x = c.a["newitem"].t
    return [
        ("new-item-allocated", z3.And(z3.Select(v.alloc, x), x != v.s)),
        ("new-item-not-already-in-section", forall(p, z3.Implies(v.inrange(p), v.item(p) != x))),
        ("new-item-session-is-useful-or-suffixed", z3.Or(
            z3.Select(v.sess, x) == useful(v.orig, x), issuf(z3.Select(v.sess, x), useful(v.orig, x)))),
    ]


def mutator_pre(c):
    v = View(c)
    return shape(c) + wf(v) + new_item_pre(c) + [("NoClash", noclash(v, useful(v.orig, c.a["newitem"].t)))]


def wf_lemmas(c):
    """cut lemmas (proved like any other clause, then usable by the WF clauses)"""
    v, v0 = View(c), View(c, old=True)
    x = c.a["newitem"].t
    t = useful(v.orig, x)
    g = lambda i: grank(v.A, v.orig, v.tr, t, i)
    ing = lambda i: in_group(v.A, v.orig, v.tr, t, i)
    many = g(v.n) > 1
    keyform = lambda i: z3.Or(key(v.tr, v.sess_at(i)) == key(v.tr, v.U_at(i)),
                              issuf(key(v.tr, v.sess_at(i)), key(v.tr, v.U_at(i))))
    return [
        ("lemma:new-item-is-a-member", z3.Exists([p], z3.And(v.inrange(p), v.item(p) == x, ing(p)))),
        ("lemma:objects-distinct", distinct_objects(v)),
        ("lemma:member-keys", z3.Implies(many, forall(p, z3.Implies(
            z3.And(v.inrange(p), ing(p)), key(v.tr, v.sess_at(p)) == suf(key(v.tr, t), g(p) + 1))))),
        ("lemma:non-member-session-unchanged", forall(p, z3.Implies(
            z3.And(v.inrange(p), z3.Not(ing(p))), z3.Select(v.sess, v.item(p)) == z3.Select(v0.sess, v.item(p))))),
        ("lemma:key-form", forall(p, z3.Implies(v.inrange(p), keyform(p)))),
        ("lemma:noclash-holds-for-the-new-section", noclash(v)),
        ("lemma:members-pairwise-distinct", forall([p, q], z3.Implies(
            z3.And(v.inrange(p), v.inrange(q), p != q, ing(p), ing(q)),
            key(v.tr, v.sess_at(p)) != key(v.tr, v.sess_at(q))))),
        ("lemma:member-vs-non-member", forall([p, q], z3.Implies(
            z3.And(v.inrange(p), v.inrange(q), ing(p), z3.Not(ing(q))),
            key(v.tr, v.sess_at(p)) != key(v.tr, v.sess_at(q))))),
        ("lemma:non-members-pairwise-distinct", forall([p, q], z3.Implies(
            z3.And(v.inrange(p), v.inrange(q), p != q, z3.Not(ing(p)), z3.Not(ing(q))),
            key(v.tr, v.sess_at(p)) != key(v.tr, v.sess_at(q))))),
    ]


def mutator_post_wf(c):
    return wf_lemmas(c) + [("WF:" + nm, f) for nm, f in wf(View(c))] + [
        ("originals-never-altered", c.h("original_mnemonic") == c.old("original_mnemonic"))]


def numbered_post(c):
    """items sharing the new item's name are numbered :1..:n in section order"""
    v = View(c)
    t = useful(v.orig, c.a["newitem"].t)
    g = lambda i: grank(v.A, v.orig, v.tr, t, i)
    ing = lambda i: in_group(v.A, v.orig, v.tr, t, i)
    return [("sharing-items-numbered-in-section-order", z3.Implies(g(v.n) > 1, forall(p, z3.Implies(
        z3.And(v.inrange(p), ing(p)), v.sess_at(p) == suf(v.U_at(p), g(p) + 1)))))]


def group_of_new(c, r):
    v = View(c)
    t = useful(v.orig, c.a["newitem"].t)
    return z3.Or(r == c.a["newitem"].t,
                 z3.Exists([p], z3.And(v.inrange(p), in_group(v.A, v.orig, v.tr, t, p), v.item(p) == r)))


APPEND = REG.add(Contract(
    "las_items.SectionItems.append", params={"self": SI, "newitem": HI},
    requires=mutator_pre,
    ensures=lambda c: [("appended-at-end", appended(View(c), View(c, old=True), c.a["newitem"].t))]
    + mutator_post_wf(c) + numbered_post(c),
    modifies=dict(SEQ_FRAME, mnemonic=group_of_new),
    properties=("C13", "C14", "C15"), noraise=True))

INSERT = REG.add(Contract(
    "las_items.SectionItems.insert", params={"self": SI, "i": INT, "newitem": HI},
    requires=mutator_pre,
    ensures=lambda c: [("inserted-at-list-position", inserted(
        View(c), View(c, old=True), insert_index(View(c, old=True).n, c.a["i"].t), c.a["newitem"].t))]
    + mutator_post_wf(c) + numbered_post(c),
    modifies=dict(SEQ_FRAME, mnemonic=group_of_new),
    properties=("C13", "C14"), noraise=True))


# ---------------------------------------------------------------- set_item / set_item_value / __setitem__
def replaced_at(vnew, vold, i, x):
    return z3.And(vnew.n == vold.n, vnew.item(i) == x,
                  forall(q, z3.Implies(z3.And(vold.inrange(q), q != i), vnew.item(q) == vold.item(q))))


def set_item_inv(c):
    v = View(c)
    return [("no-match-so-far", forall(p, z3.Implies(z3.And(0 <= p, p < c.i), z3.Not(v.cmp(c.a["key"].t, v.sess_at(p)))))),
            ("heap-unchanged-so-far", z3.And(c.h("$len") == c.old("$len"), c.h("$items") == c.old("$items"),
                                             c.h("mnemonic") == c.old("mnemonic")))]


def set_item_post(c):
    v, v0 = View(c), View(c, old=True)
    k, x = c.a["key"].t, c.a["newitem"].t
    return [("present:replaces-the-first-match", z3.Implies(z3.Not(nomatch(v0, k)),
                                                          exists_hint(c, kk, lambda w: z3.And(first_match(v0, k, w), replaced_at(v, v0, w, x)), ("i",)))),
            ("absent:appends", z3.Implies(nomatch(v0, k), appended(v, v0, x)))] + mutator_post_wf(c) + numbered_post(c)


SET_ITEM = REG.add(Contract(
    "las_items.SectionItems.set_item", params={"self": SI, "key": STR, "newitem": HI},
    requires=mutator_pre, ensures=set_item_post,
    modifies=dict(SEQ_FRAME, mnemonic=group_of_new), loops={0: set_item_inv},
    properties=("C13", "C15"), noraise=True))


def only_first_match(c, r):
    v = View(c)
    return z3.Exists([kk], z3.And(first_match(v, c.a["key"].t, kk), v.item(kk) == r))


SET_VALUE = REG.add(Contract(
    "las_items.SectionItems.set_item_value", params={"self": SI, "key": STR, "value": OBJ},
    requires=shape,
    raises=[("KeyError", lambda c: nomatch(View(c), c.a["key"].t))],
    ensures=lambda c: [("value-of-first-match-set", z3.Exists([kk], z3.And(
        first_match(View(c, old=True), c.a["key"].t, kk),
        z3.Select(c.h("value"), View(c).item(kk)) == c.a["value"].t)))],
    modifies={"value": only_first_match},
    properties=("C15",)))

SETITEM_ITEM = REG.add(Contract(
    "las_items.SectionItems.__setitem__", case="item", params={"self": SI, "key": STR, "newitem": HI},
    requires=mutator_pre, ensures=set_item_post,
    modifies=dict(SEQ_FRAME, mnemonic=group_of_new), properties=("C13", "C15"), noraise=True))

SETITEM_VAL = REG.add(Contract(
    "las_items.SectionItems.__setitem__", case="value", params={"self": SI, "key": STR, "newitem": STR},
    requires=shape,
    raises=[("KeyError", lambda c: nomatch(View(c), c.a["key"].t))],
    ensures=lambda c: [("only-that-items-value-changes", z3.Exists([kk], z3.And(
        first_match(View(c, old=True), c.a["key"].t, kk),
        z3.Select(c.h("value"), View(c).item(kk)) == obj_of_str(c.a["newitem"].t))))],
    modifies={"value": only_first_match}, properties=("C15",)))

# ---------------------------------------------------------------- __getattr__ / keys / get
GETATTR = REG.add(Contract(
    "las_items.SectionItems.__getattr__", params={"self": SI, "key": STR},
    requires=shape,
    raises=[("AttributeError", lambda c: z3.Or(c.a["key"].t == z3.StringVal("mnemonic_transforms"),
                                              nomatch(View(c), c.a["key"].t)))],
    ensures=lambda c: [("same-item-as-item-access",
                        z3.Exists([kk], z3.And(first_match(View(c), c.a["key"].t, kk), c.res.t == View(c).item(kk))))],
    returns=HI, properties=("C15",)))

KEYS = REG.add(Contract(
    "las_items.SectionItems.keys", params={"self": SI},
    requires=shape,
    ensures=lambda c: [("length", c.res.n == View(c).n),
                       ("session-names-in-order", forall(p, z3.Implies(View(c).inrange(p),
                                                                        z3.Select(c.res.cols[0], p) == View(c).sess_at(p))))],
    returns=LIST(STR), properties=("C14", "C15"), noraise=True))


def get_post(c):
    v, v0 = View(c), View(c, old=True)
    k = c.a["mnemonic"].t
    found = z3.Exists([kk], z3.And(first_match(v0, k, kk), c.res.t == v0.item(kk)))
    return [
        ("present:returns-first-match", z3.Implies(z3.Not(nomatch(v0, k)), found)),
        ("present:section-unchanged", z3.Implies(z3.Not(nomatch(v0, k)), z3.And(v.n == v0.n, v.A == v0.A))),
        ("absent:new-item-carries-the-key", z3.Implies(nomatch(v0, k), z3.And(
            z3.Not(z3.Select(v0.alloc, c.res.t)), z3.Select(v.orig, c.res.t) == k))),
    ]


def get_ghost(c, st):
    st.ghost["$mutated"] = z3.K(PyObj, z3.BoolVal(False))
    st.ghost["$mutated_key"] = z3.Const("mut_key0", z3.ArraySort(PyObj, PyObj))
    st.ghost["$mutated_val"] = z3.Const("mut_val0", z3.ArraySort(PyObj, PyObj))


def nothing_updated_in_place(c):
    o = z3.Const("any_obj", PyObj)
    return [("no-array-or-other-object-is-updated-in-place (the placeholder data is a new array)",
             z3.ForAll([o], z3.Not(z3.Select(c.g("$mutated"), o))))]


GET_NOADD = REG.add(Contract(
    "las_items.SectionItems.get", case="str-default,add=False",
    params={"self": SI, "mnemonic": STR, "default": STR, "add": CONST(False)},
    requires=shape,
    ensures=lambda c: get_post(c) + [("without-add-the-section-never-changes", z3.And(View(c).n == View(c, old=True).n,
                                                                                    View(c).A == View(c, old=True).A))] + nothing_updated_in_place(c),
    ghost_init=get_ghost, returns=HI, properties=("C15",), may_raise=[]))

GET_ADD = REG.add(Contract(
    "las_items.SectionItems.get", case="str-default,add=True",
    params={"self": SI, "mnemonic": STR, "default": STR, "add": CONST(True)},
    requires=lambda c: shape(c) + wf(View(c)) + [("NoClash", noclash(View(c), usefulf(c.a["mnemonic"].t)))],
    ensures=lambda c: get_post(c) + [("absent:appends-exactly-one-item", z3.Implies(
        nomatch(View(c, old=True), c.a["mnemonic"].t), appended(View(c), View(c, old=True), c.res.t)))] + nothing_updated_in_place(c),
    modifies=dict(SEQ_FRAME, mnemonic=None), ghost_init=get_ghost,
    returns=HI, properties=("C15",)))


# ---------------------------------------------------------------- __reduce__ (C17)
def reduce_post(c):
    s = c.a["self"].t
    r = c.res
    if not (isinstance(r, VTuple) and len(r.items) == 3 and isinstance(r.items[1], VTuple) and len(r.items[1].items) == 5
            and isinstance(r.items[2], VDict) and "mnemonic" in r.items[2].d):
        return [("reduce-value-has-the-shape (cls, (5 constructor args), {'mnemonic': session})", z3.BoolVal(False))]
    args, state = r.items[1].items, r.items[2].d
    E = c.eng
    return [
        ("class-of-the-object", r.items[0].tag == z3.Select(c.h("$cls"), s)) if isinstance(r.items[0], VType) else ("class-of-the-object", z3.BoolVal(False)),
        ("constructor-gets-the-ORIGINAL-mnemonic", E.to_obj(args[0]) == obj_of_str(z3.Select(c.h("original_mnemonic"), s))),
        ("constructor-gets-unit", E.to_obj(args[1]) == z3.Select(c.h("unit"), s)),
        ("constructor-gets-value", E.to_obj(args[2]) == z3.Select(c.h("value"), s)),
        ("constructor-gets-descr", E.to_obj(args[3]) == z3.Select(c.h("descr"), s)),
        ("constructor-gets-data", E.to_obj(args[4]) == z3.Select(c.h("data"), s)),
        ("state-restores-the-session-mnemonic", E.to_obj(state["mnemonic"]) == obj_of_str(z3.Select(c.h("mnemonic"), s))),
    ]


REDUCE = REG.add(Contract(
    "las_items.HeaderItem.__reduce__", params={"self": HI}, ensures=reduce_post,
    properties=("C17", "C13", "C03", "C11"), noraise=True))


# get() with an ITEM as default (C15: "get() without add=True never changes the section" - nor the default it was given)
def get_item_default_post(c):
    v, v0 = View(c), View(c, old=True)
    k = c.a["mnemonic"].t
    return get_post(c) + [
        ("without-add-the-section-never-changes", z3.And(v.n == v0.n, v.A == v0.A)),
        ("absent:the-result-is-a-new-item-not-the-default-itself", z3.Implies(nomatch(v0, k), c.res.t != c.a["default"].t)),
    ] + nothing_updated_in_place(c)


GET_ITEMDEF = REG.add(Contract(
    "las_items.SectionItems.get", case="item-default,add=False",
    params={"self": SI, "mnemonic": STR, "default": HI, "add": CONST(False)},
    requires=lambda c: shape(c) + [("default-is-an-existing-item", z3.And(z3.Select(c.h("$alloc"), c.a["default"].t), c.a["default"].t != c.a["self"].t))],
    ensures=get_item_default_post, ghost_init=get_ghost, returns=HI, properties=("C15",), may_raise=["Any"]))
GET_ITEMDEF.note = "np.array(default.data) for a CurveItem default is an opaque numpy call that may raise"


# ---------------------------------------------------------------- __setattr__ with an item: `section.NAME = HeaderItem(...)` (C13, C15)
class _ValueAsNewitem:
    """the parameter is called `value` here; the shared mutator clauses speak of `newitem`"""
    def __init__(s, c):
        s.__dict__.update(c.__dict__)
        s.a = dict(c.a); s.a["newitem"] = c.a["value"]
        s._c = c

    def h(s, f): return s._c.h(f)
    def old(s, f): return s._c.old(f)
    def g(s, f): return s._c.g(f)
    def v(s, f): return s._c.v(f)


SETATTR_ITEM = REG.add(Contract(
    "las_items.SectionItems.__setattr__", case="item", params={"self": SI, "key": STR, "value": HI},
    requires=lambda c: mutator_pre(_ValueAsNewitem(c)),
    raises=[("AssertionError", lambda c: z3.And(nomatch(View(c), c.a["key"].t), z3.Select(View(c).sess, c.a["value"].t) != c.a["key"].t))],
    ensures=lambda c: set_item_post(_ValueAsNewitem(c)),
    modifies=dict(SEQ_FRAME, mnemonic=lambda c, r: group_of_new(_ValueAsNewitem(c), r)),
    properties=("C13", "C15")))
