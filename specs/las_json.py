"""C18 (part): JSONEncoder.default for the scalar types the reader puts into header
values; index-unit helper of the depth views."""
import z3
from pyvc.values import *
from pyvc.spec import Contract
from .common import *

is_npint = z3.Function("py_isinstance_np_integer", PyObj, B)
is_npflt = z3.Function("py_isinstance_np_floating", PyObj, B)
is_las = z3.Function("py_isinstance_LASFile", PyObj, B)
int_of = z3.Function("py_int_of", PyObj, I)
float_of = z3.Function("py_float", PyObj, PyObj)


def default_post(c):
    o = c.a["obj"].t
    r = c.res
    if isinstance(r, VInt):
        return [("numpy-integers-become-ints", z3.And(is_npint(o), r.t == int_of(o)))]
    if isinstance(r, VObj):
        return [("numpy-floats-become-floats", z3.And(z3.Not(is_npint(o)), is_npflt(o), r.t == float_of(o)))]
    return [("anything-else-falls-through-to-null", z3.And(z3.Not(is_npint(o)), z3.Not(is_npflt(o))))]


REG.add(Contract(
    "las.JSONEncoder.default", case="scalar", params={"self": OBJ, "obj": OBJ},
    requires=lambda c: [("not-a-LASFile", z3.Not(is_las(c.a["obj"].t)))],
    ensures=default_post, prune=True, properties=("C18",), noraise=True))


# ---------------------------------------------------------------- depth_m / depth_ft
from . import las_api as API
from . import las_write_state as WS      # declares LASFile.index_unit
iuc = z3.Function("index_unit_contains", PyObj, S, B)
mul = z3.Function("py_binop_Mult", PyObj, PyObj, PyObj)
div = z3.Function("py_binop_Div", PyObj, PyObj, PyObj)


def const_obj(x):
    import hashlib
    return z3.Const("const_%s" % hashlib.sha1(repr(x).encode()).hexdigest()[:10], PyObj)


C3048, C120 = const_obj(0.3048), obj_of_int(z3.IntVal(120))

REG.add(Contract(
    "las.LASFile._index_unit_contains", params={"self": API.LAS, "unit_code": STR}, returns=OBJ, assumed=True, noraise=True,
    ensures=lambda c: [("truth", truthy(c.res.t) == iuc(z3.Select(c.h("index_unit"), c.a["self"].t), c.a["unit_code"].t))],
    note="_index_unit_contains(code) is truthy iff index_unit is set and contains code ignoring case (one-line body: "
         "`self.index_unit and (code.upper() in self.index_unit.upper())`, operates on an opaque str-or-None)",
    properties=("C18",)))


def unit_of(c):
    return z3.Select(c.h("index_unit"), c.a["self"].t)


def index_of(c):
    return z3.Select(c.h("data"), API.cv(c).item(0))


def depth_post(which):
    def post(c):
        u, ix = unit_of(c), index_of(c)
        M, F, IN = iuc(u, z3.StringVal("M")), iuc(u, z3.StringVal("F")), iuc(u, z3.StringVal(".1IN"))
        if which == "m":
            val = z3.If(M, ix, z3.If(F, mul(ix, C3048), mul(div(ix, C120), C3048)))
        else:
            val = z3.If(M, div(ix, C3048), z3.If(F, ix, div(ix, C120)))
        return [("value-by-unit-branch", c.res.t == val)]
    return post


def no_unit(c):
    u = unit_of(c)
    return z3.And(z3.Not(iuc(u, z3.StringVal("M"))), z3.Not(iuc(u, z3.StringVal("F"))), z3.Not(iuc(u, z3.StringVal(".1IN"))))


for _w in ("m", "ft"):
    REG.add(Contract(
        "las.LASFile.depth_" + _w, params={"self": API.LAS}, requires=lambda c: API.las_shape(c) + [("has-an-index-curve", API.cv(c).n > 0)],
        raises=[("LASUnknownUnitError", no_unit)], ensures=depth_post(_w), returns=OBJ, properties=("C18",)))


# ---------------------------------------------------------------- to_csv: which header rows are written (C18)
# Block: the statements of LASFile.to_csv from `if mnemonics is True:` up to (not including) the data loop `for i in range(...)`.
# csv.writer is opaque; a hook on every simple statement containing `writer.writerow(` evaluates the argument and records whether it
# is the (current) `mnemonics` or `units` object.  Contract: the mnemonic row is written exactly when `mnemonics` is not falsy, the
# unit row exactly when `units` is not falsy and units_loc == "line", the mnemonic row first, and nothing else is written.
from pyvc import blocks as _BL
import ast as _ast3


def csv_init(c, st):
    st.ghost["$rows_m"] = z3.IntVal(0)
    st.ghost["$rows_u"] = z3.IntVal(0)
    st.ghost["$rows_x"] = z3.IntVal(0)
    st.ghost["$u_before_m"] = z3.BoolVal(False)


def csv_hook(c, st):
    n = getattr(st, "hook_node", None)
    call = getattr(n, "value", None)
    which = None
    if isinstance(call, _ast3.Call) and len(call.args) == 1:
        out = []
        rs = c.eng.ev(call.args[0], st, out)
        if len(rs) == 1 and not out:
            v = rs[0][1]
            if v is st.env.get("mnemonics"):
                which = "m"
            elif v is st.env.get("units"):
                which = "u"
    if which == "m":
        st.ghost["$u_before_m"] = z3.Or(st.ghost["$u_before_m"], st.ghost["$rows_u"] > 0)
        st.ghost["$rows_m"] = st.ghost["$rows_m"] + 1
    elif which == "u":
        st.ghost["$rows_u"] = st.ghost["$rows_u"] + 1
    else:
        st.ghost["$rows_x"] = st.ghost["$rows_x"] + 1


def csv_verify(E, c):
    # everything from `if mnemonics is True:` up to (not including) the data loop `for i in range(...)`, however many statements
    # that is - the header rows are whatever is written before the first data row
    from pyvc.state import OutOfSubset
    fn = E.funcs["las.LASFile.to_csv"]
    found = []

    def visit(stmts):
        txt = [(_ast3.get_source_segment(E.src["las"], s) or "").strip() for s in stmts]
        for i, t in enumerate(txt):
            if t.startswith("if mnemonics is True:"):
                for j in range(i, len(stmts)):
                    if isinstance(stmts[j], _ast3.For) and txt[j].startswith("for i in range("):
                        found.append(stmts[i:j])
                        return
        for s_ in stmts:
            for attr in ("body", "orelse", "finalbody"):
                sub = getattr(s_, attr, None)
                if isinstance(sub, list) and sub and isinstance(sub[0], _ast3.stmt):
                    visit(sub)

    visit(fn.body)
    if not found:
        raise OutOfSubset("header-row block of to_csv not found (`if mnemonics is True:` ... `for i in range(`)")
    return E.verify(c, fnode=fn, body=found[0], module="las")


def _csv_truthy(c, name):
    v = c.a[name]
    if isinstance(v, VList):
        return v.n > 0
    if isinstance(v, VConst):
        return z3.BoolVal(bool(v.obj))
    if isinstance(v, VBool):
        return v.t
    return None


def make_csv(case, mn_ty, un_ty, mn_given, un_given):
    """mn_given/un_given: z3 Bool builder for 'the caller asked for this row' (True -> the curves' own list, assumed non-empty here)"""
    def post(c):
        line = c.a["units_loc"].t == z3.StringVal("line")
        return [("mnemonic-row-written-exactly-when-asked-for", c.g("$rows_m") == z3.If(mn_given(c), 1, 0)),
                ("unit-row-written-exactly-when-asked-for-and-units_loc-is-line", c.g("$rows_u") == z3.If(z3.And(un_given(c), line), 1, 0)),
                ("no-other-row-and-mnemonics-first", z3.And(c.g("$rows_x") == 0, z3.Not(c.g("$u_before_m"))))]
    return REG.add(Contract(
        "las.LASFile.to_csv#header-rows", case=case,
        params={"self": REF("LASFile"), "mnemonics": mn_ty, "units": un_ty, "units_loc": STR, "writer": OBJ},
        requires=lambda c: API.las_shape(c) + [("some-curves", API.cv(c).n > 0)],
        ensures=post, ghost_init=csv_init, hooks={"contains:writer.writerow(": csv_hook},
        verify_with=csv_verify, abstract_exprs=True, may_raise=["Any"], modifies={}, prune=True,
        properties=("C18",)))


from . import las_api as API
_T, _F = (lambda c: z3.BoolVal(True)), (lambda c: z3.BoolVal(False))
_LM = lambda c: c.a["mnemonics"].n > 0
_LU = lambda c: c.a["units"].n > 0
CSV_TT = make_csv("mnemonics=True,units=True", CONST(True), CONST(True), _T, _T)
CSV_FT = make_csv("mnemonics=False,units=True", CONST(False), CONST(True), _F, _T)
CSV_TF = make_csv("mnemonics=True,units=False", CONST(True), CONST(False), _T, _F)
CSV_FL = make_csv("mnemonics=False,units=list", CONST(False), LIST(STR), _F, _LU)
CSV_LL = make_csv("mnemonics=list,units=list", LIST(STR), LIST(STR), _LM, _LU)
