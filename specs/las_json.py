"""C18 (part): JSONEncoder.default for the scalar types the reader puts into header
values; index-unit helper of the depth views."""
import z3
from pyvc.values import *
from pyvc.spec import Contract
from .common import *

is_npint = z3.Function("py_isinstance_np_integer", PyObj, B)
is_npflt = z3.Function("py_isinstance_np_floating", PyObj, B)
is_las = z3.Function("py_isinstance_LASFile", PyObj, B)
int_of = z3.Function("py_int_of", PyObj, I)
float_of = z3.Function("py_float", PyObj, PyObj)


def default_post(c):
    o = c.a["obj"].t
    r = c.res
    if isinstance(r, VInt):
        return [("numpy-integers-become-ints", z3.And(is_npint(o), r.t == int_of(o)))]
    if isinstance(r, VObj):
        return [("numpy-floats-become-floats", z3.And(z3.Not(is_npint(o)), is_npflt(o), r.t == float_of(o)))]
    return [("anything-else-falls-through-to-null", z3.And(z3.Not(is_npint(o)), z3.Not(is_npflt(o))))]


REG.add(Contract(
    "las.JSONEncoder.default", case="scalar", params={"self": OBJ, "obj": OBJ},
    requires=lambda c: [("not-a-LASFile", z3.Not(is_las(c.a["obj"].t)))],
    ensures=default_post, prune=True, properties=("C18",), noraise=True))


# ---------------------------------------------------------------- depth_m / depth_ft
from . import las_api as API
from . import las_write_state as WS      # declares LASFile.index_unit
iuc = z3.Function("index_unit_contains", PyObj, S, B)
mul = z3.Function("py_binop_Mult", PyObj, PyObj, PyObj)
div = z3.Function("py_binop_Div", PyObj, PyObj, PyObj)


def const_obj(x):
    import hashlib
    return z3.Const("const_%s" % hashlib.sha1(repr(x).encode()).hexdigest()[:10], PyObj)


C3048, C120 = const_obj(0.3048), obj_of_int(z3.IntVal(120))

REG.add(Contract(
    "las.LASFile._index_unit_contains", params={"self": API.LAS, "unit_code": STR}, returns=OBJ, assumed=True, noraise=True,
    ensures=lambda c: [("truth", truthy(c.res.t) == iuc(z3.Select(c.h("index_unit"), c.a["self"].t), c.a["unit_code"].t))],
    note="_index_unit_contains(code) is truthy iff index_unit is set and contains code ignoring case (one-line body: "
         "`self.index_unit and (code.upper() in self.index_unit.upper())`, operates on an opaque str-or-None)",
    properties=("C18",)))


def unit_of(c):
    return z3.Select(c.h("index_unit"), c.a["self"].t)


def index_of(c):
    return z3.Select(c.h("data"), API.cv(c).item(0))


def depth_post(which):
    def post(c):
        u, ix = unit_of(c), index_of(c)
        M, F, IN = iuc(u, z3.StringVal("M")), iuc(u, z3.StringVal("F")), iuc(u, z3.StringVal(".1IN"))
        if which == "m":
            val = z3.If(M, ix, z3.If(F, mul(ix, C3048), mul(div(ix, C120), C3048)))
        else:
            val = z3.If(M, div(ix, C3048), z3.If(F, ix, div(ix, C120)))
        return [("value-by-unit-branch", c.res.t == val)]
    return post


def no_unit(c):
    u = unit_of(c)
    return z3.And(z3.Not(iuc(u, z3.StringVal("M"))), z3.Not(iuc(u, z3.StringVal("F"))), z3.Not(iuc(u, z3.StringVal(".1IN"))))


for _w in ("m", "ft"):
    REG.add(Contract(
        "las.LASFile.depth_" + _w, params={"self": API.LAS}, requires=lambda c: API.las_shape(c) + [("has-an-index-curve", API.cv(c).n > 0)],
        raises=[("LASUnknownUnitError", no_unit)], ensures=depth_post(_w), returns=OBJ, properties=("C18",)))
